"""A6 decision-table extraction: read switch / if-chain functions as tables."""
from .extract import AnalysisBroken
from .sem import term, unwrap


def _ends(stmts):
    """does the statement list end control flow (return/throw/break/continue)?"""
    for s in stmts:
        if s is None:
            continue
        if s.k in ('return', 'break', 'continue'):
            return True
        if s.k == 'throw':
            return True
        if s.k == 'compound' and _ends(s.c):
            return True
    return False


def switch_groups(sw):
    """[(labels, stmts)] for a switch node; labels are terms of the case constants or
    'default'; fall-through is resolved by appending the following group's statements."""
    body = sw.c[1]
    if body is None or body.k != 'compound':
        raise AnalysisBroken('switch body is not a compound statement at %s' % sw.loc())
    groups = []
    cur = None
    for st in body.c:
        s = st
        labels = []
        while s is not None and s.k in ('case', 'default'):
            if s.k == 'case':
                labels.append(term(s.c[0]))
                s = s.c[1]
            else:
                labels.append('default')
                s = s.c[0]
        if labels:
            cur = [labels, []]
            groups.append(cur)
        if cur is None:
            continue
        if s is not None:
            cur[1].append(s)
    # resolve fall-through
    out = []
    for i, (labels, stmts) in enumerate(groups):
        full = list(stmts)
        j = i
        while not _ends(full) and j + 1 < len(groups):
            j += 1
            full += groups[j][1]
        out.append((labels, full))
    return out


def first_return(stmts):
    for s in stmts:
        if s is None:
            continue
        if s.k == 'return':
            return s
        if s.k == 'compound':
            r = first_return(s.c)
            if r is not None:
                return r
        if s.k in ('break',):
            return None
    return None


def has_throw(stmts):
    for s in stmts:
        if s is None:
            continue
        for n in s.walk():
            if n.k == 'throw':
                return True
    return False


def enum_switch_table(fn, enum_prefix=None, param=0):
    """{enumerator qname|'default' -> stmts} for a function that is one switch on its
    parameter; plus the statements after the switch (reached when a group breaks)"""
    sws = [n for n in fn.body.walk() if n.k == 'switch']
    if len(sws) != 1:
        raise AnalysisBroken('%s is not tabular: %d switch statements' % (fn.q, len(sws)))
    sw = sws[0]
    tab = {}
    for labels, stmts in switch_groups(sw):
        for lb in labels:
            if lb == 'default':
                tab['default'] = stmts
            elif lb[0] == 'e':
                tab[lb[1]] = stmts
            else:
                raise AnalysisBroken('%s is not tabular: non-enumerator case label %r' % (fn.q, lb))
    # statements following the switch in the enclosing compound
    after = []
    p = sw.p
    if p is not None and p.k == 'compound':
        idx = [i for i, c in enumerate(p.c) if c is sw][0]
        after = p.c[idx + 1:]
    return sw, tab, after


def enumerators(prog, q):
    e = prog.enums.get(q)
    if not e:
        raise AnalysisBroken('anchor vanished: enum %s' % q)
    return ['%s::%s' % (q, x['name']) for x in e['enumerators']]
