"""Loader for the facts written by tools/nixfacts: typed syntax trees with resolved
declarations, clang CFGs, dominators, guard facts, closed-world call graph."""
import json
import os
import sys
from collections import defaultdict

from .extract import AnalysisBroken, extract

sys.setrecursionlimit(10000)


class Node(object):
    __slots__ = ('k', 'id', 'l', 't', 'a', 'c', 'p', 'fn')

    def __init__(self, k, id_, l, t, a, c, fn):
        self.k = k
        self.id = id_
        self.l = l
        self.t = t
        self.a = a
        self.c = c
        self.p = None
        self.fn = fn

    def get(self, key, default=None):
        return self.a.get(key, default)

    # ---- resolved declaration helpers
    @property
    def callee(self):
        return self.a.get('callee')

    @property
    def decl(self):
        return self.a.get('decl')

    def callee_q(self):
        c = self.a.get('callee')
        return c.get('q') if c else None

    def callee_name(self):
        c = self.a.get('callee')
        return c.get('name') if c else None

    def callee_usr(self):
        c = self.a.get('callee')
        return c.get('usr') if c else None

    def walk(self):
        stack = [self]
        while stack:
            n = stack.pop()
            yield n
            for ch in reversed(n.c):
                if ch is not None:
                    stack.append(ch)

    def find(self, pred):
        return [n for n in self.walk() if pred(n)]

    def calls(self, name=None, q=None):
        out = []
        for n in self.walk():
            if n.k in ('call', 'construct') and n.callee:
                if name is not None and n.callee.get('name') != name:
                    continue
                if q is not None and n.callee.get('q') != q:
                    continue
                out.append(n)
        return out

    def ancestors(self):
        n = self.p
        while n is not None:
            yield n
            n = n.p

    def loc(self):
        return '%s:%s' % (self.fn.file if self.fn else '?', self.l)

    def src(self, maxlen=100):
        """A short reconstruction of the expression for messages."""
        s = _render(self)
        return s if len(s) <= maxlen else s[:maxlen - 3] + '...'

    def __repr__(self):
        return '<%s#%s l%s %s>' % (self.k, self.id, self.l, self.src(60))


def _render(n):
    if n is None:
        return ''
    k = n.k
    a = n.a
    c = n.c
    try:
        if k == 'ref':
            return a['decl'].get('name', '?')
        if k == 'member':
            b = _render(c[0]) if c and c[0] is not None else ''
            if b in ('this', ''):
                return a['decl'].get('name', '?')
            return b + ('->' if a.get('arrow') else '.') + a['decl'].get('name', '?')
        if k == 'this':
            return 'this'
        if k in ('int', 'float', 'bool', 'char'):
            v = a.get('v')
            if a.get('macro'):
                return a['macro']
            return str(v).lower() if k == 'bool' else str(v)
        if k == 'str':
            return json.dumps(a.get('v', ''))
        if k == 'nullptr':
            return 'nullptr'
        if k == 'call':
            cal = a.get('callee')
            name = cal.get('name') if cal else '?'
            if a.get('op'):
                op = a['op']
                args = [_render(x) for x in c]
                if op == '()':
                    return '%s(%s)' % (args[0], ', '.join(args[1:]))
                if op == '[]':
                    return '%s[%s]' % (args[0], ', '.join(args[1:]))
                if len(args) == 1:
                    return op + args[0]
                if op in ('++', '--') and len(args) == 2:
                    return args[0] + op
                if len(args) == 2:
                    return '%s %s %s' % (args[0], op, args[1])
                return '%s(%s)' % (op, ', '.join(args))
            if a.get('member'):
                obj = _render(c[0]) if c else ''
                args = ', '.join(_render(x) for x in c[1:])
                if cal and cal.get('kind') == 'conv':
                    return obj
                if obj in ('this', ''):
                    return '%s(%s)' % (name, args)
                return '%s%s%s(%s)' % (obj, '->' if a.get('arrow') else '.', name, args)
            if a.get('indirect'):
                return '%s(%s)' % (_render(c[0]), ', '.join(_render(x) for x in c[1:]))
            q = cal.get('q', name) if cal else name
            q = q.replace('nix::', '')
            return '%s(%s)' % (q, ', '.join(_render(x) for x in c))
        if k == 'construct':
            cal = a.get('callee') or {}
            args = [x for x in c if x is not None and x.k != 'defarg']
            if len(args) == 1 and not a.get('temp'):
                return _render(args[0])
            return '%s(%s)' % ((cal.get('cls') or cal.get('name') or '?').replace('nix::', ''), ', '.join(_render(x) for x in args))
        if k in ('binop', 'assign'):
            return '%s %s %s' % (_render(c[0]), a.get('op'), _render(c[1]))
        if k == 'unop':
            if a.get('postfix'):
                return _render(c[0]) + a.get('op')
            return a.get('op') + _render(c[0])
        if k == 'cond':
            return '%s ? %s : %s' % (_render(c[0]), _render(c[1]), _render(c[2]))
        if k == 'cast':
            return '(%s)%s' % (a.get('to'), _render(c[0]))
        if k == 'throw':
            return 'throw ' + (_render(c[0]) if c and c[0] is not None else '')
        if k == 'return':
            return 'return ' + (_render(c[0]) if c and c[0] is not None else '')
        if k == 'subscript':
            return '%s[%s]' % (_render(c[0]), _render(c[1]))
        if k == 'lambda':
            return '[lambda]'
        if k == 'defarg':
            return _render(c[0]) if c else ''
        if k == 'var':
            return '%s %s%s' % (a.get('type'), a.get('name'), (' = ' + _render(c[0])) if c and c[0] is not None else '')
        if k == 'declstmt':
            return '; '.join(_render(x) for x in c)
        if k == 'initlist' or k == 'stdinitlist':
            return '{%s}' % ', '.join(_render(x) for x in c)
        if k == 'sizeof':
            return 'sizeof(%s)' % (a.get('arg') or (_render(c[0]) if c else ''))
        if k == 'if':
            return 'if (%s) ...' % _render(c[2])
        if k == 'ctorinit':
            return '%s(%s)' % (a.get('field') or a.get('base') or 'this', _render(c[0]) if c else '')
    except Exception:
        pass
    return k


class Block(object):
    __slots__ = ('id', 'elems', 'term', 'termk', 'cond', 'succ', 'pred', 'noreturn')


class CFG(object):
    def __init__(self, fn, raw):
        self.fn = fn
        self.blocks = {}
        for b in raw['blocks']:
            B = Block()
            B.id = b['id']
            B.elems = b['e']
            B.term = b.get('term')
            B.termk = b.get('termk')
            B.cond = b.get('cond')
            B.succ = b['s']
            B.pred = []
            B.noreturn = b.get('noreturn', False)
            self.blocks[B.id] = B
        self.entry = raw['entry']
        self.exit = raw['exit']
        for B in self.blocks.values():
            for s in B.succ:
                if s is not None:
                    self.blocks[s].pred.append(B.id)
        self.pos = {}
        for B in self.blocks.values():
            for i, e in enumerate(B.elems):
                # the first occurrence wins (an id may be listed in several blocks for
                # conditions; keep the earliest in evaluation order = highest block id first)
                if e not in self.pos:
                    self.pos[e] = (B.id, i)
        self._dom = None
        self._reach = None

    def reachable(self):
        if self._reach is None:
            seen = set()
            st = [self.entry]
            while st:
                b = st.pop()
                if b in seen:
                    continue
                seen.add(b)
                for s in self.blocks[b].succ:
                    if s is not None:
                        st.append(s)
            self._reach = seen
        return self._reach

    def dominators(self):
        """dom[b] = set of blocks dominating b (iterative, blocks are few)."""
        if self._dom is not None:
            return self._dom
        reach = self.reachable()
        allb = set(reach)
        dom = {b: set(allb) for b in reach}
        dom[self.entry] = {self.entry}
        order = sorted(reach, reverse=True)  # clang numbers entry highest
        changed = True
        while changed:
            changed = False
            for b in order:
                if b == self.entry:
                    continue
                preds = [p for p in self.blocks[b].pred if p in reach]
                if not preds:
                    new = {b}
                else:
                    new = set.intersection(*[dom[p] for p in preds])
                    new = new | {b}
                if new != dom[b]:
                    dom[b] = new
                    changed = True
        self._dom = dom
        return dom

    def block_of(self, node_id):
        p = self.pos.get(node_id)
        return p[0] if p else None

    def dominates(self, a_id, b_id):
        """element a dominates element b (both tree-node ids listed in the CFG)."""
        pa = self.pos.get(a_id)
        pb = self.pos.get(b_id)
        if pa is None or pb is None:
            return False
        if pa[0] == pb[0]:
            return pa[1] <= pb[1]
        dom = self.dominators()
        return pb[0] in dom and pa[0] in dom[pb[0]]

    def edge_dominates_block(self, src, dst, blk):
        """the CFG edge src->dst dominates block blk"""
        dom = self.dominators()
        if blk not in dom or dst not in dom[blk]:
            return False
        # every other predecessor of dst must itself be dominated by dst (back edges)
        for p in self.blocks[dst].pred:
            if p == src:
                continue
            if p not in dom:
                continue  # unreachable
            if dst not in dom[p]:
                return False
        # a block with src listed twice as predecessor (both branches to dst) gives no fact
        if self.blocks[src].succ.count(dst) > 1:
            return False
        return True

    def guards_at_block(self, blk):
        """[(cond_node_id, polarity)] of branch conditions known at entry of blk."""
        out = []
        dom = self.dominators()
        if blk not in dom:
            return out
        for d in dom[blk]:
            B = self.blocks[d]
            if B.cond is None or len(B.succ) != 2:
                continue
            if B.termk in ('SwitchStmt',):
                continue
            t, f = B.succ
            if t is not None and t != f and self.edge_dominates_block(d, t, blk):
                out.append((B.cond, True))
            if f is not None and t != f and self.edge_dominates_block(d, f, blk):
                out.append((B.cond, False))
        return out

    def guards_at(self, node_id):
        p = self.pos.get(node_id)
        if p is None:
            return None
        return self.guards_at_block(p[0])

    def reaches(self, a_blk, b_blk, avoid=()):
        seen = set()
        st = [a_blk]
        while st:
            b = st.pop()
            if b in seen or b in avoid:
                continue
            seen.add(b)
            if b == b_blk:
                return True
            for s in self.blocks[b].succ:
                if s is not None:
                    st.append(s)
        return False


class Func(object):
    def __init__(self, prog, raw, part):
        self.prog = prog
        self.raw = raw
        self.part = part
        self.usr = raw['usr']
        self.q = raw['q']
        self.name = raw['name']
        self.sig = raw['sig']
        self.ret = raw['ret']
        self.file = raw['file']
        self.line = raw['line']
        self.endline = raw.get('endline')
        self.kind = raw['kind']
        self.cls = raw.get('cls')
        self.dependent = raw.get('dependent', False)
        self.overrides = raw.get('overrides', [])
        self.access = raw.get('access')
        self.is_const = raw.get('const', False)
        self.is_static = raw.get('static', False)
        self.is_virtual = raw.get('virtual', False)
        self.instantiation = raw.get('instantiation', False)
        self.pattern = raw.get('pattern')
        self.targs = raw.get('targs')
        self.clstargs = raw.get('clstargs')
        self._built = False
        self._body = None
        self._inits = None
        self._nodes = None
        self._cfg = None
        self.params = raw['params']

    def _build(self):
        if self._built:
            return
        self._built = True
        self._nodes = {}
        decltab = self.part['decltab']
        typetab = self.part['typetab']

        def mk(r, parent):
            if r is None:
                return None
            a = {}
            for key, v in r.items():
                if key in ('k', 'id', 'l', 't', 'c'):
                    continue
                if key in ('callee', 'decl') and isinstance(v, int):
                    v = decltab[v]
                a[key] = v
            t = r.get('t')
            if isinstance(t, int):
                t = typetab[t]
            n = Node(r['k'], r.get('id'), r.get('l'), t, a, [], self)
            n.p = parent
            n.c = [mk(x, n) for x in r.get('c', [])]
            if n.id is not None and n.id not in self._nodes:
                self._nodes[n.id] = n
            return n

        self._inits = [mk(i, None) for i in self.raw.get('inits', [])]
        self._body = mk(self.raw.get('body'), None)
        for p in self.params:
            if 'default' in p and not isinstance(p['default'], Node):
                save = self._nodes
                self._nodes = {}
                p['default'] = mk(p['default'], None)
                self._nodes = save

    @property
    def body(self):
        self._build()
        return self._body

    @property
    def inits(self):
        self._build()
        return self._inits

    @property
    def nodes(self):
        self._build()
        return self._nodes

    @property
    def cfg(self):
        if self._cfg is None and self.raw.get('cfg'):
            self._build()
            self._cfg = CFG(self, self.raw['cfg'])
        return self._cfg

    def walk(self):
        self._build()
        for i in self._inits:
            for n in i.walk():
                yield n
        if self._body is not None:
            for n in self._body.walk():
                yield n

    def calls(self, name=None, q=None):
        out = []
        for n in self.walk():
            if n.k in ('call', 'construct') and n.callee:
                if name is not None and n.callee.get('name') != name:
                    continue
                if q is not None and n.callee.get('q') != q:
                    continue
                out.append(n)
        return out

    def where(self):
        return '%s:%d' % (self.file, self.line)

    def label(self):
        return '%s%s' % (self.q, self.sig)

    def __repr__(self):
        return '<Func %s%s>' % (self.q, self.sig)


class Program(object):
    def __init__(self, repo=None, verbose=False):
        self.dir = extract(repo, verbose=True)
        self.meta = json.load(open(os.path.join(self.dir, 'meta.json')))
        self.repo = self.meta['repo']
        self.funcs = {}
        self.patterns = {}
        self.byq = defaultdict(list)
        self.byname = defaultdict(list)
        self.records = {}
        self.enums = {}
        self.vars = defaultdict(list)
        self.tus = []
        parts = sorted(p for p in os.listdir(self.dir) if p.startswith('part-'))
        for pn in parts:
            with open(os.path.join(self.dir, pn)) as f:
                raw = json.load(f)
            part = {'decltab': raw['decltab'], 'typetab': raw['typetab']}
            self.tus += raw['tus']
            for fr in raw['functions']:
                if fr.get('dependent'):
                    key = fr['usr']
                    if key not in self.patterns:
                        self.patterns[key] = Func(self, fr, part)
                    continue
                if fr['usr'] in self.funcs:
                    continue
                fn = Func(self, fr, part)
                self.funcs[fn.usr] = fn
                self.byq[fn.q].append(fn)
                self.byname[fn.name].append(fn)
            for r in raw['records']:
                self.records.setdefault(r['q'], r)
            for e in raw['enums']:
                self.enums.setdefault(e['q'], e)
            for v in raw['vars']:
                if not any(x['file'] == v['file'] and x['line'] == v['line'] for x in self.vars[v['q']]):
                    v['_part'] = part
                    self.vars[v['q']].append(v)
        self._overriders = None
        self._callers = None

    # ------------------------------------------------------------------
    def rel(self, path):
        if path and path.startswith(self.repo + '/'):
            return path[len(self.repo) + 1:]
        return path

    def fn(self, q, sig=None):
        """unique function with qualified name q (and signature substring)"""
        c = self.byq.get(q, [])
        if sig is not None:
            c = [f for f in c if sig in f.sig]
        if len(c) == 1:
            return c[0]
        if not c:
            raise AnalysisBroken('anchor vanished: no function %s%s in the extracted program' % (q, ' ' + sig if sig else ''))
        raise AnalysisBroken('ambiguous anchor %s%s: %s' % (q, ' ' + sig if sig else '', [f.sig for f in c]))

    def fns(self, q):
        return list(self.byq.get(q, []))

    def methods_of(self, cls):
        return [f for f in self.funcs.values() if f.cls == cls]

    def var_init(self, q):
        vs = self.vars.get(q)
        if not vs:
            raise AnalysisBroken('anchor vanished: no namespace-scope variable %s' % q)
        v = vs[0]
        if '_node' not in v and v.get('init') is not None:
            holder = Func.__new__(Func)
            holder.file = v['file']
            holder.q = q
            holder.prog = self
            part = v['_part']

            def mk(r, parent):
                if r is None:
                    return None
                a = {}
                for key, val in r.items():
                    if key in ('k', 'id', 'l', 't', 'c'):
                        continue
                    if key in ('callee', 'decl') and isinstance(val, int):
                        val = part['decltab'][val]
                    a[key] = val
                t = r.get('t')
                if isinstance(t, int):
                    t = part['typetab'][t]
                n = Node(r['k'], r.get('id'), r.get('l'), t, a, [], holder)
                n.p = parent
                n.c = [mk(x, n) for x in r.get('c', [])]
                return n
            v['_node'] = mk(v['init'], None)
        return v, v.get('_node')

    # ------------------------------------------------------------------
    def overriders(self, usr):
        """extracted functions that (transitively) override the method with this USR"""
        if self._overriders is None:
            direct = defaultdict(list)
            for f in self.funcs.values():
                for o in f.overrides:
                    direct[o].append(f)
            self._overriders_direct = direct
            self._overriders = {}
        if usr in self._overriders:
            return self._overriders[usr]
        out = []
        seen = set()
        st = [usr]
        while st:
            u = st.pop()
            for f in self._overriders_direct.get(u, []):
                if f.usr not in seen:
                    seen.add(f.usr)
                    out.append(f)
                    st.append(f.usr)
        self._overriders[usr] = out
        return out

    def resolve_call(self, n):
        """Targets (extracted Funcs) of a call/construct node: direct callee, all
        overriders for a virtual call, the constructor behind std::make_shared."""
        cal = n.callee
        if not cal:
            return []
        out = []
        usr = cal.get('usr')
        f = self.funcs.get(usr)
        if f is not None:
            out.append(f)
        if cal.get('virtual') and not n.get('qualified'):
            for o in self.overriders(usr):
                if o not in out:
                    out.append(o)
        if cal.get('q') in ('std::make_shared', 'std::allocate_shared') and cal.get('targs'):
            cls = cal['targs'][0]
            nargs = len([x for x in n.c if x is not None])
            cands = [c for c in self.funcs.values() if c.kind == 'ctor' and c.cls == cls]
            arity = [c for c in cands if len(c.params) == nargs or
                     (len(c.params) > nargs and all('default' in p for p in c.params[nargs:]))]
            if len(arity) > 1:
                from .sem import split_sig
                want = [_normtype(t) for t in split_sig(cal.get('sig', '()'))]
                best = [c for c in arity if [_normtype(p['type']) for p in c.params[:nargs]] == want[:nargs]]
                if best:
                    arity = best
                else:
                    def score(c):
                        return sum(1 for p, w in zip(c.params, want) if _normtype(p['type']) == w)
                    m = max(score(c) for c in arity)
                    arity = [c for c in arity if score(c) == m]
            out += arity
        return out

    def callees(self, fn):
        """[(call node, target Func)] of a function (resolved, closed world)"""
        c = getattr(self, '_callees', None)
        if c is None:
            c = self._callees = {}
        if fn.usr not in c:
            out = []
            for n in fn.walk():
                if n.k in ('call', 'construct') and n.callee:
                    for t in self.resolve_call(n):
                        out.append((n, t))
            c[fn.usr] = out
        return c[fn.usr]

    def reachable(self, fn, stop=None):
        """USRs of all functions transitively callable from fn (fn excluded unless recursive)"""
        seen = {}
        st = [(fn, None)]
        while st:
            f, via = st.pop()
            for n, t in self.callees(f):
                if t.usr in seen:
                    continue
                if stop is not None and stop(t):
                    continue
                seen[t.usr] = (f, n)
                st.append((t, f))
        return seen

    def path_to(self, fn, target_usr):
        """one call chain fn -> ... -> target as a list of qualified names"""
        seen = self.reachable(fn)
        if target_usr not in seen:
            return None
        chain = []
        u = target_usr
        guard = 0
        while u in seen and guard < 50:
            f, n = seen[u]
            chain.append('%s (line %s)' % (self.funcs[u].q, n.l))
            if f.usr == fn.usr:
                break
            u = f.usr
            guard += 1
        chain.append(fn.q)
        return list(reversed(chain))

    def callers(self):
        """usr -> [(Func, call node)]"""
        if self._callers is None:
            cs = defaultdict(list)
            for f in self.funcs.values():
                for n in f.walk():
                    if n.k in ('call', 'construct') and n.callee:
                        for tgt in self.resolve_call(n):
                            cs[tgt.usr].append((f, n))
            self._callers = cs
        return self._callers


def _normtype(t):
    t = _decay(t)
    for pre in ('nix::base::', 'nix::hdf5::', 'nix::', 'base::', 'hdf5::', 'std::__cxx11::', 'std::', 'const '):
        t = t.replace(pre, '')
    t = t.replace('basic_string<char>', 'string').replace('unsigned long long', 'ull').replace('unsigned long', 'ul').replace('long', 'l')
    return t.replace(' ', '')


def _decay(t):
    t = t.strip()
    for pre in ('const ',):
        if t.startswith(pre):
            t = t[len(pre):]
    t = t.rstrip('&').strip()
    if t.endswith(' const'):
        t = t[:-6]
    t = t.replace('std::__cxx11::', 'std::').replace('std::basic_string<char>', 'std::string')
    return t.strip()


_PROG = {}


def load(repo=None):
    key = repo or os.environ.get('NIX_REPO', '/repo')
    if key not in _PROG:
        _PROG[key] = Program(repo)
    return _PROG[key]
