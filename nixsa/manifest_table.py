"""Table behind MANIFEST.json (tools/mkmanifest.py writes the file)."""

CHECKS = {
    'C14': {
        'technique': 'static analysis: dispatch-table agreement (every switch on the value type vs. to_data_type<T> of the instantiated callee), '
                     'discriminating-power rule for the type guard (compared observables must separate all 7 value types in the HDF5 type '
                     'table), dominance rules (all elements typed before resize, resize = number of values), per-instantiation shape rule '
                     'for do_write_value/do_read_value, tagged-union typestate rule for Variant, storage-key agreement',
        'text': 'Decides structural necessary conditions of C14: DataType E is written, read, typed in the file, read old-style, converted '
                'from Value and copied/compared inside Variant through the C type of E; an assignment is refused unless the given type '
                'equals the stored type under a test that separates Bool/Int32/UInt32/Int64/UInt64/Double/String, and every element has that '
                'type, before the data set is resized to values.size(); all values are converted with get<T> and transferred over the whole '
                'data set with the memory type of T, strings copied out before vlen reclaim; clearing sets extent 0; Variant keeps tag and '
                'member in agreement and owns its C string exactly when the tag is String; unit/uncertainty/definition keys agree. Equality '
                'of particular values (NaN, extremes, UTF-8 bytes) through libhdf5 conversion is NOT decided.'
                ' Added: R-GETTER, R-GROW (value data sets have no fixed maximum), R-DCPL, R-MEMTYPE, R-NULL-CSTR.'
                ' Round 6: Property/Section setters hand the given value to the backend verbatim or through the tabled normaliser (R-SETVERB).'
                ' Round 7: R-GETVERB, R-STOREVERB; no rejection after a mutation in Property/Section entry points (R-MBT slice).'
                ' Round 8: R-STRIO verbatim clause, R-STRBUF.'
                ' Round 9: a value setter never removes its key; R-KEY follows file-local helpers one level.'
                ' Round 10: R-KEY write-total.',
    },
    'C15': {
        'technique': 'static analysis: cell codec table agreement (Janus copyValue/copyData vs. to_data_type<T>), def-use rule for compound '
                     'layouts (offsets come from one monotone unsigned running sum, one assignment site), shape/ordering rules for row, cell and '
                     'column I/O, abstract interpretation (all paths) of column access and of the front-end column templates, dominance rule for '
                     'createDataFrame column checks',
        'text': 'Decides structural necessary conditions of C15: a cell of DataType E moves through a C object of the type of E with its own size; '
                'member order equals offset order in every compound built for frame I/O (index-wise decoding reads the requested column); row/cell '
                'access transfers exactly row r, decodes before vlen reclaim and returns the decoded vector; readRow asks for all members in order, '
                'writeRow pairs value k with member k; rows(n) sets extent n; column access uses (name, 0, memtype(dtype)) on the selection '
                '(count, offset) and marshals strings; schema name/type/unit stay on one index; unsupported types and duplicate names are refused '
                'before anything is created; the backend is never handed a count the vector does not cover. Cell values over all write histories '
                'and the zero/empty fill of unwritten cells are libhdf5 behaviour: NOT decided.'
                " Added: Janus member-of-cell clause, writeCells transfers the caller's list, R-STRIO, R-DCPL, R-GROW, R-MEMTYPE, R-SWAP, R-NULL-CSTR."
                ' Round 6: column names and units are written and read back verbatim (R-DF-SCHEMA verbatim clause).'
                ' Round 7: text- and index-keyed overloads default the same trailing parameters (R-DF-OVERLOAD).'
                ' Round 8: R-EXACTCMP.'
                " Round 9: writeColumn hands the caller's count to the backend (R-DF-COUNT).",
    },
    'C01': {
        'technique': 'static analysis: writer/reader table agreement (DataType <-> HDF5 file/memory type, decoder, element size, to_data_type<T>) by '
                     'decision-table extraction; abstract interpretation (all abstract paths) of DataArray::ioRead/ioWrite/appendData and of the '
                     'backend read/write pair; argument-role rule at the hyperslab selection; creation-parameter rule',
        'text': 'Decides structural necessary conditions of C01: every stored element type maps to a file type and a memory type of the same '
                'class/size/sign which decode to the same DataType and whose size equals data_type_to_size and the C type of to_data_type<T>; '
                'offset/count keep their roles down to H5Sselect_hyperslab(start, count); backend read and write select the same region with the '
                'same memory type and marshal strings symmetrically (copy out before vlen reclaim); appendData writes at the old extent after '
                'growing by the count on the axis only; calibration is applied only on read, exactly when coefficients or an origin are stored, as '
                'read(Double) -> polynomial(input - origin) -> convert(Double -> requested); the data set is created chunked with unlimited maximum '
                'extent so growth/shrink is possible. Value equality of what libhdf5 returns (conversion of particular values, fill of grown '
                'regions) is NOT decided.'
                ' Added during seeding rounds: string marshalling pairs element i with element i and defines every element (R-STRIO); Compression is forwarded down to the data set creation (R-FORWARD-COMP); data set creation / access / transfer property lists carry no setting from a deny list (fill time, fill value, lossy filters) (R-DCPL); resized data sets have no fixed maximum (R-GROW); raw transfers get a memory type made from the buffer element type (R-MEMTYPE) in the right argument positions (R-ROLE, R-SWAP); backend objects cache nothing (R-NOCACHE).'
                ' Round 6: every normally returning path of DataArrayHDF5::write/read performs the data set transfer (R-IOPATH).'
                ' Round 7: convertData converts on every returning path; appendData compares shapes, not element counts (R-APPEND).'
                ' Round 8: setExtent hands the shape to H5Dset_extent on every path (R-SETEXTENT); calibrated reads refuse String (guards D29).'
                ' Round 9: replacing setters size their data set to the new length (R-REPLACE-EXTENT).'
                ' Round 10: every returning path of a backend value setter stores or removes (R-KEY write-total).',
    },
    'C02': {
        'technique': 'static analysis: storage-key agreement rule per backend field (setter / clearing overload / getter / creating constructor / '
                     'header), def-use rule value-from-parameter, handle-only member rule, cached-handle-versus-unlink rule (must-pass-through on '
                     'optGroup::operator() combined with a who-unlinks query over the class hierarchy), enum<->string codec evaluation, '
                     'dimension-opener dispatch table, close/flush typestate rule, error-result consumption rule',
        'text': 'Decides structural necessary conditions of C02 (partial claim): no persisted field is written under a key/store kind other than the '
                'one it is read and cleared under; stored values derive from the setter parameter; backend classes own only handles (no value '
                'cache); the only handle cache either re-looks the container up or no cached container is ever unlinked; links are hard links; '
                'LinkType/DimensionType/DataType codecs are bijective on what is stored and the dimension opener builds the class of the stored '
                'kind; close releases every id then the file; no mutating HDF5 result is dropped. Equality of the whole entity tree over all '
                'operation histories (a model comparison over runtime states) is NOT decided.'
                " Added: optional getters report 'not set' only for an absent key (R-GETTER); const backend methods never write (R-GETPURE); lookup tables in backend objects are coherent, no member is filled lazily, optGroup never answers 'absent' from memory (R-NOCACHE); index access iterates the creation-order index increasingly (R-ORDER); file property lists carry no denied setting (R-FAPL)."
                ' Round 6: the time stamp text codec is time-zone/locale independent and parser and formatter agree (R-TIMECODEC).'
                ' Round 7: front-end setters/getters and backend stores are verbatim (R-SETVERB, R-GETVERB, R-STOREVERB); all constructors of a backend class bind a container member to the same group name (R-CTORPAIR); H5Object releases its id unconditionally (R-HIDREL).'
                " Round 8: no run-time written function-static state (R-NOSTATIC); the string transfer functions do not touch the caller's strings (R-STRBUF, R-STRIO verbatim)."
                ' Round 9: backend getters return what they read (R-GETRAW).'
                ' Round 10: R-KEY write-total; isOpen() equals the validity of the file id (R-CLOSE guard); the non-releasing H5Object move assignment has no caller (R-HIDREL).',
    },
    'C03': {
        'technique': 'static analysis: dominance-based validate-before-create rule over clang AST/CFG facts (custom checker)',
        'text': 'Decides a structural necessary condition of C03 on every path of every front-end create entry point: the '
                'name (and type) is validated and a same-kind existence test on the same name leads away from the '
                'backend create call (R-VAL). It does not decide lookup/count/order agreement for runtime histories.'
                ' Added: a child linked under the queried name is always found before any id search (R-NAMEFIRST); backend objects keep no stale lookup tables (R-NOCACHE); name/id filter predicates compare the attribute exactly (R-FILTER).'
                ' Round 6: attribute searches accept a child only under exact equality (R-ATTRSEARCH); Identity carries the given name/id verbatim (R-IDENT).'
                ' Round 7: get-name buffers have (queried length + 1) elements (R-NAMEBUF); text lookups go through the name-first helpers (R-LOOKUP-VIA).'
                ' Round 8: R-STRBUF; whole-string, case-sensitive comparisons only (R-EXACTCMP).'
                ' Round 9: deletion cascade and all-links rules (R-DEL) also run here.'
                ' Round 10: H5Group opens a child by name only under a true H5Lexists test (R-LINKFIRST).',
    },
    'C10': {
        'level': 'proof',
        'technique': 'static analysis: abstract interpretation of FormatVersion on the sign domain (27 vectors, exhaustive) and of '
                     'checkHeader / FileHDF5 constructor over a boolean abstraction of all file queries (all abstract paths)',
        'text': 'Proof-level for the stated abstraction: canWrite/canRead and the six operators are evaluated on all 27 sign '
                'vectors of (library - file) and equal the specification (exact match / same major and minor not newer / '
                'lexicographic total order, trichotomy); a pre-pass makes the sign domain exhaustive for all int triples '
                '(components are only ever compared with the same-index component). checkHeader is evaluated on every abstract '
                'path: right gate per mode, library version as receiver, file version as argument, InvalidFile iff the header '
                'is unacceptable and throw_error; the constructor passes throw_error = !(flags & Force).',
        'note': 'Trusted base: clang 14 front end, tools/nixfacts.cc, nixsa/absint.py (the abstract interpreter), the '
                'specification rows in nixsa/rules/r_ver.py and r_hdr.py. Assumes LocID::hasAttr/getAttr report the attribute '
                'state faithfully (they are opaque booleans in the abstraction).'
                ' Round 6: FormatVersion stores and returns its components without a value-losing integer conversion (R-VER-WIDTH).'
                ' Round 7: the Force flag reaches the backend for every mode (File::open forwarded clause).'
                ' Round 8: LocID::getAttr answers "absent" only for an absent attribute (R-GETATTR).'
                ' Round 10: outside the comparison-only fragment the gates are interpreted on a grid of concrete triples - refutation only, otherwise exit 2.',
    },
    'C09': {
        'technique': 'static analysis: decision-table extraction + abstract interpretation (boolean abstraction, all paths) of '
                     'File::open / FileHDF5 constructor / checkHeader; dominance rule for absence-guarded writes; error-result '
                     'consumption rule over all HDF5 call sites',
        'text': 'Decides structural necessary conditions of C09 on every path: FileMode->H5F_ACC_* table, create/open branch and '
                'the flag reaching H5Fcreate/H5Fopen per (mode, exists), createHeader only when creating, checkHeader(mode,!Force) on '
                'every open, header verdict specification (missing/wrong format, missing version, missing id refused), ReadOnly on a '
                'missing path refused before a backend exists, open path writes only what is absent, and every file-mutating HDF5 '
                'call has its result checked so that a refusal by libhdf5 (read-only file) becomes an exception. Byte identity and '
                'content preservation themselves are libhdf5 behaviour: not decided.'
                ' Added: raw HDF5 ids reach their owner before anything can throw (R-HIDOWN); file property list deny list (R-FAPL); const backend methods never write (R-GETPURE); existence queries check() their result (R-ERR-EXISTS); header verdict judged by outcome only.'
                ' Round 6: the front-end existence test follows symbolic links like the open call does (status vs symlink_status modelled).'
                ' Round 7: open flags and compression reach the backend for every mode (R-HDR-CTOR forwarded clause); R-HIDREL.'
                ' Round 8: close() sweeps the open objects on every returning path (R-CLOSE sweep clause).'
                ' Round 9: no backend catch handler swallows an exception (R-NOSWALLOW).'
                ' Round 10: R-CLOSE guard-is-file-id, R-HIDREL no-caller.',
    },
    'C11': {
        'technique': 'static analysis: must-pass-through (post-dominance) and who-may-call rules on FileHDF5::flush/close and '
                     'File::close; error-result consumption rule',
        'text': 'Decides the close/flush clauses visible in code shape: flush = H5Fflush(file id, global scope) returning its negated '
                'error; close closes the root handles, enumerates open groups/datasets/datatypes, closes each id ref-count times and '
                'then the file id on every path; File::close drops the backend pointer, all File members go through backend() '
                '(throws when empty); mutating HDF5 results are checked. Durability against SIGKILL / what libhdf5 has written is a '
                'crash-point property outside static reach: NOT decided (partial claim).'
                " Added: R-FAPL (libver bounds / close degree), R-HIDOWN, R-ERR-EXISTS (stale handles raise instead of answering 'absent')."
                ' Round 6: flush() reports success only on paths that ran H5Fflush without error (path enumeration; ReadOnly shortcut accepted).'
                ' Round 7: H5Object releases its id unconditionally (R-HIDREL).'
                ' Round 8: R-CLOSE sweep clause; no wrapper of an id kind that close() does not sweep can be move-assigned without releasing (R-HIDREL).'
                ' Round 9: no temporary wrapper adopts an id the object itself holds (R-HIDOWN adopt clause).'
                ' Round 10: isOpen() (the guard of close()) equals isValid() of the file id on all abstract paths; R-HIDREL no-caller.',
    },
    'C12': {
        'technique': 'static analysis: entropy-source classification of the generator chain in util::createId (def-use over static '
                     'locals), value-flow rule createId() -> creating constructor, who-may-write rule for the id keys, R-VAL',
        'text': 'Decides structural necessary conditions of C12: the uuid generator draws from a process-unique entropy source (a '
                'clock/constant-only seed is reported), createId returns the formatted uuid, all 12 backend creation sites pass a '
                'fresh createId() to the creating constructor, entity_id/id keys are written only by creating constructors / '
                'createHeader / forceId, and no create entry point can re-run a creating constructor on an existing entity. '
                'Collision probability is not decided.'
                ' Added: R-NAMEFIRST and the R-NOCACHE clauses (a duplicate test that is fooled re-runs the creating constructor on an existing entity).'
                ' Round 6: Identity carries the given name/id verbatim (R-IDENT); R-ATTRSEARCH.'
                ' Round 8: R-EXACTCMP.'
                ' Round 10: existence by link test before open-by-path (R-LINKFIRST: the name . cannot re-identify a container).'
                ' The id given to a creating constructor reaches EntityHDF5 unchanged (R-ID-FWD).',
    },
    'C13': {
        'technique': 'static analysis: dominance/guard-fact rules at every ticks / sampling-interval sink call site, linear-form check '
                     'of the append index, default-vs-guard agreement, who-touches-raw-group rule, abstract interpretation of the '
                     'alias preconditions and of createDimensionGroup',
        'text': 'Decides structural necessary conditions of C13: gap-free numbering (append index = dimensionCount()+1, backend bounds '
                '0 < index <= count+1, delete-all covers count..1), "whichever entry point" for sorted ticks and positive intervals '
                '(every front-end sink call site is guarded), optional parameters stored iff not default (negative offsets), alias '
                'preconditions and redirection of every label/unit/ticks accessor. Value equality on read-back and ticks written '
                'through the aliased array are not decided.'
                ' Added: key/getter/codec rules for dimension descriptors, R-TICKS (alias ticks replace the array), R-MBT slice for the append/create entry points, R-COLIDX, R-MEMTYPE.'
                ' Round 7: dimension setters/getters and backend stores are verbatim (R-SETVERB, R-GETVERB, R-STOREVERB).'
                ' Round 9: backend functions identify a handle by id, not by name (R-BYHANDLE-BACK); R-REPLACE-EXTENT.'
                ' Round 10: R-KEY write-total (no value is \'not worth storing\').'
                ' R-GETRAW.',
    },
    'C18': {
        'technique': 'static analysis: constant-table agreement (regex alternatives / factor map / SI exponents), alternation-order '
                     'rule for leftmost-first regex_search, abstract interpretation of getSIScaling/isScalable with symbolic results '
                     'on all abstract paths, def-use rules at the conversion sites',
        'text': 'Decides structural necessary conditions of C18: prefix regex = factor table = 10^e (20 SI prefixes); no searched '
                'alternative shadows a longer one; on every abstract path getSIScaling returns (F[origin]/F[dest])^power or throws '
                'InvalidUnit when not scalable, isScalable is true only for two SI units with equal base unit and power; each '
                'position->index conversion site calls getSIScaling(position unit, dimension unit) and the scaled value reaches '
                'indexOf; tag units are sanitised and SI-checked before storage. Floating-point exactness, composition a->b->c as a '
                'numeric identity and selection invariance are not decided.'
                ' Added: memo-wrapper idiom with key injectivity, R-MEMO, R-PARALLEL, R-UNIT-SCALEPOS (case-sensitive unit equality).'
                ' Round 6: the [prefix]unit grammar is unambiguous (R-UNIT-TAB).'
                ' Round 7: R-ALIGNED.'
                ' Round 8: positionToIndex overloads pass position and unit on unchanged (R-POSPASS).',
    },
    'C19': {
        'technique': 'static analysis: rule-table extraction from the validate overloads (level/getter/predicate/parent), channel '
                     'agreement of must/should/could and Result, loop-nest completeness of File::validate, CFG rule for sticky loop '
                     'verdicts',
        'text': 'Decides the soundness/completeness skeleton of the validator under the assumption that predicates and getters are '
                'correct: all 15 rules named by the property exist with the right level (hard = error, soft = warning), message '
                'channels are not crossed, File::validate reaches every entity kind (features, nested sources/sections, properties) '
                'and keeps every result, and no predicate loop lets a later element overwrite an untested verdict. The arithmetic of '
                'the predicates themselves (isScalable, sizes) is not decided.'
                ' Added: R-VALID-COND (a throwing getter fails the condition), isScalable specification (R-UNIT-SCALE).'
                ' Round 6: the unit tables behind isScalable are checked here too (R-UNIT-TAB).'
                ' Round 7: validator and tick setters decide sortedness with one predicate (R-VALID-SORTED).'
                ' Round 8: name-first lookups behind the multi-getters the file validation walks (R-NAMEFIRST, R-LOOKUP).'
                ' Round 9: the getters the validator reads return what is stored (R-GETRAW).',
    },
    'C04': {
        'technique': 'static analysis: role table of removal sites filled from interface overriders, who-may-call and call-graph '
                     'reachability (closed world), dominance of the recursive child loop over the unlink, loop-shape rule for '
                     'removeAllLinks',
        'text': 'Decides structural necessary conditions of C04 in both directions: the 6 entity-deletion implementations remove all '
                'links of the victim (never a single unlink) with children deleted first for sections/sources; the 20 holder-side '
                'unlink sites cannot reach removeAllLinks; only deletion roles call removeAllLinks; removeAllLinks loops until the '
                'object has no path; handle validity = link count > 0; positions/extents/feature-data getters re-check block '
                'membership. Bit-identity of all other entities and HDF5 link bookkeeping are not decided.'
                " Added: raw buffers handed to C APIs were sized, not only reserved (R-RAWBUF, guards removeAllLinks' name loop); no backend object caches a resolved entity (R-NOCACHE)."
                ' Round 6: by-handle delete/remove overloads identify the entity by its id (R-BYHANDLE; found and fixed D24/D25); R-ATTRSEARCH.'
                ' Round 7: R-NAMEBUF.'
                ' Round 8: a DataArray loses its dimension descriptors, a section its own link, before it is unlinked (R-DEL-CYCLE, R-DEL-SELFLINK; guard D30/D31).'
                ' Round 10: the non-releasing H5Object move assignment has no caller (R-HIDREL no-caller: a leaked container id keeps links to deleted targets alive).',
    },
    'C20': {
        'technique': 'static analysis: work-list discipline rule (insertion/removal ends resolved through helpers), guard-fact and '
                     'linear-form rules for the depth bookkeeping, sibling agreement of the two searches, enumeration/filter rules '
                     'for the back-reference queries',
        'text': 'Narrow claim. Decides necessary conditions visible in code shape: FIFO work list (breadth-first), child depth = '
                'parent depth + 1 enqueued only while parent depth < max_depth, matches appended in removal order, every root '
                'covered by File::findSections / Block::findSources, back references enumerate all blocks / nested sources with '
                'MetadataFilter(id()) resp. SourceFilter(id()), inherited properties shadow by name. Equality with a brute-force '
                'traversal for all trees is not decided.'
                ' Added: R-FILTER, results only through the work list, no early exit from the root loop, R-NOCACHE.'
                ' Round 7: text lookups go through the name-first helpers (R-LOOKUP-VIA).'
                ' Round 10: object names are read into a buffer of the queried length (R-NAMEBUF) - a truncated name drops the node from every enumeration.',
    },
    'C07': {
        'technique': 'static analysis: abstract interpretation with symbolic results on every abstract path (boolean abstraction of all '
                     'comparisons) of the four range-pair functions and the four position->index helpers, per PositionMatch / '
                     'RangeMatch enumerator; dispatch-table extraction; element-wise delegation rule',
        'text': 'Narrow claim: decides the discrete structure of C07, not its numerics. Pair = (GreaterOrEqual(start), '
                'LessOrEqual|Less(end)) iff start <= end, both exist, ordered (4 functions x 2 modes, all abstract paths); vector '
                'overloads delegate element-wise under an equal-length guard; positionToIndex routes every DimensionType to the '
                'matching overload; per matching rule the sampled/set/data-frame helpers use ceil/floor/round with the exact-hit '
                '+-1 adjustment, the range helper handles before-first / after-last / lower_bound adjustment as specified. The '
                'floating-point behaviour of the epsilon test (0.1-interval rounding) is NOT decided.'
                ' Added: PositionMatch forwarding (R-FORWARD-PM), checked upper_bound idiom, exact-hit polynomial, loop-invariance of vector overloads, stale-size rule (R-STALE).'
                ' Round 6: R-POSPASS; same-typed adjacent parameters are passed in declaration order (R-SWAP).'
                ' Round 7: no element of a list is answered before the pair function was asked (R-PAIR-VEC bypass clause).'
                ' Round 9: R-DISPATCH-TOTAL.',
    },
    'C05': {
        'technique': 'static analysis: abstract interpretation (boolean abstraction, loops as one arbitrary iteration, symbolic stores) of '
                     'getOffsetAndCount(Tag)/taggedData/featureData on all abstract paths; dead-store (liveness) rule on index results',
        'text': 'Decides structural necessary conditions of C05: per-dimension conversion inputs at one index with end = position + '
                'extent, inclusive mode without extent, offset = first / count = 1 + (second - first), point fall-back only for zero '
                'extent (else OutOfBounds), results reach the out-parameters, view built only after the bounds test on the same '
                'values, feature dispatch per link type, range-pair composition. Which elements come back for given floating-point '
                'positions and the padding extent of unspecified dimensions are numeric: NOT decided.'
                ' Added: the RangeMatch argument is forwarded to every callee (R-FORWARD); per-dimension containers are read at one index (R-PARALLEL); no function-static memo with an incomplete key (R-MEMO); the bounds predicate positionAndExtentInData is itself checked (R-INDATA); exact-hit test of the sampled helper is the polynomial r*interval+offset-position (R-MATCH); swapped-argument rule (R-SWAP); stale-size rule (R-STALE).'
                ' Round 6: positionToIndex overloads delegate with the position unchanged (R-POSPASS).'
                ' Round 7: R-UNIT-SCALEPOS with loop-carried state; per-dimension containers only grow at the end (R-ALIGNED).'
                ' Round 8: R-NOSTATIC.'
                ' Round 9: no return ahead of the dispatch in the generic positionToIndex overloads (R-DISPATCH-TOTAL).'
                ' Round 10: sibling arms set the reference out-parameters together (R-OUTPAIR).',
    },
    'C06': {
        'technique': 'static analysis: abstract interpretation of getOffsetAndCount(MultiTag)/taggedData/featureData (all abstract '
                     'paths), liveness rule on index results, def-use link between batched conversion and per-index assembly',
        'text': 'Decides structural necessary conditions of C06: the row read from positions/extents is the requested index, bounds '
                'guard before reading, per-index offset/count from the range at one dimension index, point fall-back stored into the '
                'offset handed to the caller (dead-store rule), view after bounds test, indexed/tagged/untagged feature dispatch. '
                'Element selection for particular floating-point positions is numeric: NOT decided.'
                ' Added: rows are read at indices[idx] before each use, block reads only under a whole-list test; index bound for indexed/untagged features; R-FORWARD, R-PARALLEL, R-MEMO, R-INDATA, R-PAIR-VEC (no state carried between list elements), R-SWAP, R-STALE.'
                ' Round 7: R-UNIT-SCALEPOS with loop-carried state; R-ALIGNED.'
                ' Round 8: R-NOSTATIC.'
                ' Round 9: R-DISPATCH-TOTAL.'
                ' Round 10: R-OUTPAIR.',
    },
    'C17': {
        'technique': 'static analysis: abstract interpretation of dataSlice, DataView (ctor, transform_coordinates, ioRead/ioWrite) and '
                     'the NDSize comparison operators; guard-fact rule for subscripts on caller-owned vectors',
        'text': 'Decides structural necessary conditions of C17: dataSlice rejects start > end, converts the padded vectors at one '
                'index with the right descriptor, builds the view only after the bounds test; unspecified dimensions are filled in for '
                'all descriptor kinds; DataView checks its window at construction, compares each request with the window extent and '
                'translates by the window origin; NDSize <=,<,>,>= have the element-wise meaning the guards rely on; subscripts on '
                'caller-owned vectors are bounded. Which elements a position pair selects is numeric: NOT decided.'
                ' Added: NDSize comparisons are treated component-wise by the interpreter; guarded-subtraction idiom; R-INDATA; R-MEMO; R-UNIT-SCALEPOS; R-FILL understands padding through maximumExtents; R-SWAP.'
                ' Round 7: start > end is tested on the padded vectors that are converted (R-SLICE, syntax-level facts); R-ALIGNED.'
                ' Round 8: R-SETEXTENT.'
                ' Round 9: R-MATCH (exact-hit polynomial of the index helpers) also runs here.'
                ' Round 10: R-OUTPAIR.',
    },
    'C08': {
        'technique': 'static analysis: interprocedural clean/dirty typestate over the closed-world call graph and per-function CFGs '
                     '(mutate-before-throw), guard refutation by propagated validator facts, conditional exception table, R-VAL',
        'text': 'Decides the structure of C08 for all 234 public mutating API roots: no explicit argument-rejecting throw is reachable '
                'after a file-mutating HDF5 call of the same API call, unless its guard is refuted by facts established before the '
                'mutation or it is discharged by a named table entry whose structural precondition (a dominating pre-check) is '
                're-verified on every run; plus validate-before-create at every create entry point. 9 instances (Group member '
                'replacement, sources(vector) with an uninitialised handle) are recorded known findings. State equality itself and '
                'rejections raised inside libhdf5 are not decided.'
                ' Added: conditional discharges require the validating loop to test under the key the later call uses; name-first lookups (R-NAMEFIRST); optGroup negative-memory clause (R-NOCACHE).'
                ' Round 7: R-APPEND shape guard; element type compared before a resize (R-TYPEGATE), empty / Nothing columns and ranks above H5S_MAX_RANK refused before anything is created (R-DF-FRONT, R-RANKGATE) - these three guard the defects D26-D28, rejections that come from libhdf5 and that R-MBT does not see.'
                ' Round 8: R-SETEXTENT.'
                ' Round 9: a repeated array in references(vector) is refused before the removal (R-REPLACE-DUP, guards D32).'
                ' Round 10: the convertibility pre-check accepts only element types the encoder can store, exhaustively over DataType (R-CLASSIFY).',
    },
    'C16': {
        'technique': 'static analysis: repository-specific lint set over the resolved program - guard-fact (dominance) rules for '
                     'null/empty/bounds at the anchored idioms, may-return-null summaries, cast and buffer/count rules, error-result '
                     'consumption rule',
        'text': 'NOT a proof of the absence of undefined behaviour. Decides that none of the UB idioms known for this code base is '
                'present at any of their ~200 sites: null char* into std::string, dereference of maybe-null lookups / untested '
                'optional groups, *max_element/front() on possibly empty ranges, unchecked subscripts on caller-owned vectors, '
                'unguarded NDSize/NDArray element access, unguarded front-end index getters, size narrowing to element types, '
                'buffer/count disagreement at I/O primitives, unchecked HDF5 results. Other programs / other idioms are not covered.'
                ' Added: R-VECFILL, R-RAWBUF, R-COLIDX, R-NULL-CSTR, R-STALE, R-ERR-EXISTS.'
                ' Round 6: no library value type keeps a reference to a constructor argument outside the reviewed table (R-REFMEMBER).'
                " Round 7: R-NAMEBUF; memory space is created from the caller's count on every path (R-ROLE)."
                ' Round 8: no element access before the size test the function itself makes (R-BOUNDBELIEF); R-CALIB no-text clause (guards D29).'
                ' Round 9: fixed-rank Hydra containers check the rank of the whole requested shape (R-HYDRA-RANK).',
    },
}

_NYI = 'check not built yet in this session (planned in DESIGN.md); not claimed until its rule runs and is validated'
NOT_APPLICABLE = {p: _NYI for p in ['C%02d' % i for i in range(1, 21)] if p not in CHECKS}
