"""Table behind MANIFEST.json (tools/mkmanifest.py writes the file)."""

CHECKS = {
    'C03': {
        'technique': 'static analysis: dominance-based validate-before-create rule over clang AST/CFG facts (custom checker)',
        'text': 'Decides a structural necessary condition of C03 on every path of every front-end create entry point: the '
                'name (and type) is validated and a same-kind existence test on the same name leads away from the '
                'backend create call (R-VAL). It does not decide lookup/count/order agreement for runtime histories.',
    },
}

_NYI = 'check not built yet in this session (planned in DESIGN.md); not claimed until its rule runs and is validated'
NOT_APPLICABLE = {p: _NYI for p in ['C%02d' % i for i in range(1, 21)] if p not in CHECKS}
