"""Checker validation on scratch copies (thorough tier and development):
every mutant (a breaking edit that still compiles) must be reported, every neutral edit
(behaviour preserving) must leave the check silent.  Edits are (file, old, new) text
replacements anchored on a unique fragment; a fragment that no longer exists in the
current tree makes the edit 'skipped' (never a failure)."""
import json
import os
import shutil
import subprocess
import sys
import tempfile

from .extract import VERIF, REPO

SUBDIRS = ['src', 'include', 'backend/hdf5']
FILES = ['CMakeLists.txt', 'version.h.in']


def make_copy(repo, dst):
    for sd in SUBDIRS:
        shutil.copytree(os.path.join(repo, sd), os.path.join(dst, sd))
    for f in FILES:
        shutil.copy(os.path.join(repo, f), os.path.join(dst, f))


def apply_edit(root, edits):
    """edits: [(relpath, old, new)] -> True if all anchors were found exactly once"""
    for rel, old, new in edits:
        p = os.path.join(root, rel)
        if not os.path.exists(p):
            return False
        s = open(p).read()
        if s.count(old) != 1:
            return False
        open(p, 'w').write(s.replace(old, new))
    return True


def syntax_ok(root, rels):
    """the touched translation units (or a TU including the touched header) still compile"""
    tus = []
    for rel in rels:
        if rel.endswith('.cpp'):
            tus.append(os.path.join(root, rel))
    if not tus or any(not r.endswith('.cpp') for r in rels):
        # headers: compile two broad TUs that include (almost) everything
        tus += [os.path.join(root, 'src/File.cpp'), os.path.join(root, 'backend/hdf5/BlockHDF5.cpp'),
                os.path.join(root, 'src/util/dataAccess.cpp'), os.path.join(root, 'backend/hdf5/DataArrayHDF5.cpp')]
    gen = os.path.join(root, '_gen')
    from .extract import gen_version_header, flags
    inc = gen_version_header(root, gen)
    for tu in tus:
        cmd = ['clang++', '-fsyntax-only'] + [f for f in flags(root, inc) if f not in ('-resource-dir',) and not f.startswith('/usr/lib/llvm')] + [tu]
        r = subprocess.run(cmd, stdout=subprocess.PIPE, stderr=subprocess.STDOUT)
        if r.returncode != 0:
            return False, r.stdout.decode()[-1500:]
    return True, ''


def apply_patch(root, patch):
    r = subprocess.run(['git', 'apply', '--unsafe-paths', '--directory=' + root, os.path.join(VERIF, patch)], cwd='/', stdout=subprocess.PIPE, stderr=subprocess.STDOUT)
    return r.returncode == 0


def run_one(prop, edits, repo=None, want_rc=1, keep=False, check_syntax=True, patch=None):
    """returns dict(status=killed|survived|skipped|silent|alarm|broken|nocompile, out=...)"""
    repo = repo or REPO
    d = tempfile.mkdtemp(prefix='nixmut-')
    try:
        make_copy(repo, d)
        if patch is not None:
            if not apply_patch(d, patch):
                return {'status': 'skipped', 'out': 'patch does not apply to the current tree'}
            check_syntax = False    # stored seeded changes were built and run through the test suite when they were confirmed
        elif not apply_edit(d, edits):
            return {'status': 'skipped', 'out': 'anchor not found in the current tree'}
        if check_syntax:
            ok, msg = syntax_ok(d, [e[0] for e in edits])
            if not ok:
                return {'status': 'nocompile', 'out': msg}
        env = dict(os.environ)
        env['NIX_REPO'] = d
        env['NIX_NO_EVIDENCE'] = '1'
        r = subprocess.run([os.path.join(VERIF, 'check'), prop, '--repo', d, '--tier', 'quick'],
                           stdout=subprocess.PIPE, stderr=subprocess.STDOUT, env=env, cwd=VERIF)
        out = r.stdout.decode()
        if want_rc == 1:
            st = 'killed' if r.returncode == 1 else ('broken' if r.returncode == 2 else 'survived')
        else:
            st = 'silent' if r.returncode == 0 else ('broken' if r.returncode == 2 else 'alarm')
        return {'status': st, 'rc': r.returncode, 'out': out}
    finally:
        # remove the scratch copy and its cached facts
        shutil.rmtree(d, ignore_errors=True)
        import hashlib
        pre = 'x' + hashlib.sha256(d.encode()).hexdigest()[:6]
        cache = os.path.join(VERIF, '.cache')
        if os.path.isdir(cache):
            for e in os.listdir(cache):
                if e.startswith(pre):
                    shutil.rmtree(os.path.join(cache, e), ignore_errors=True)


def load_table(prop):
    p = os.path.join(VERIF, 'mutants', prop + '.json')
    if not os.path.exists(p):
        return {'mutants': [], 'neutral': []}
    return json.load(open(p))


def main():
    import argparse
    from concurrent.futures import ThreadPoolExecutor
    ap = argparse.ArgumentParser()
    ap.add_argument('prop')
    ap.add_argument('--only')
    ap.add_argument('-v', action='store_true')
    a = ap.parse_args()
    tab = load_table(a.prop)
    jobs = []
    for m in tab['mutants']:
        if a.only and a.only != m['id']:
            continue
        jobs.append(('mutant', m))
    for m in tab['neutral']:
        if a.only and a.only != m['id']:
            continue
        jobs.append(('neutral', m))

    def work(j):
        kind, m = j
        edits = [(e['file'], e['old'], e['new']) for e in m.get('edits', [])]
        return kind, m, run_one(a.prop, edits, want_rc=1 if kind == 'mutant' else 0, patch=m.get('patch'))
    bad = 0
    with ThreadPoolExecutor(max_workers=4) as ex:
        for kind, m, r in ex.map(work, jobs):
            mark = r['status']
            named = ''
            if kind == 'mutant' and mark == 'killed' and m.get('expect'):
                named = ' names-instance=%s' % (m['expect'] in r['out'])
                if m['expect'] not in r['out']:
                    bad += 1
            print('%-8s %-40s %s%s' % (kind, m['id'], mark, named))
            if mark in ('survived', 'alarm', 'broken', 'nocompile'):
                bad += 1
                if a.v or True:
                    print('    ' + '\n    '.join(r['out'].strip().splitlines()[-6:]))
            elif a.v:
                print('    ' + '\n    '.join(r['out'].strip().splitlines()[-4:]))
    return 1 if bad else 0


if __name__ == '__main__':
    sys.exit(main())
