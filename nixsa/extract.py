"""Run the nixfacts extractor over the library translation units of /repo and
cache the merged result, keyed by the content of the current working tree."""
import fcntl
import glob
import hashlib
import json
import os
import re
import shutil
import subprocess
import sys
import time

VERIF = os.path.dirname(os.path.dirname(os.path.abspath(__file__)))
REPO = os.environ.get('NIX_REPO', '/repo')
CACHE = os.path.join(VERIF, '.cache')
TOOL = os.path.join(VERIF, 'tools', 'nixfacts')
TOOL_SRC = os.path.join(VERIF, 'tools', 'nixfacts.cc')
WITNESS = os.path.join(VERIF, 'tools', 'inst', 'instantiate.cpp')
RESOURCE_DIR = '/usr/lib/llvm-14/lib/clang/14.0.6'


class AnalysisBroken(Exception):
    """The analysis cannot run or cannot conclude (exit code 2)."""


def source_roots(repo):
    return [os.path.join(repo, 'src'), os.path.join(repo, 'include'), os.path.join(repo, 'backend', 'hdf5')]


def library_tus(repo):
    tus = sorted(glob.glob(os.path.join(repo, 'src', '**', '*.cpp'), recursive=True) +
                 glob.glob(os.path.join(repo, 'backend', 'hdf5', '**', '*.cpp'), recursive=True))
    return tus


def tracked_inputs(repo):
    files = []
    for root in source_roots(repo):
        for dp, dn, fn in os.walk(root):
            for f in fn:
                if f.endswith(('.cpp', '.hpp', '.h', '.in')):
                    files.append(os.path.join(dp, f))
    files += [os.path.join(repo, 'CMakeLists.txt'), os.path.join(repo, 'version.h.in')]
    return sorted(files)


def flags(repo, gen_inc):
    return ['-w', '-std=c++11', '-DH5_USE_110_API=1', '-DNDEBUG',
            '-I' + os.path.join(repo, 'include'), '-I' + os.path.join(repo, 'backend'),
            '-I/usr/include/hdf5/serial', '-I' + gen_inc, '-resource-dir', RESOURCE_DIR]


def tree_key(repo):
    h = hashlib.sha256()
    for f in tracked_inputs(repo):
        h.update(os.path.relpath(f, repo).encode() + b'\0')
        try:
            with open(f, 'rb') as fh:
                h.update(fh.read())
        except OSError:
            h.update(b'<missing>')
        h.update(b'\0')
    for f in (TOOL_SRC, WITNESS):
        if os.path.exists(f):
            with open(f, 'rb') as fh:
                h.update(fh.read())
    h.update(' '.join(flags('R', 'G')).encode())
    return h.hexdigest()[:24]


def gen_version_header(repo, outdir):
    """configure_file(version.h.in) from the VERSION_* values in CMakeLists.txt."""
    cm = open(os.path.join(repo, 'CMakeLists.txt')).read()
    vals = {}
    for k in ('VERSION_MAJOR', 'VERSION_MINOR', 'VERSION_PATCH'):
        m = re.search(r'set\(\s*%s\s+(\d+)\s*\)' % k, cm)
        if not m:
            raise AnalysisBroken('cannot find %s in CMakeLists.txt' % k)
        vals[k] = m.group(1)
    txt = open(os.path.join(repo, 'version.h.in')).read()
    for k, v in vals.items():
        txt = txt.replace('@%s@' % k, v)
    d = os.path.join(outdir, 'include', 'nix')
    os.makedirs(d, exist_ok=True)
    with open(os.path.join(d, 'nixversion.hpp'), 'w') as f:
        f.write(txt)
    return os.path.join(outdir, 'include')


def ensure_tool():
    if os.path.exists(TOOL) and os.path.getmtime(TOOL) >= os.path.getmtime(TOOL_SRC):
        return
    cxxflags = subprocess.check_output(['llvm-config-14', '--cxxflags']).decode().split()
    cmd = ['clang++'] + cxxflags + ['-fno-rtti', '-O1', TOOL_SRC, '-o', TOOL + '.tmp',
                                    '/usr/lib/llvm-14/lib/libclang-cpp.so.14', '/usr/lib/llvm-14/lib/libLLVM-14.so']
    r = subprocess.run(cmd, stdout=subprocess.PIPE, stderr=subprocess.STDOUT)
    if r.returncode != 0:
        raise AnalysisBroken('cannot build nixfacts:\n' + r.stdout.decode()[-3000:])
    os.replace(TOOL + '.tmp', TOOL)


def _prune(keep):
    try:
        ents = [os.path.join(CACHE, e) for e in os.listdir(CACHE) if os.path.isdir(os.path.join(CACHE, e))]
    except OSError:
        return
    ents.sort(key=lambda p: os.path.getmtime(p), reverse=True)
    for p in ents[4:]:
        if os.path.basename(p) != keep:
            shutil.rmtree(p, ignore_errors=True)


def extract(repo=None, verbose=True, jobs=16):
    """Returns the directory holding part-*.json for the current tree."""
    repo = repo or REPO
    os.makedirs(CACHE, exist_ok=True)
    key = tree_key(repo)
    if repo != '/repo':
        key = 'x' + hashlib.sha256(repo.encode()).hexdigest()[:6] + key
    outdir = os.path.join(CACHE, key)
    done = os.path.join(outdir, 'DONE')
    if os.path.exists(done):
        os.utime(outdir)
        return outdir
    lockf = open(os.path.join(CACHE, 'lock'), 'w')
    fcntl.flock(lockf, fcntl.LOCK_EX)
    try:
        if os.path.exists(done):
            return outdir
        t0 = time.time()
        ensure_tool()
        if os.path.exists(outdir):
            shutil.rmtree(outdir)
        os.makedirs(outdir)
        gen_inc = gen_version_header(repo, outdir)
        tus = library_tus(repo)
        if len(tus) < 40:
            raise AnalysisBroken('only %d library translation units found under %s' % (len(tus), repo))
        units = list(tus)
        if os.path.exists(WITNESS):
            units.append(WITNESS)
        # balance: biggest first, round robin
        units.sort(key=lambda p: -os.path.getsize(p))
        groups = [[] for _ in range(jobs)]
        for i, u in enumerate(units):
            groups[i % jobs].append(u)
        groups = [g for g in groups if g]
        roots = ':'.join(source_roots(repo))
        procs = []
        for gi, g in enumerate(groups):
            out = os.path.join(outdir, 'part-%02d.json' % gi)
            cmd = [TOOL, out, roots] + g + ['--'] + flags(repo, gen_inc)
            procs.append((g, subprocess.Popen(cmd, stdout=subprocess.PIPE, stderr=subprocess.PIPE)))
        failed = []
        for g, p in procs:
            so, se = p.communicate()
            if p.returncode != 0:
                failed.append((g, se.decode(errors='replace')[-4000:]))
        if failed:
            msg = '\n'.join('units %s:\n%s' % (', '.join(g), e) for g, e in failed)
            shutil.rmtree(outdir, ignore_errors=True)
            raise AnalysisBroken('extractor failed (the tree does not parse?):\n' + msg)
        with open(os.path.join(outdir, 'meta.json'), 'w') as f:
            json.dump({'repo': repo, 'tus': tus, 'witness': os.path.exists(WITNESS), 'key': key,
                       'extract_s': round(time.time() - t0, 2)}, f)
        open(done, 'w').close()
        if verbose:
            print('[extract] %d units in %.1fs -> %s' % (len(units), time.time() - t0, outdir), file=sys.stderr)
        _prune(key)
        return outdir
    finally:
        fcntl.flock(lockf, fcntl.LOCK_UN)
        lockf.close()


if __name__ == '__main__':
    print(extract(sys.argv[1] if len(sys.argv) > 1 else None))
