"""Value terms, guard facts (A2), guard normalisation (A3), validator summaries."""
from .facts import _decay

LOCAL_KINDS = ('param', 'local', 'staticlocal')


def split_sig(sig):
    """'(const std::string &, std::vector<int, x> &) const' -> ['const std::string &', ...]"""
    s = sig.strip()
    if s.endswith(' const'):
        s = s[:-6]
    s = s.strip()[1:-1]
    out = []
    depth = 0
    cur = ''
    for ch in s:
        if ch in '<([':
            depth += 1
        elif ch in '>)]':
            depth -= 1
        if ch == ',' and depth == 0:
            out.append(cur.strip())
            cur = ''
        else:
            cur += ch
    if cur.strip():
        out.append(cur.strip())
    return out


def real_args(n):
    """argument nodes of a call/construct (member call: without the object)"""
    if n.k == 'call' and (n.get('member')):
        return n.c[1:]
    if n.k == 'call' and n.get('indirect'):
        return n.c[1:]
    return n.c


def is_copy_construct(n):
    if n.k != 'construct':
        return False
    args = [x for x in n.c if x is not None and x.k != 'defarg']
    if len(args) != 1:
        return False
    a = args[0]
    if a.t is not None and n.t is not None and _decay(a.t) == _decay(n.t):
        return True
    cal = n.callee or {}
    ps = split_sig(cal.get('sig', '()'))
    if len(ps) == 1 and cal.get('name'):
        pt = ps[0]
        if pt.endswith('&&') or (pt.startswith('const ') and pt.endswith('&')):
            base = _decay(pt.rstrip('&').strip())
            base = base.split('<')[0]
            cls = (cal.get('cls') or '').split('<')[0]
            if base == cls or base.split('::')[-1] == cal.get('name'):
                return True
    return False


def unwrap(n):
    """look through copies, default-arg wrappers, bool conversions of scalars"""
    while n is not None:
        if n.k == 'defarg' and n.c:
            n = n.c[0]
            continue
        if is_copy_construct(n):
            n = [x for x in n.c if x is not None and x.k != 'defarg'][0]
            continue
        if n.k == 'construct' and ((n.callee or {}).get('cls') or '').startswith('std::basic_string'):
            # std::string built from one value (const char*, literal, other string): same value
            args = [x for x in n.c if x is not None and x.k != 'defarg']
            if len(args) == 1:
                n = args[0]
                continue
        break
    return n


def term(n):
    """canonical, hashable representation of the value an expression denotes"""
    if n is None:
        return ('none',)
    n = unwrap(n)
    k = n.k
    a = n.a
    if k == 'ref':
        d = a['decl']
        kind = d.get('kind')
        if kind in LOCAL_KINDS:
            return ('v', d.get('lid'), d.get('name'))
        if kind == 'enumconst':
            return ('e', d.get('q'))
        if kind in ('func', 'method'):
            return ('fn', d.get('q'))
        return ('g', d.get('q'))
    if k == 'member':
        b = term(n.c[0]) if n.c and n.c[0] is not None else ('this',)
        nm = a['decl'].get('name')
        if b == ('this',):
            return ('f', nm)
        return ('mem', nm, b)
    if k == 'this':
        return ('this',)
    if k in ('int', 'float', 'bool', 'char', 'str'):
        if a.get('macro'):
            return ('k', a.get('v'), a.get('macro'))
        return ('k', a.get('v'))
    if k == 'nullptr':
        return ('k', None)
    if k == 'call':
        cal = a.get('callee') or {}
        if a.get('op'):
            return ('op', a['op']) + tuple(term(x) for x in n.c)
        if a.get('member'):
            return ('m', cal.get('name'), term(n.c[0])) + tuple(term(x) for x in n.c[1:] if x is not None and x.k != 'defarg')
        if a.get('indirect'):
            return ('ic',) + tuple(term(x) for x in n.c)
        q = cal.get('q')
        ta = cal.get('targs')
        if ta and ta[0][:1].isdigit():
            # non-type template arguments select different values (std::get<0> vs std::get<1>)
            q = '%s<%s>' % (q, ','.join(x.rstrip('ULul') for x in ta if x[:1].isdigit()))
        return ('c', q) + tuple(term(x) for x in n.c if x is not None and x.k != 'defarg')
    if k == 'construct':
        cal = a.get('callee') or {}
        return ('new', cal.get('cls')) + tuple(term(x) for x in n.c if x is not None and x.k != 'defarg')
    if k in ('binop', 'assign'):
        return ('b', a.get('op'), term(n.c[0]), term(n.c[1]))
    if k == 'unop':
        return ('u', a.get('op'), term(n.c[0]))
    if k == 'cond':
        return ('?', term(n.c[0]), term(n.c[1]), term(n.c[2]))
    if k == 'cast':
        return ('cast', a.get('toc'), term(n.c[0]))
    if k == 'subscript':
        return ('idx', term(n.c[0]), term(n.c[1]))
    if k in ('initlist', 'stdinitlist'):
        return ('list',) + tuple(term(x) for x in n.c)
    if k == 'sizeof':
        return ('sizeof', a.get('arg') or (term(n.c[0]) if n.c else None))
    if k == 'lambda':
        return ('lambda', n.id)
    return ('?' + k, n.id)


def term_vars(t, out=None):
    """lids of the locals/params mentioned by a term"""
    if out is None:
        out = set()
    if isinstance(t, tuple):
        if len(t) >= 2 and t[0] == 'v':
            out.add(t[1])
        else:
            for x in t:
                term_vars(x, out)
    return out


def subst(t, env):
    """replace ('v', lid, ..) by env[lid]; ('this',) by env['this']; fields of callee's this
    by members of the object"""
    if not isinstance(t, tuple):
        return t
    if len(t) >= 2 and t[0] == 'v':
        return env.get(t[1], ('unbound', t[1]))
    if t == ('this',):
        return env.get('this', ('this?',))
    if t[0] == 'f' and 'this' in env and env['this'] != ('this',):
        return ('mem', t[1], env['this'])
    return tuple(subst(x, env) for x in t)


def has_unbound(t):
    if isinstance(t, tuple):
        if t and t[0] in ('unbound', 'this?'):
            return True
        return any(has_unbound(x) for x in t)
    return False


def decompose(n, pol, out, resolve=None):
    """split a branch condition into atomic (node, polarity) facts; resolve(ref_node)
    may return the initialiser of a never-modified local (copy propagation, B.6)"""
    n = unwrap(n)
    if n is None:
        return
    if resolve is not None and n.k == 'ref':
        r = resolve(n)
        if r is not None:
            decompose(r, pol, out, resolve)
            return
    if n.k == 'binop' and n.get('op') == '&&':
        if pol:
            decompose(n.c[0], True, out, resolve)
            decompose(n.c[1], True, out, resolve)
        else:
            out.append((n, pol))
        return
    if n.k == 'binop' and n.get('op') == '||':
        if not pol:
            decompose(n.c[0], False, out, resolve)
            decompose(n.c[1], False, out, resolve)
        else:
            out.append((n, pol))
        return
    if n.k == 'unop' and n.get('op') == '!':
        decompose(n.c[0], not pol, out, resolve)
        return
    if n.k == 'call' and n.get('op') == '!' and len(n.c) == 1:
        decompose(n.c[0], not pol, out, resolve)
        return
    if n.k == 'call' and n.get('member') and (n.callee or {}).get('kind') == 'conv' and (n.callee or {}).get('ret') == 'bool':
        # explicit operator bool: truthiness of the object itself
        out.append((n, pol))
        return
    out.append((n, pol))


class Sem(object):
    """per-program semantic helper with caches"""

    def __init__(self, prog):
        self.prog = prog
        self._exit = {}
        self._mods = {}

    # ---------------------------------------------------------- modifications
    def mods(self, fn):
        """lid -> [node] where the local/param is (possibly) modified"""
        if fn.usr in self._mods:
            return self._mods[fn.usr]
        m = {}

        def add(x, at):
            x = unwrap(x)
            while x is not None and x.k in ('subscript', 'member') and x.c:
                x = unwrap(x.c[0])
            if x is not None and x.k == 'call' and x.get('op') == '[]' and x.c:
                x = unwrap(x.c[0])
            if x is not None and x.k == 'ref' and x.decl.get('kind') in LOCAL_KINDS:
                m.setdefault(x.decl.get('lid'), []).append(at)

        for n in fn.walk():
            if n.k == 'assign':
                add(n.c[0], n)
            elif n.k == 'unop' and n.get('op') in ('++', '--'):
                add(n.c[0], n)
            elif n.k == 'unop' and n.get('op') == '&':
                add(n.c[0], n)
            elif n.k in ('call', 'construct') and n.callee:
                cal = n.callee
                if n.get('op') and n.k == 'call':
                    op = n.get('op')
                    if op in ('=', '+=', '-=', '*=', '/=', '++', '--', '<<=', '>>=', '|=', '&='):
                        add(n.c[0], n)
                    if op == '>>' and len(n.c) == 2:
                        add(n.c[1], n)
                    continue
                if n.k == 'call' and n.get('member'):
                    if not cal.get('sig', '').endswith(' const') and cal.get('kind') != 'conv' and \
                            cal.get('name') not in ('begin', 'end', 'rbegin', 'rend', 'data', 'front', 'back', 'at', 'get', 'find', 'lower_bound', 'upper_bound'):
                        add(n.c[0], n)
                ptypes = split_sig(cal.get('sig', '()'))
                if cal.get('q') in ('std::make_shared', 'std::allocate_shared'):
                    # perfect forwarding: the effective parameter types are the constructor's
                    tg = [t for t in self.prog.resolve_call(n) if t.kind == 'ctor']
                    if len(tg) >= 1:
                        sigs = [split_sig(t.sig) for t in tg]
                        ptypes = sigs[0] if all(x == sigs[0] for x in sigs) else \
                            [('const X &' if all(len(x) > i and (x[i].startswith('const ') or not x[i].endswith('&')) for x in sigs) else 'X &')
                             for i in range(max(len(x) for x in sigs))]
                if cal.get('q') in ('std::move', 'std::forward', 'std::get', 'std::begin', 'std::end', 'std::make_tuple', 'std::make_pair',
                                    'boost::make_optional', 'std::min', 'std::max') or \
                        cal.get('name') in ('emplace_back', 'emplace_front', 'emplace'):
                    # accessors / perfect-forwarding constructors: arguments are read, not written
                    ptypes = []
                for i, arg in enumerate(real_args(n)):
                    if arg is None:
                        continue
                    if i < len(ptypes):
                        pt = ptypes[i]
                        if (pt.endswith('&') and not pt.endswith('&&') and not pt.startswith('const ')) or \
                                (pt.endswith('*') and not pt.startswith('const ')):
                            add(arg, n)
        self._mods[fn.usr] = m
        return m

    def modified_between(self, fn, lid, cond_id, use_id):
        """may the variable be modified after the guard was evaluated and before the use?"""
        ms = self.mods(fn).get(lid)
        if not ms:
            return False
        cfg = fn.cfg
        if cfg is None:
            return True
        pc = cfg.pos.get(cond_id)
        pu = cfg.pos.get(use_id)
        if pc is None or pu is None:
            return True
        for m in ms:
            pm = cfg.pos.get(m.id)
            if pm is None:
                # find an enclosing node that is listed
                x = m
                while x is not None and cfg.pos.get(x.id) is None:
                    x = x.p
                pm = cfg.pos.get(x.id) if x is not None else None
                if pm is None:
                    return True
            if pm == pu or m.id == use_id:
                continue
            # m between: cond reaches m and m reaches use
            if pm[0] == pc[0] and pm[1] <= pc[1]:
                if not cfg.reaches(pc[0], pc[0], avoid=()) or True:
                    # same block before the guard: only relevant inside loops
                    if not self._in_cycle(cfg, pc[0]):
                        continue
            if pm[0] == pu[0] and pm[1] > pu[1] and not self._in_cycle(cfg, pu[0]):
                continue
            # a path guard -> modification -> use that does not re-evaluate the guard in between
            if pm[0] == pc[0]:
                if pm[1] > pc[1] and (pu[0] != pc[0] or pu[1] > pm[1] or self._in_cycle(cfg, pc[0])):
                    return True
                continue
            avoid = {pc[0]}
            from_guard = any(s is not None and (s == pm[0] or cfg.reaches(s, pm[0], avoid=avoid)) for s in cfg.blocks[pc[0]].succ)
            to_use = pm[0] == pu[0] or cfg.reaches(pm[0], pu[0], avoid=avoid)
            if pm[0] == pu[0] and pm[1] > pu[1]:
                # later in the same block: only reaches the use through a cycle that avoids the guard
                to_use = any(s is not None and cfg.reaches(s, pu[0], avoid=avoid) for s in cfg.blocks[pm[0]].succ)
            if from_guard and to_use:
                return True
        return False

    def _reaches(self, cfg, a, b):
        if a == b:
            return True
        return cfg.reaches(a, b)

    def _in_cycle(self, cfg, b):
        for s in cfg.blocks[b].succ:
            if s is not None and cfg.reaches(s, b):
                return True
        return False

    def local_vars(self, fn):
        key = ('vars', fn.usr)
        if key not in self._mods:
            self._mods[key] = {n.get('lid'): n for n in fn.walk() if n.k == 'var'}
        return self._mods[key]

    def resolver(self, fn):
        """ref node -> initialiser node when the local is initialised once and never modified"""
        vars_ = self.local_vars(fn)
        mods = self.mods(fn)

        def resolve(ref):
            d = ref.decl
            if d.get('kind') != 'local':
                return None
            lid = d.get('lid')
            v = vars_.get(lid)
            if v is None or not v.c or v.c[0] is None or mods.get(lid):
                return None
            t = (v.get('type') or '')
            if t.replace('const ', '').strip() not in ('bool', 'auto', 'const bool'):
                return None
            return v.c[0]
        return resolve

    # ---------------------------------------------------------- facts
    def facts_at(self, fn, node_id, depth=0):
        return close_facts(self._facts_at(fn, node_id, depth))

    def _facts_at(self, fn, node_id, depth=0):
        """set of (term, polarity) known to hold whenever node is evaluated:
        dominating branch edges + summaries of dominating validator calls"""
        cfg = fn.cfg
        if cfg is None:
            return set()
        pos = cfg.pos.get(node_id)
        if pos is None:
            # break / continue / return-without-value are block terminators, not elements
            for B in cfg.blocks.values():
                if B.term == node_id and B.id in cfg.reachable():
                    return self._facts_at_pos(fn, (B.id, len(B.elems)), None, depth)
        if pos is None:
            # climb to the closest listed ancestor
            n = fn.nodes.get(node_id)
            while n is not None and cfg.pos.get(n.id) is None:
                n = n.p
            if n is None:
                return set()
            node_id = n.id
            pos = cfg.pos[node_id]
        return self._facts_at_pos(fn, pos, node_id, depth)

    def _facts_at_pos(self, fn, pos, use_id, depth):
        cfg = fn.cfg
        out = set()
        atoms = []
        for cid, pol in cfg.guards_at_block(pos[0]):
            cn = fn.nodes.get(cid)
            if cn is None:
                continue
            tmp = []
            decompose(cn, pol, tmp, self.resolver(fn))
            for (an, ap) in tmp:
                atoms.append((an, ap, cid))
        for an, ap, cid in atoms:
            t = term(an)
            dead = False
            if use_id is not None:
                for lid in term_vars(t):
                    if self.modified_between(fn, lid, cid, use_id):
                        dead = True
                        break
            if not dead:
                out.add((t, ap))
        # structural facts: the use sits inside the then/else branch of an if (or a loop body / ternary arm);
        # this also covers conditions CFG edge-dominance cannot attribute (a || b taken as a whole)
        if use_id is not None:
            un = fn.nodes.get(use_id)
            child = un
            anc = un.p if un is not None else None
            while anc is not None:
                cn = None
                pol = None
                if anc.k == 'if' and len(anc.c) >= 5:
                    if child is anc.c[3]:
                        cn, pol = anc.c[2], True
                    elif child is anc.c[4]:
                        cn, pol = anc.c[2], False
                elif anc.k == 'cond' and len(anc.c) == 3:
                    if child is anc.c[1]:
                        cn, pol = anc.c[0], True
                    elif child is anc.c[2]:
                        cn, pol = anc.c[0], False
                if cn is not None:
                    cid = None
                    for y in cn.walk():
                        if cfg.pos.get(y.id) is not None:
                            cid = y.id
                    tmp = []
                    decompose(cn, pol, tmp, self.resolver(fn))
                    for (an, ap) in tmp:
                        t = term(an)
                        dead = cid is None
                        if not dead:
                            for lid in term_vars(t):
                                if self.modified_between(fn, lid, cid, use_id):
                                    dead = True
                                    break
                        if not dead:
                            out.add((t, ap))
                if anc.k == 'compound':
                    # earlier sibling 'if (C) <leaves>;' without else: C is false from there on
                    from .tables import _ends
                    for sib in anc.c:
                        if sib is child:
                            break
                        if sib is not None and sib.k == 'if' and len(sib.c) >= 5 and sib.c[4] is None and sib.c[3] is not None and \
                                _ends([sib.c[3]]) and not any(x.k in ('break', 'continue') for x in sib.c[3].walk()):
                            cn = sib.c[2]
                            cid = None
                            for y in cn.walk():
                                if cfg.pos.get(y.id) is not None:
                                    cid = y.id
                            tmp = []
                            decompose(cn, False, tmp, self.resolver(fn))
                            for (an, ap) in tmp:
                                t = term(an)
                                dead = cid is None
                                if not dead:
                                    for lid in term_vars(t):
                                        if self.modified_between(fn, lid, cid, use_id):
                                            dead = True
                                            break
                                if not dead:
                                    out.add((t, ap))
                child = anc
                anc = anc.p
        # validator calls that dominate the position
        if depth < 4:
            dom = cfg.dominators()
            for n in fn.walk():
                if n.k != 'call' or not n.callee:
                    continue
                p = cfg.pos.get(n.id)
                if p is None:
                    continue
                if p[0] == pos[0]:
                    if p[1] >= pos[1]:
                        continue
                elif not (pos[0] in dom and p[0] in dom[pos[0]]):
                    continue
                for g in self.prog.resolve_call(n)[:1]:
                    ef = self.exit_facts(g, depth + 1)
                    if not ef:
                        continue
                    env = {}
                    args = real_args(n)
                    for i, prm in enumerate(g.params):
                        if i < len(args) and args[i] is not None:
                            env[prm['lid']] = term(args[i])
                    if n.get('member') and n.c and n.c[0] is not None:
                        env['this'] = term(n.c[0])
                    for (t, pl) in ef:
                        s = subst(t, env)
                        if has_unbound(s):
                            continue
                        dead = False
                        if use_id is not None:
                            for lid in term_vars(s):
                                if self.modified_between(fn, lid, n.id, use_id):
                                    dead = True
                                    break
                        if not dead:
                            out.add((s, pl))
        return out

    def exit_facts(self, g, depth=0):
        """facts that hold on every normal return of g (validator summary)"""
        if g.usr in self._exit:
            return self._exit[g.usr]
        self._exit[g.usr] = set()  # recursion guard
        cfg = g.cfg
        res = None
        if cfg is not None and g.body is not None:
            ex = cfg.blocks[cfg.exit]
            reach = cfg.reachable()
            for pb in set(ex.pred):
                if pb not in reach:
                    continue
                B = cfg.blocks[pb]
                last = g.nodes.get(B.elems[-1]) if B.elems else None
                if B.noreturn:
                    continue
                if last is not None and last.k == 'throw':
                    continue
                if any(g.nodes.get(e) is not None and g.nodes[e].k == 'throw' for e in B.elems):
                    continue
                f = self._facts_at_pos(g, (pb, len(B.elems)), None, depth)
                # the edge into the exit block itself
                if B.cond is not None and len(B.succ) == 2 and B.succ[0] != B.succ[1] and B.termk != 'SwitchStmt':
                    cn = g.nodes.get(B.cond)
                    if cn is not None:
                        tmp = []
                        decompose(cn, B.succ[0] == cfg.exit, tmp)
                        for (an, ap) in tmp:
                            f.add((term(an), ap))
                # a validator that returns a verdict (bool) instead of throwing gives no must-facts
                res = f if res is None else (res & f)
        res = res or set()
        # keep only facts over parameters / this
        plids = set(p['lid'] for p in g.params)
        keep = set()
        for (t, pl) in res:
            vs = term_vars(t)
            if vs <= plids:
                keep.add((t, pl))
        self._exit[g.usr] = keep
        return keep


# ------------------------------------------------------------------ predicates over facts
def is_var(t):
    return isinstance(t, tuple) and t and t[0] == 'v'


def fact_nonempty(facts, v):
    """v.empty() is known false / v.size() > 0 / v != "" """
    for (t, pol) in facts:
        if t[:3] == ('m', 'empty', v) and pol is False:
            return True
        if t[0] == 'b' and pol:
            op, l, r = t[1], t[2], t[3]
            if l[:3] in (('m', 'size', v), ('m', 'length', v)) and ((op == '>' and r == ('k', 0)) or (op == '!=' and r == ('k', 0)) or (op == '>=' and r == ('k', 1))):
                return True
        if t[0] == 'b' and not pol:
            op, l, r = t[1], t[2], t[3]
            if l[:3] in (('m', 'size', v), ('m', 'length', v)) and ((op == '==' and r == ('k', 0)) or (op == '<' and r == ('k', 1))):
                return True
        if t[0] == 'op' and t[1] == '==' and not pol and len(t) == 4 and ((t[2] == v and t[3] == ('k', '')) or (t[3] == v and t[2] == ('k', ''))):
            return True
    return False


def fact_noslash(facts, v):
    for (t, pol) in facts:
        if t == ('c', 'nix::util::nameCheck', v) and pol:
            return True
        if t[0] == 'b' and len(t) == 4:
            op, l, r = t[1], t[2], t[3]
            find = l[:3] == ('m', 'find', v) and len(l) >= 4 and l[3] in (('k', '/'), ('k', 47))
            npos = isinstance(r, tuple) and r and r[0] in ('g', 'mem') and 'npos' in str(r)
            if find and npos and ((op == '==' and pol) or (op == '!=' and not pol)):
                return True
    return False


# ------------------------------------------------------------------ flow-insensitive def-use (A4, may-derive)
class Flow(object):
    """definitions of locals and what an expression may be computed from"""

    def __init__(self, sem, fn):
        self.sem = sem
        self.fn = fn
        self.defs = {}      # lid -> [('expr', node) | ('out', call node, arg index) | ('elem', node)]
        self.params = {p['lid']: p for p in fn.params}
        for n in fn.walk():
            if n.k == 'var':
                if n.c and n.c[0] is not None:
                    self.defs.setdefault(n.get('lid'), []).append(('expr', n.c[0]))
            elif n.k == 'assign' or (n.k == 'call' and n.get('op') in ('=', '+=', '-=', '*=', '/=')):
                tgt = unwrap(n.c[0])
                base = tgt
                elem = False
                while base is not None and (base.k in ('subscript', 'member') or (base.k == 'call' and base.get('op') == '[]')):
                    elem = True
                    base = unwrap(base.c[0])
                if base is not None and base.k == 'ref' and base.decl.get('kind') in LOCAL_KINDS:
                    self.defs.setdefault(base.decl.get('lid'), []).append(('elem' if elem else 'expr', n.c[1], n))
            elif n.k in ('call', 'construct') and n.callee:
                cal = n.callee
                ptypes = split_sig(cal.get('sig', '()'))
                for i, arg in enumerate(real_args(n)):
                    if arg is None or i >= len(ptypes):
                        continue
                    pt = ptypes[i]
                    if pt.endswith('&') and not pt.endswith('&&') and not pt.startswith('const '):
                        a = unwrap(arg)
                        if a.k == 'ref' and a.decl.get('kind') in LOCAL_KINDS:
                            self.defs.setdefault(a.decl.get('lid'), []).append(('out', n, i))
                if n.k == 'call' and n.get('member') and n.c and cal.get('name') in ('push_back', 'emplace_back', 'insert', 'assign', 'resize'):
                    o = unwrap(n.c[0])
                    if o.k == 'ref' and o.decl.get('kind') in LOCAL_KINDS:
                        for a in n.c[1:]:
                            if a is not None:
                                self.defs.setdefault(o.decl.get('lid'), []).append(('elem', a))

    def origins(self, node, seen=None, depth=0):
        """set of leaves an expression may be computed from:
        ('param', name) ('call', name, node) ('lit', v) ('field', name) ('global', q) ('enum', q)"""
        if seen is None:
            seen = set()
        out = set()
        if node is None:
            return out
        for n in node.walk():
            if n.k == 'ref':
                d = n.decl
                kind = d.get('kind')
                if kind == 'param':
                    if d.get('lid') in self.params:
                        out.add(('param', d.get('name')))
                    else:
                        out.add(('lambdaparam', d.get('name')))
                    # a by-reference parameter may also be (re)defined inside
                    self._local(d.get('lid'), seen, out, depth)
                elif kind in ('local', 'staticlocal'):
                    self._local(d.get('lid'), seen, out, depth)
                elif kind == 'enumconst':
                    out.add(('enum', d.get('q')))
                elif kind == 'global':
                    out.add(('global', d.get('q')))
            elif n.k == 'member' and (not n.c or n.c[0] is None or unwrap(n.c[0]).k == 'this'):
                out.add(('field', n.decl.get('name')))
            elif n.k in ('int', 'float', 'str', 'bool'):
                out.add(('lit', n.get('v')))
            elif n.k == 'call' and n.callee:
                out.add(('call', n.callee.get('name'), n))
        return out

    def _local(self, lid, seen, out, depth):
        if lid in seen or depth > 12:
            return
        seen.add(lid)
        for d in self.defs.get(lid, []):
            if d[0] in ('expr', 'elem'):
                out |= self.origins(d[1], seen, depth + 1)
                if len(d) > 2 and d[2] is not None:
                    # control dependence: the conditions under which the assignment happens
                    for anc in d[2].ancestors():
                        if anc.k == 'if' and anc.c[2] is not None:
                            out |= self.origins(anc.c[2], seen, depth + 1)
                        elif anc.k in ('while', 'for') and anc.c[0 if anc.k == 'while' else 1] is not None:
                            out |= self.origins(anc.c[0 if anc.k == 'while' else 1], seen, depth + 1)
            else:
                call = d[1]
                out.add(('out', call.callee.get('name'), call, d[2]))
                # an out-parameter is computed from the call's other arguments
                for j, a in enumerate(real_args(call)):
                    if j != d[2] and a is not None:
                        out |= self.origins(a, seen, depth + 1)

    def call_names(self, node):
        return set(o[1] for o in self.origins(node) if o[0] in ('call', 'out'))


def _term_atoms(t, pol, out):
    """term-level decomposition of a condition known to have the given truth value"""
    if isinstance(t, tuple) and t:
        if t[0] == 'u' and t[1] == '!':
            _term_atoms(t[2], not pol, out)
            return
        if t[0] == 'op' and t[1] == '!' and len(t) == 3:
            _term_atoms(t[2], not pol, out)
            return
        if t[0] == 'b' and t[1] == '&&' and pol:
            _term_atoms(t[2], True, out)
            _term_atoms(t[3], True, out)
            return
        if t[0] == 'b' and t[1] == '||' and not pol:
            _term_atoms(t[2], False, out)
            _term_atoms(t[3], False, out)
            return
    out.add((t, pol))


def close_facts(facts):
    """propositional closure: unit resolution on kept composites ((A && B) false with A true => B false;
    (A || B) true with A false => B true) and the size()/empty() equivalence"""
    facts = set(facts)
    changed = True
    rounds = 0
    while changed and rounds < 4:
        changed = False
        rounds += 1
        new = set()
        for (t, pol) in facts:
            if not (isinstance(t, tuple) and t):
                continue
            if t[0] == 'b' and t[1] == '&&' and pol is False:
                a, b = set(), set()
                _term_atoms(t[2], True, a)
                _term_atoms(t[3], True, b)
                if a and a <= facts:
                    _term_atoms(t[3], False, new)
                if b and b <= facts:
                    _term_atoms(t[2], False, new)
            elif t[0] == 'b' and t[1] == '||' and pol is True:
                a, b = set(), set()
                _term_atoms(t[2], False, a)
                _term_atoms(t[3], False, b)
                if a and a <= facts:
                    _term_atoms(t[3], True, new)
                if b and b <= facts:
                    _term_atoms(t[2], True, new)
            elif t[0] == 'b' and len(t) == 4 and t[2][:2] in (('m', 'size'), ('m', 'length')) and len(t[2]) == 3:
                v = t[2][2]
                op, r = t[1], t[3]
                nonempty = None
                if r == ('k', 0):
                    if op in ('>', '!='):
                        nonempty = pol
                    elif op in ('==', '<='):
                        nonempty = not pol
                elif r == ('k', 1):
                    if op == '>=':
                        nonempty = pol
                    elif op == '<':
                        nonempty = not pol
                if nonempty is not None:
                    new.add((('m', 'empty', v), not nonempty))
        if not new <= facts:
            facts |= new
            changed = True
    return facts
