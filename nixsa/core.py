"""Check driver plumbing: rule instances, floors, known findings, evidence, exit codes."""
import json
import os
import random
import sys
import time

from .extract import AnalysisBroken, VERIF

KNOWN = os.path.join(VERIF, 'known_findings.json')


class Instance(object):
    __slots__ = ('rule', 'key', 'where', 'func', 'detail', 'status', 'nontrivial', 'note')

    def as_dict(self):
        d = {'rule': self.rule, 'key': self.key, 'where': self.where, 'function': self.func,
             'status': self.status, 'detail': self.detail}
        if self.note:
            d['note'] = self.note
        return d


class Rule(object):
    def __init__(self, rep, rid, text, floor):
        self.rep = rep
        self.rid = rid
        self.text = text
        self.floor = floor
        self.instances = []

    def _add(self, status, key, where, func, detail, nontrivial=True, note=None):
        i = Instance()
        i.rule = self.rid
        i.key = '%s|%s' % (self.rid, key)
        i.where = where
        i.func = func
        i.detail = detail
        i.status = status
        i.nontrivial = nontrivial
        i.note = note
        self.instances.append(i)
        return i

    def ok(self, key, where, func, detail, nontrivial=True):
        return self._add('ok', key, where, func, detail, nontrivial)

    def bad(self, key, where, func, detail):
        return self._add('violation', key, where, func, detail, True)

    def check(self, cond, key, where, func, ok_detail, bad_detail=None):
        if cond:
            return self.ok(key, where, func, ok_detail)
        return self.bad(key, where, func, bad_detail or ('NOT: ' + ok_detail))


class Report(object):
    def __init__(self, prop, prog, tier='quick', seed=0):
        self.prop = prop
        self.prog = prog
        self.tier = tier
        self.seed = seed
        self.rules = []
        self.t0 = time.time()
        self.assumptions = []
        self.extra = {}
        self.explanation = ''

    def rule(self, rid, text, floor=1):
        r = Rule(self, rid, text, floor)
        self.rules.append(r)
        return r

    def where(self, node_or_fn):
        p = self.prog
        if hasattr(node_or_fn, 'loc'):
            f = node_or_fn.fn.file if node_or_fn.fn is not None else '?'
            return '%s:%s' % (p.rel(f), node_or_fn.l)
        return '%s:%s' % (p.rel(node_or_fn.file), node_or_fn.line)


def load_known():
    if not os.path.exists(KNOWN):
        return []
    with open(KNOWN) as f:
        return json.load(f).get('findings', [])


def finish(rep, replay_filter=None):
    """Print per-rule lines, apply floors and known findings, write evidence, return exit code."""
    prop = rep.prop
    known = [k for k in load_known() if k.get('property') == prop]
    known_keys = {k['key']: k for k in known if k.get('status') == 'known'}
    total = 0
    ok = 0
    nontrivial = set()
    violations = []
    known_hits = []
    floor_fail = []
    for r in rep.rules:
        n = len(r.instances)
        nbad = 0
        for i in r.instances:
            if replay_filter is not None and i.key not in replay_filter:
                continue
            total += 1
            if i.status == 'ok':
                ok += 1
            else:
                if i.key in known_keys:
                    i.status = 'known'
                    known_hits.append(i)
                else:
                    violations.append(i)
                nbad += 1
            if i.nontrivial:
                nontrivial.add(i.key)
        print('[%s] %-10s %3d instance(s), %d not met (floor %d)  %s' % (prop, r.rid, n, nbad, r.floor, r.text))
        if n < r.floor and replay_filter is None and nbad == 0:
            floor_fail.append('%s: %d instance(s) found, floor is %d' % (r.rid, n, r.floor))
    if floor_fail:
        raise AnalysisBroken('instance floor not reached (vacuous pass guard): ' + '; '.join(floor_fail))
    for i in known_hits:
        print('KNOWN-FINDING: property=%s %s at %s in %s: %s' % (prop, i.key, i.where, i.func, known_keys[i.key].get('what', i.detail)))
    evdir = os.path.join(VERIF, 'evidence')
    if os.environ.get('NIX_NO_EVIDENCE'):
        # analysing a scratch copy (checker validation): never touch the real evidence
        evdir = os.path.join(rep.prog.repo, '_evidence')
        if os.path.realpath(rep.prog.repo) == '/repo':
            # (the hash seed sweep analyses /repo itself: nothing is written into the repository)
            evdir = os.path.join(VERIF, '.cache', '_evidence_scratch')
    os.makedirs(evdir, exist_ok=True)
    rng = random.Random(rep.seed)
    all_inst = [i for r in rep.rules for i in r.instances]
    samples = []
    per_rule = {}
    for r in rep.rules:
        per_rule[r.rid] = {'text': r.text, 'instances': len(r.instances), 'floor': r.floor,
                           'not_met': sum(1 for i in r.instances if i.status != 'ok')}
        if r.instances:
            pick = rng.sample(r.instances, min(2, len(r.instances)))
            samples += [i.as_dict() for i in pick]
    replay_path = None
    if violations:
        rdir = os.path.join(evdir, 'replay')
        os.makedirs(rdir, exist_ok=True)
        replay_path = os.path.join(rdir, '%s.json' % prop)
        with open(replay_path, 'w') as f:
            json.dump({'property': prop, 'tree': rep.prog.meta.get('key'),
                       'violations': [i.as_dict() for i in violations]}, f, indent=1)
    level = rep.extra.pop('level', 'other')
    cov = {
        'obligations': total,
        'discharged': ok,
        'evaluations': total,
        'distinct_nontrivial': len(nontrivial),
        'rule': 'one obligation per rule instance found in the resolved program (call site, function, table row, '
                'abstract evaluation); non-trivial = the obligation required locating a guard, flow, table row or '
                'callee in the code (not merely the existence of the anchor); distinct by (rule, function, role)',
        'samples': samples,
        'explanation': rep.explanation,
        'checker_cmd': './check %s --tier %s' % (prop, rep.tier),
        'trusted_base': ['clang 14 front end (AST, CFG)', 'tools/nixfacts.cc extractor', 'nixsa python rules',
                         'build flags -std=c++11 -DNDEBUG -DH5_USE_110_API=1'],
        'rules': per_rule,
        'translation_units': len(rep.prog.tus),
        'functions_in_program': len(rep.prog.funcs),
        'known_findings_reported': [i.key for i in known_hits],
        'exhaustive': False,
    }
    cov.update(rep.extra)
    ev = {
        'property_id': prop,
        'tier': rep.tier,
        'seed': rep.seed,
        'level': level,
        'coverage': cov,
        'assumptions': rep.assumptions,
        'wall_s': round(time.time() - rep.t0, 2),
        'violations': len(violations),
    }
    with open(os.path.join(evdir, '%s.json' % prop), 'w') as f:
        json.dump(ev, f, indent=1)
    if violations:
        for i in violations:
            print('  violation %s at %s in %s: %s' % (i.key, i.where, i.func, i.detail))
        print('VIOLATION property=%s replay=%s' % (prop, replay_path))
        return 1
    print('[%s] PASS: %d obligation(s), %d discharged, %d known finding(s), %.1fs' %
          (prop, total, ok, len(known_hits), time.time() - rep.t0))
    return 0
