from ..rules import r_flow, r_pair


def run(prog, rep):
    rep.explanation = ('Decides structural necessary conditions of C06 by abstract interpretation of getOffsetAndCount(MultiTag), '
                       'taggedData and featureData(MultiTag): the row read from positions (and, with the same count/offset, from '
                       'extents) is the requested position index; reading is preceded by the bounds test max(indices) < number of '
                       'positions (and extents); a valid range gives offset=first, count=1+(second-first) at the same dimension; the '
                       'point fall-back uses GreaterOrEqual, raises OutOfBounds without an index and stores the index into the '
                       'offset that is handed to the caller (no dead store); every DataView is built only after the bounds test on '
                       'the same values; indexed features give slice i of the first dimension, tagged ones are cut, untagged ones '
                       'returned whole. Element selection for particular floating-point positions is numeric: not decided.')
    r_flow.run_live(prog, rep, which=('mtag',), floor=3)
    r_flow.run_mtag(prog, rep)
    fs = [f for f in prog.fns('nix::util::taggedData') if 'const nix::MultiTag &' in f.sig and 'const nix::DataArray &' in f.sig and 'vector' in f.sig]
    r_flow.run_views(prog, rep, fs)
    r_flow.run_feature_dispatch(prog, rep, multi=True)
    r_pair.run_pairs(prog, rep)
    r_flow.run_forward(prog, rep, which=('MultiTag',))
    from ..rules import r_view as _rv
    _rv.run_indata(prog, rep)
    from ..rules import r_flow as _rf
    _rf.run_parallel(prog, rep)
    from ..rules import r_unit as _ru
    _ru.run_static_memo(prog, rep)
    from ..rules import r_io as _rio2
    _rio2.run_swapped(prog, rep)
    r_pair.run_vectors(prog, rep)
    from ..rules import r_safe as _rs
    _rs.run_stale_size(prog, rep)
    r_flow.run_forward(prog, rep, which=('MultiTag',), mode='list:ndsize_t', rid='R-FORWARD-IDX', floor=4)
    from ..rules import r_key as _rkx
    _rkx.run_handles_only(prog, rep)
    from ..rules import r_unit as _ru6
    _ru6.run_scale_positions(prog, rep)
    from ..rules import r_flow as _rfa
    _rfa.run_aligned(prog, rep)
    _ru6.run_no_static_state(prog, rep)
    r_pair.run_dispatch_total(prog, rep)
    r_flow.run_outpair(prog, rep)
