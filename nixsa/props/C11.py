from ..rules import r_close, r_err


def run(prog, rep):
    rep.explanation = ('Decides structural necessary conditions of C11: flush is H5Fflush(file id, GLOBAL scope) and returns its negated '
                       'error state; close closes the root handles, enumerates groups/datasets/datatypes still open, closes each id '
                       'H5Iget_ref times and then the file id on every path; File::close drops the backend pointer and every other File '
                       'member goes through backend() (throws when empty); results of mutating HDF5 calls are checked (so entity '
                       'handles used after close fail with an exception). Crash durability (SIGKILL, what libhdf5 has on disk) is '
                       'outside any static argument and is not decided.')
    r_close.run(prog, rep)
    r_err.run(prog, rep)
    from ..rules import r_close as _rc
    _rc.run_fapl(prog, rep)
    _rc.run_hid_owner(prog, rep)
    from ..rules import r_err as _re
    _re.run_exists(prog, rep)
    from ..rules import r_close as _rcr
    _rcr.run_release(prog, rep)
