from ..rules import r_flow, r_pair


def run(prog, rep):
    rep.explanation = ('Decides structural necessary conditions of C05 by abstract interpretation of getOffsetAndCount(Tag), taggedData '
                       'and featureData(Tag) (all abstract paths, loops abstracted to one arbitrary iteration): the per-dimension '
                       'conversion uses position[i], position[i]+extent[i], unit[i], dimension[i] at one index; no extent forces the '
                       'inclusive mode; a valid range gives offset=first and count=1+(second-first); an empty range is accepted only '
                       'for a zero extent with an existing GreaterOrEqual index, otherwise OutOfBounds; the results reach the '
                       'out-parameters (no dead store); every DataView is built only after the bounds test on the same values; '
                       'feature data follows the link type; plus the range-pair composition the conversion relies on. Which elements '
                       'come back for given floating-point positions and the padding extent of unspecified dimensions are numeric: not decided.')
    r_flow.run_live(prog, rep, which=('tag',), floor=2)
    r_flow.run_tag(prog, rep)
    fs = [f for f in prog.fns('nix::util::taggedData') if 'const nix::Tag &' in f.sig and 'const nix::DataArray &' in f.sig]
    r_flow.run_views(prog, rep, fs)
    r_flow.run_feature_dispatch(prog, rep, multi=False)
    r_pair.run_pairs(prog, rep)
    r_flow.run_forward(prog, rep, which=('Tag',))
    from ..rules import r_view as _rv
    _rv.run_indata(prog, rep)
    from ..rules import r_flow as _rf
    _rf.run_parallel(prog, rep)
    from ..rules import r_unit as _ru
    _ru.run_static_memo(prog, rep)
    from ..rules import r_io as _rio2
    _rio2.run_swapped(prog, rep)
    r_pair.run_match_tables(prog, rep)
    from ..rules import r_safe as _rs
    _rs.run_stale_size(prog, rep)
    from ..rules import r_key as _rkx
    _rkx.run_handles_only(prog, rep)
    r_pair.run_pos_pass(prog, rep)
    _ru.run_scale_positions(prog, rep)
    from ..rules import r_flow as _rfa
    _rfa.run_aligned(prog, rep)
    _ru.run_no_static_state(prog, rep)
    r_pair.run_dispatch_total(prog, rep)
    r_flow.run_outpair(prog, rep)
