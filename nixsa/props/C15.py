from ..rules import r_frame, r_codec, r_null, r_io


def run(prog, rep):
    rep.explanation = ('Decides the clauses of C15 whose truth is in the shape of the code (necessary conditions; equality of cell values over all '
                       'write histories and the zero/empty fill of unwritten cells are libhdf5 behaviour and are NOT decided): the Janus cell '
                       'codec moves a cell of DataType E through a C object of the type of E with its own size in both directions; every compound '
                       'type built for frame I/O places member i at a single monotone running sum of member sizes (member order = offset order, so '
                       'index-wise decoding reads the requested column); row/cell access transfers exactly row r and decodes before vlen reclaim; '
                       'readRow requests all members in order and writeRow pairs value k with member k; rows(n) sets the extent to n; column '
                       'access uses a one-member compound (name, 0, memory type of the requested type) on the selection (count, offset) and '
                       'marshals strings; createData/columns keep name, type and unit of column i together; the front end rejects unsupported '
                       'types and duplicate names before the backend creates anything and never hands the backend a count the vector does not '
                       'cover; the element type tables agree; strings read from the file are null-safe.')
    r_frame.run_cell_codec(prog, rep)
    r_frame.run_layout(prog, rep)
    r_frame.run_io(prog, rep)
    r_frame.run_schema(prog, rep)
    r_frame.run_front(prog, rep)
    r_io.run_strio(prog, rep)
    r_codec.run_datatype(prog, rep)
    r_null.run_strings(prog, rep)
    r_io.run_dcpl(prog, rep)
    r_io.run_growable(prog, rep)
    from ..rules import r_io as _rio2
    _rio2.run_swapped(prog, rep)
    from ..rules import r_io as _rio3
    _rio3.run_memtype(prog, rep)
    from ..rules import r_null as _rn
    _rn.run_cstr_args(prog, rep)
    from ..rules import r_key as _rkx
    _rkx.run_handles_only(prog, rep)
    from ..rules import r_io as _rio4
    _rio4.run_reclaim(prog, rep)
    r_frame.run_overload_defaults(prog, rep)
    from ..rules import r_order as _roe
    _roe.run_exact_compare(prog, rep)
    r_frame.run_count_respected(prog, rep)
