from ..rules import r_hdr, r_err


def run(prog, rep):
    rep.explanation = ('Decides structural necessary conditions of C09: the FileMode->H5F_ACC_* table; by abstract interpretation of '
                       'File::open and the FileHDF5 constructor over (mode, exists, flags): ReadOnly on a missing path throws before '
                       'a backend exists, create vs open branch, the flag reaching H5Fcreate/H5Fopen, createHeader only on create, '
                       'checkHeader(mode, !Force) on every open; checkHeader verdict specification on all abstract paths (missing or '
                       'wrong format, missing version, missing id are refused); the open path writes only what is absent; the backend existence test (which selects create vs open) is exactly whether the path can be opened; and the '
                       'result of every file-mutating HDF5 call is checked, so libhdf5 refusing a write on a read-only file surfaces '
                       'as an exception. Byte identity of the file and content equality are libhdf5 behaviour and not decided.')
    r_hdr.run(prog, rep)
    r_hdr.run_write_free(prog, rep)
    r_hdr.run_exists(prog, rep)
    r_err.run(prog, rep)
    from ..rules import r_close as _rc
    _rc.run_fapl(prog, rep)
    _rc.run_hid_owner(prog, rep)
    from ..rules import r_key as _rk2
    _rk2.run_const_pure(prog, rep)
    from ..rules import r_ver as _rv9
    _rv9.run(prog, rep)
    from ..rules import r_close as _rcr
    _rcr.run_release(prog, rep)
    _rcr.run(prog, rep)
    _rk2.run_getattr(prog, rep)
    from ..rules import r_err as _rens
    _rens.run_no_swallow(prog, rep)
