from ..rules import r_valid


def run(prog, rep):
    rep.explanation = ('Decides the soundness/completeness skeleton of the validator, given that predicates and getters are correct: '
                       '(i) every hard rule named by the property is present as a must-rule and every soft rule as a should-rule in '
                       'the right validate overload; (ii) must feeds the error slot, should the warning slot, could none, and '
                       'concatenation keeps the slots apart; (iii) File::validate reaches every entity of each kind including features '
                       'and nested sources/sections; (iv) no predicate functor lets a later loop iteration overwrite an untested verdict, and its element loops leave early only once the verdict has failed (or for a descriptor beyond the data rank, which the rank rule reports). '
                       'The predicates\' own arithmetic is not decided.')
    r_valid.run_table(prog, rep)
    r_valid.run_channels(prog, rep)
    r_valid.run_walk(prog, rep)
    r_valid.run_sticky(prog, rep)
    r_valid.run_cover(prog, rep)
    r_valid.run_conditions(prog, rep)
    from ..rules import r_unit as _ru3
    _ru3.run_scaling(prog, rep)
    from ..rules import r_key as _rkx
    _rkx.run_handles_only(prog, rep)
    r_valid.run_loop_fresh(prog, rep)
    _ru3.run_tables(prog, rep)
    r_valid.run_sorted_agree(prog, rep)
    from ..rules import r_order as _ro19
    _ro19.run_name_first(prog, rep)
    _ro19.run_lookup(prog, rep)
    _rkx.run_getter_raw(prog, rep)
