from ..rules import r_codec, r_io, r_null, r_safe, r_key


def run(prog, rep):
    rep.explanation = ('Decides structural necessary conditions of C01, not element equality: (codec) for the 12 stored element types the '
                       'file type, memory type, decoder, element size and to_data_type<T> agree, unsupported types are rejected; (roles) '
                       'start/count, link source/target, dims/maxdims, member name/offset/type reach the right HDF5 argument '
                       'positions; (paths) DataArrayHDF5::read and ::write select offsetCount2DataSpaces(count, offset) on "data", use '
                       'memtype(dtype), and marshal strings symmetrically (read -> finish -> reclaim); (append) offset along the axis is '
                       'the old extent, the extent grows by count[axis] and is set before the write; (calibration) applied only in '
                       'ioRead as read(Double) -> polynomial(coefficients, origin) -> convert, writes are raw; (storage) array data is '
                       'created chunked with unlimited maximum extent, deflate level table; never-written strings read as empty; extents '
                       'are not narrowed to the element type; buffer/count agreement. Values, fill values and HDF5 conversion semantics '
                       'are runtime behaviour of libhdf5: not decided.')
    r_codec.run_datatype(prog, rep)
    r_io.run_roles(prog, rep)
    r_io.run_paths(prog, rep)
    r_io.run_append(prog, rep)
    r_io.run_calibration(prog, rep)
    r_io.run_create(prog, rep)
    r_io.run_strio(prog, rep)
    r_null.run_strings(prog, rep)
    r_safe.run_narrow(prog, rep)
    r_safe.run_buf(prog, rep)
    from ..rules import r_flow
    r_flow.run_forward(prog, rep, which=(), mode='Compression', rid='R-FORWARD-COMP', floor=8, backend=True)
    from ..rules import r_key
    r_key.run_handles_only(prog, rep)
    r_io.run_dcpl(prog, rep)
    r_io.run_growable(prog, rep)
    from ..rules import r_io as _rio2
    _rio2.run_swapped(prog, rep)
    from ..rules import r_io as _rio3
    _rio3.run_memtype(prog, rep)
    from ..rules import r_io as _rio4
    _rio4.run_reclaim(prog, rep)
    _rio4.run_set_extent(prog, rep)
    _rio4.run_replace_extent(prog, rep)
