from ..rules import r_key, r_codec, r_close, r_err, r_order


def run(prog, rep):
    rep.explanation = ('Decides the clauses of C02 whose truth is in the shape of the code (necessary conditions; the full claim over all '
                       'operation histories is a model-comparison statement and is NOT decided): (1) per backend field the setter, the '
                       'clearing overload and the getter use the same literal key and store kind, the stored value derives from the '
                       'parameter, creating constructors and createHeader write keys that some getter / checkHeader reads (R-KEY); '
                       '(2) backend entity classes own only handles, entity links are hard links made in one place, and the only handle '
                       'cache (optGroup) either looks the container up on every access or no container it caches is ever unlinked '
                       '(R-NOCACHE); (3) DimensionType and LinkType are stored as strings that decode to the same enumerator, the dimension '
                       'opener dispatches every stored kind to its own class (R-CODEC-*); the DataType <-> HDF5 type tables agree (R-CODEC-DT); '
                       '(4) close releases every open id and then the file on every path (R-CLOSE) and no result of a mutating HDF5 '
                       'call is dropped (R-ERR).')
    r_key.run(prog, rep)
    r_key.run_handles_only(prog, rep)
    r_key.run_getters(prog, rep)
    r_codec.run_string_enum(prog, rep, 'nix::LinkType', 'nix::hdf5::linkTypeToString', 'nix::hdf5::linkTypeFromString', 'LINK')
    r_codec.run_string_enum(prog, rep, 'nix::DimensionType', 'nix::hdf5::dimensionTypeToStr', 'nix::hdf5::dimensionTypeFromStr', 'DIM')
    r_codec.run_dim_open(prog, rep)
    r_codec.run_datatype(prog, rep)
    r_close.run(prog, rep)
    r_err.run(prog, rep)
    r_order.run_order(prog, rep)
    from ..rules import r_close as _rc
    _rc.run_fapl(prog, rep)
    from ..rules import r_key as _rk2
    _rk2.run_const_pure(prog, rep)
    from ..rules import r_close as _rc2
    _rc2.run_hid_owner(prog, rep)
    r_codec.run_time_codec(prog, rep)
    _rk2.run_setter_verbatim(prog, rep, classes='all', floor=60)
    _rk2.run_store_verbatim(prog, rep)
    _rk2.run_getter_verbatim(prog, rep)
    from ..rules import r_close as _rcr
    _rcr.run_release(prog, rep)
    _rk2.run_ctor_pairs(prog, rep)
    from ..rules import r_io as _rio2s
    _rio2s.run_strio(prog, rep)
    from ..rules import r_unit as _runs
    _runs.run_no_static_state(prog, rep)
    _rio2s.run_string_buffers(prog, rep)
    _rk2.run_getattr(prog, rep)
    _rk2.run_getter_raw(prog, rep)
