from ..rules import r_view, r_flow, r_pair


def run(prog, rep):
    rep.explanation = ('Decides structural necessary conditions of C17 by abstract interpretation: dataSlice rejects start > end, '
                       'converts the padded start/end/unit vectors at one index with the descriptor of that dimension, derives '
                       'offset/count from the range, accepts the point fall-back only for an empty extent, and builds the view only '
                       'after the bounds test on the same values; unspecified dimensions are filled in for every descriptor kind; a '
                       'DataView checks its window at construction, compares every request with the window extent using NDSize '
                       '"request > window" and translates it by the window origin; NDSize <=, <, >, >= have the element-wise meaning '
                       'those guards rely on; subscripts on caller-owned vectors are bounded by their own size. Which elements a '
                       'position pair selects is numeric (as C05/C07): not decided.')
    r_view.run_slice(prog, rep)
    r_view.run_fill(prog, rep)
    r_view.run_view(prog, rep)
    r_view.run_ndsize(prog, rep)
    r_view.run_param_subscripts(prog, rep)
    r_flow.run_live(prog, rep, which=('slice',), floor=2)
    from ..rules import r_view as _rv
    _rv.run_indata(prog, rep)
    from ..rules import r_unit as _ru
    _ru.run_static_memo(prog, rep)
    from ..rules import r_io as _rio2
    _rio2.run_swapped(prog, rep)
    from ..rules import r_unit as _ru2
    _ru2.run_scale_positions(prog, rep)
    from ..rules import r_key as _rkx
    _rkx.run_handles_only(prog, rep)
    from ..rules import r_flow as _rfa
    _rfa.run_aligned(prog, rep)
    _rio2.run_set_extent(prog, rep)
    from ..rules import r_pair as _rp17
    _rp17.run_match_tables(prog, rep)
    r_flow.run_outpair(prog, rep)
