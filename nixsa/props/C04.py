from ..rules import r_del


def run(prog, rep):
    rep.explanation = ('Decides structural necessary conditions of C04 in both directions: every backend implementation of an '
                       'entity-deletion interface method removes ALL hard links of the victim (H5Group::removeAllLinks, never a single '
                       'unlink) and, for sections and sources, deletes every child recursively first; every holder-side unlink '
                       '(removeReference, deleteFeature, group members, sources, metadata, section link, positions/extents, feature '
                       'data, dimension groups) cannot reach removeAllLinks through the call graph; removeAllLinks re-queries the '
                       'object path until none is left; handle validity is link count > 0; link-dereferencing getters re-check block '
                       'membership. That every other entity is left untouched by libhdf5 is not decided.')
    r_del.run(prog, rep)
    from ..rules import r_safe
    r_safe.run_rawbuf(prog, rep)
    from ..rules import r_key as _rk
    _rk.run_handles_only(prog, rep)
    r_del.run_by_handle(prog, rep)
    from ..rules import r_order as _ro2
    _ro2.run_attr_search(prog, rep)
    from ..rules import r_safe as _rsn
    _rsn.run_namebuf(prog, rep)
    r_del.run_break_cycles(prog, rep)
    r_del.run_section_selflink(prog, rep)
    from ..rules import r_del as _rdbh
    _rdbh.run_backend_by_handle(prog, rep)
    # validity == link count > 0 holds only while no leaked id keeps an unlinked container group (and its links) alive (C04j)
    from ..rules import r_close as _rcr4
    _rcr4.run_release(prog, rep)
