from ..rules import r_null, r_safe, r_err, r_view


def run(prog, rep):
    rep.explanation = ('A repository-specific lint set, each rule a necessary condition for memory safety at the anchored sites - NOT a proof '
                       'of the absence of undefined behaviour for all programs. Rules: a char* read from an HDF5 buffer is null-tested '
                       'before it is assigned to a std::string; lookups that may return null are tested (or guarded by the matching '
                       'has-query) before use; optional group handles are tested or created on demand; *max_element/front()/back() only '
                       'on non-empty ranges; subscripts on caller-owned vectors are bounded by their own size; NDSize::operator[] and '
                       'NDArray::get/set are bounds-guarded; front-end index getters guard with the count of the same kind; sizes are not '
                       'narrowed to element-dependent types; buffer/count agreement at the I/O primitives; HDF5 error results are checked.')
    r_null.run_strings(prog, rep)
    r_null.run_shared(prog, rep)
    r_null.run_optional(prog, rep)
    r_null.run_empty_ranges(prog, rep)
    r_view.run_param_subscripts(prog, rep)
    r_view.run_ndsize(prog, rep)
    r_safe.run_ndarray(prog, rep)
    r_safe.run_idx(prog, rep)
    r_safe.run_narrow(prog, rep)
    r_safe.run_buf(prog, rep)
    r_err.run(prog, rep)
    r_safe.run_vecinit(prog, rep)
    r_safe.run_rawbuf(prog, rep)
    r_safe.run_colidx(prog, rep)
    from ..rules import r_null as _rn
    _rn.run_cstr_args(prog, rep)
    from ..rules import r_safe as _rs
    _rs.run_stale_size(prog, rep)
    from ..rules import r_err as _re
    _re.run_exists(prog, rep)
    from ..rules import r_io as _rio4
    _rio4.run_reclaim(prog, rep)
    _rn.run_ref_members(prog, rep)
    _rs.run_namebuf(prog, rep)
    _rio4.run_roles(prog, rep)
    _rs.run_bound_belief(prog, rep)
    _rio4.run_calibration(prog, rep)
    _rs.run_hydra_rank(prog, rep)
