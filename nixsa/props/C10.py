from ..rules import r_ver, r_hdr


def run(prog, rep):
    rep.explanation = ('FormatVersion::canWrite/canRead and the six comparison operators are interpreted abstractly on all 27 '
                       'sign vectors of (library - file) components (exhaustive for all int triples because the interpreter '
                       'refuses any non-relational use of a component) and compared with the specification; checkHeader is '
                       'interpreted over a boolean abstraction of every attribute query / gate result, path by path, and its '
                       'outcome compared with the specification (right gate per mode, library as receiver, file version as '
                       'argument, InvalidFile iff unacceptable and throw_error); the constructor passes throw_error = !Force.')
    rep.extra['level'] = 'proof'
    r_ver.run(prog, rep)
    r_hdr.run_check_header(prog, rep)
    rule = rep.rule('R-HDR-CTOR', 'constructor: checkHeader(mode, !Force) on every open path, never on create', floor=6)
    r_hdr.run_ctor(prog, rep, rule)
    r_hdr.run_file_open(prog, rep, rule)
    from ..rules import r_close as _rc10
    _rc10.run_hid_owner(prog, rep)
    r_ver.run_width(prog, rep)
    from ..rules import r_key as _rkga
    _rkga.run_getattr(prog, rep)
