from ..rules import r_mbt, r_val


def run(prog, rep):
    rep.explanation = ('Decides the structure of C08: "nothing is mutated on a path that ends in a rejection". A clean/dirty typestate '
                       'analysis runs from every public mutating API root through the closed-world call graph (virtual calls to all '
                       'overriders, make_shared to the constructor, base-class initialisers) over each CFG; an explicit '
                       'argument-rejecting throw reachable while dirty is reported unless its guard is refuted by facts established '
                       'before the mutation (validator summaries and throw-guards, propagated through calls). Empty container-group '
                       'creation and the updated_at refresh are not events; HDF5 storage failures are not rejections. Together with '
                       'R-VAL (every create entry point validates before the backend is touched). State equality itself and '
                       'rejections raised by libhdf5 half-way are not decided.')
    v = r_val.run(prog, rep)
    val_ok = all(i.status == 'ok' for i in v.instances)
    r_mbt.run(prog, rep, val_ok)
    from ..rules import r_order as _ro
    _ro.run_name_first(prog, rep)
    from ..rules import r_key as _rk3
    _rk3.run_handles_only(prog, rep)
    from ..rules import r_frame as _rfr
    _rfr.run_front(prog, rep)
    from ..rules import r_io as _rio8
    _rio8.run_append(prog, rep)
    _rio8.run_type_gate(prog, rep)
    _rio8.run_rank_gate(prog, rep)
    _rio8.run_set_extent(prog, rep)
    from ..rules import r_mbt as _mbt8
    _mbt8.run_replace_dups(prog, rep)
    from ..rules import r_codec as _rc8
    _rc8.run_classify(prog, rep)
