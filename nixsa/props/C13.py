from ..rules import r_dim


def run(prog, rep):
    rep.explanation = ('Decides structural necessary conditions of C13: append entry points number the new descriptor '
                       'dimensionCount()+1 and the backend bounds the index; every front-end call site that hands ticks or a sampling '
                       'interval to the backend is dominated by the sortedness / positivity guard; optional append parameters are stored '
                       'iff they differ from their default; alias preconditions (abstract interpretation of appendAliasRangeDimension); '
                       'RangeDimensionHDF5 accessors go through redirectGroup(); delete-all covers count..1. Read-back equality of values '
                       'is not decided.')
    r_dim.run_index(prog, rep)
    r_dim.run_sink(prog, rep)
    r_dim.run_faith(prog, rep)
    r_dim.run_alias(prog, rep)
    r_dim.run_ticks_write(prog, rep)
    from ..rules import r_key, r_codec
    dims = ('nix::hdf5::SampledDimensionHDF5', 'nix::hdf5::RangeDimensionHDF5', 'nix::hdf5::SetDimensionHDF5', 'nix::hdf5::DataFrameDimensionHDF5', 'nix::hdf5::DimensionHDF5')
    r_key.run(prog, rep, only=dims, floor=8)
    r_key.run_getters(prog, rep, only=dims, floor=4)
    r_codec.run_string_enum(prog, rep, 'nix::DimensionType', 'nix::hdf5::dimensionTypeToStr', 'nix::hdf5::dimensionTypeFromStr', 'DIM')
    r_codec.run_dim_open(prog, rep)
    from ..rules import r_mbt
    r_mbt.run(prog, rep, only=r'^nix::DataArray::(append|create)\w*Dimension', floor=6)
    from ..rules import r_safe
    r_safe.run_colidx(prog, rep)
    from ..rules import r_io as _rio3
    _rio3.run_memtype(prog, rep)
    from ..rules import r_key as _rkx
    _rkx.run_handles_only(prog, rep)
    from ..rules import r_key as _rk13
    _rk13.run_setter_verbatim(prog, rep, classes=('nix::SampledDimension', 'nix::RangeDimension', 'nix::SetDimension', 'nix::DataFrameDimension', 'nix::DataArray'), floor=8)
    _rk13.run_store_verbatim(prog, rep)
    _rk13.run_getter_verbatim(prog, rep)
    _rio3.run_replace_extent(prog, rep)
    from ..rules import r_del as _rdbh
    _rdbh.run_backend_by_handle(prog, rep)
    _rk13.run_getter_raw(prog, rep)
