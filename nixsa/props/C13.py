from ..rules import r_dim


def run(prog, rep):
    rep.explanation = ('Decides structural necessary conditions of C13: append entry points number the new descriptor '
                       'dimensionCount()+1 and the backend bounds the index; every front-end call site that hands ticks or a sampling '
                       'interval to the backend is dominated by the sortedness / positivity guard; optional append parameters are stored '
                       'iff they differ from their default; alias preconditions (abstract interpretation of appendAliasRangeDimension); '
                       'RangeDimensionHDF5 accessors go through redirectGroup(); delete-all covers count..1. Read-back equality of values '
                       'is not decided.')
    r_dim.run_index(prog, rep)
    r_dim.run_sink(prog, rep)
    r_dim.run_faith(prog, rep)
    r_dim.run_alias(prog, rep)
    r_dim.run_ticks_write(prog, rep)
