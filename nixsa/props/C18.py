from ..rules import r_unit


def run(prog, rep):
    rep.explanation = ('Decides structural necessary conditions of C18: the prefix regex, the factor table and the SI powers of ten '
                       'agree; alternations searched with leftmost-first semantics never let a shorter alternative shadow a longer one; '
                       'getSIScaling is interpreted on every abstract path and its symbolic result equals (F[origin]/F[dest])^power '
                       '(InvalidUnit when not scalable), isScalable requires SI, equal base unit and equal power of both operands; every '
                       'conversion site calls getSIScaling(position unit, dimension unit) and the scaled value reaches indexOf; tag '
                       'units are sanitised and SI-checked. Floating-point exactness of pow and selection invariance are not decided.')
    r_unit.run_tables(prog, rep)
    r_unit.run_scaling(prog, rep)
    r_unit.run_sites(prog, rep)
    from ..rules import r_flow as _rf
    _rf.run_parallel(prog, rep)
    from ..rules import r_unit as _ru
    _ru.run_static_memo(prog, rep)
    from ..rules import r_unit as _ru2
    _ru2.run_scale_positions(prog, rep)
    from ..rules import r_key as _rkx
    _rkx.run_handles_only(prog, rep)
    from ..rules import r_flow as _rfa
    _rfa.run_aligned(prog, rep)
    from ..rules import r_pair as _rpp18
    _rpp18.run_pos_pass(prog, rep)
