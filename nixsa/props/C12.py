from ..rules import r_id, r_val


def run(prog, rep):
    rep.explanation = ('Decides structural necessary conditions of C12: the uuid generator behind util::createId draws from a '
                       'process-unique entropy source (not only from the wall clock), createId returns the formatted uuid, every '
                       'backend creation site passes a fresh util::createId() to the creating constructor, the id keys are written '
                       'only by creating constructors / createHeader / forceId (write-once by construction), and no create entry '
                       'point can re-run a creating constructor on an existing entity (R-VAL duplicate test). Collision probability '
                       'itself is not decided.')
    r_id.run_seed(prog, rep)
    r_id.run_ids(prog, rep)
    r_val.run(prog, rep)
    from ..rules import r_order as _ro
    _ro.run_name_first(prog, rep)
    from ..rules import r_key as _rk3
    _rk3.run_handles_only(prog, rep)
    from ..rules import r_hdr as _rh12
    _rh12.run(prog, rep)
    from ..rules import r_order as _ro2
    _ro2.run_attr_search(prog, rep)
    _ro2.run_identity(prog, rep)
    _ro2.run_exact_compare(prog, rep)
    r_id.run_id_forward(prog, rep)
    r_val.run_link_first(prog, rep)
