from ..rules import r_val


def run(prog, rep):
    rep.explanation = ('Decides structural necessary conditions of C03, not the behaviour: no create path bypasses name '
                       'validation and the same-kind duplicate test (R-VAL).')
    r_val.run(prog, rep)
