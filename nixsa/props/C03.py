from ..rules import r_val, r_order, r_hdr, r_key


def run(prog, rep):
    rep.explanation = ('Decides structural necessary conditions of C03, not the behaviour: (1) no create path bypasses name '
                       'validation and the same-kind duplicate test (R-VAL); (2) index access resolves position i through HDF5\'s '
                       'creation-order index in increasing order, and every group / the file is created with tracked+indexed link '
                       'creation order (R-ORDER); (3) each backend has-query is decided by the same lookup as the getter, each index '
                       'getter is the by-name getter applied to the name of the i-th link, and the enumeration visits 0..count-1 in '
                       'order without early exit (R-LOOKUP); (4) lookups always consult the file: backend classes own only handles, and a '
                       'lookup table kept in a backend object must be emptied by every function that unlinks or renames (R-NOCACHE). Behaviour for particular name strings and libhdf5\'s own ordering are '
                       'not decided.')
    r_val.run(prog, rep)
    r_order.run_order(prog, rep)
    rule = rep.rule('R-ORDER-FILE', 'the file is created with tracked+indexed creation order (constructor abstraction)', floor=1)
    r_hdr.run_ctor(prog, rep, rule)
    r_order.run_lookup(prog, rep)
    r_key.run_handles_only(prog, rep)
    r_order.run_name_first(prog, rep)
    from ..rules import r_bfs as _rb
    _rb.run_filters(prog, rep)
    from ..rules import r_order as _ro2
    _ro2.run_attr_search(prog, rep)
    _ro2.run_identity(prog, rep)
    from ..rules import r_safe as _rsn
    _rsn.run_namebuf(prog, rep)
    _ro2.run_lookup_via(prog, rep)
    _ro2.run_exact_compare(prog, rep)
    from ..rules import r_io as _riosb
    _riosb.run_string_buffers(prog, rep)
    from ..rules import r_del as _rd3
    _rd3.run(prog, rep)
    r_val.run_link_first(prog, rep)
