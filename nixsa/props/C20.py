from ..rules import r_bfs


def run(prog, rep):
    rep.explanation = ('Decides structural necessary conditions of C20 (narrow): both tree searches use a first-in first-out work list, '
                       'enqueue children with depth(parent)+1 only while depth(parent) < max_depth, append matches in removal order and '
                       'apply the filter to every visited element; File::findSections / Block::findSources cover every root; section '
                       'back references iterate all blocks with MetadataFilter(id()) (sources through the unbounded nested search), '
                       'source back references use SourceFilter(id()) on the parent block; inherited properties shadow by name. '
                       'Equality with a brute-force traversal on all trees is not decided.')
    r_bfs.run(prog, rep)
    r_bfs.run_filters(prog, rep)
    from ..rules import r_key as _rk4
    _rk4.run_handles_only(prog, rep)
    from ..rules import r_order as _rov
    _rov.run_lookup_via(prog, rep)
    # every enumeration under the searches goes through H5Group::objectName: a truncated name silently drops the node (C20j)
    from ..rules import r_safe as _rs20
    _rs20.run_namebuf(prog, rep)
