from ..rules import r_prop, r_key, r_codec


def run(prog, rep):
    rep.explanation = ('Decides the clauses of C14 whose truth is in the shape of the code (necessary conditions; value equality for particular '
                       'numbers/strings is libhdf5 conversion behaviour and is NOT decided): every dispatch on the value type (write, read, file '
                       'type, old-style read, Value->Variant, Variant copy and compare) sends DataType E to the code instantiated for the C type '
                       'of E; assignment is refused unless the given type equals the stored type under a test that separates all seven value '
                       'types, and every element has that type, before the data set is resized; the data set is resized to the number of '
                       'values and all of them are converted with get<T> and written with the memory type of T over the whole data set, and '
                       'read back the same way (strings copied before vlen reclaim); clearing sets extent 0; the Variant tagged union keeps '
                       'tag and member in agreement and owns its string exactly when the tag is String; unit, uncertainty and definition '
                       'are written, cleared and read under the same keys; the element type tables agree.')
    r_prop.run_dispatch(prog, rep)
    r_prop.run_guard(prog, rep)
    r_prop.run_rw(prog, rep)
    r_prop.run_variant(prog, rep)
    r_key.run(prog, rep, only=('nix::hdf5::PropertyHDF5',), floor=6)
    r_key.run_getters(prog, rep, only=('nix::hdf5::PropertyHDF5',), floor=3)
    r_codec.run_datatype(prog, rep)
    from ..rules import r_io as _rio
    _rio.run_growable(prog, rep)
    _rio.run_dcpl(prog, rep)
    from ..rules import r_io as _rio3
    _rio3.run_memtype(prog, rep)
    from ..rules import r_null as _rn
    _rn.run_cstr_args(prog, rep)
    from ..rules import r_key as _rkx
    _rkx.run_handles_only(prog, rep)
    from ..rules import r_key as _rk14
    _rk14.run_setter_verbatim(prog, rep, classes=('nix::Property', 'nix::Section'), floor=6)
    _rk14.run_store_verbatim(prog, rep)
    _rk14.run_getter_verbatim(prog, rep)
    from ..rules import r_mbt as _mbt14
    _mbt14.run(prog, rep, only=r'^nix::(Property|Section)::', floor=4)
    from ..rules import r_io as _rio14
    _rio14.run_strio(prog, rep)
    _rio14.run_string_buffers(prog, rep)
