from ..rules import r_pair


def run(prog, rep):
    rep.explanation = ('Narrow claim. Decides the discrete structure of C07, not its numerics: (1) the four range-pair functions, '
                       'interpreted on every abstract path, produce (GreaterOrEqual(start), LessOrEqual|Less(end)) exactly when '
                       'start <= end, both indices exist and the pair is ordered; (2) vector overloads convert element i of both '
                       'vectors with that function under an equal-length guard; (3) positionToIndex(.., Dimension) routes every '
                       'DimensionType to the matching overload; (4) per PositionMatch rule the sampled/set/data-frame helpers use '
                       'ceil/floor/round and the exact-hit +-1 adjustment the rule requires (symbolic results). and the range helper handles the boundary cases and adjusts the lower_bound result as each rule requires. '
                       'The floating-point behaviour of the epsilon equality test (e.g. interval 0.1) is numeric and not decided.')
    r_pair.run_pairs(prog, rep)
    r_pair.run_vectors(prog, rep)
    r_pair.run_dispatch(prog, rep)
    r_pair.run_match_tables(prog, rep)
    r_pair.run_match_range(prog, rep)
    from ..rules import r_flow
    r_flow.run_forward(prog, rep, which=(), mode='PositionMatch', rid='R-FORWARD-PM', floor=10)
    from ..rules import r_safe as _rs
    _rs.run_stale_size(prog, rep)
    from ..rules import r_key as _rkx
    _rkx.run_handles_only(prog, rep)
    from ..rules import r_io as _rio7
    _rio7.run_swapped(prog, rep)
    from ..rules import r_pair as _rpp
    _rpp.run_pos_pass(prog, rep)
    _rpp.run_dispatch_total(prog, rep)
