"""R-UNIT (C18): prefix table, regex alternation order, scaling formula, argument order of
getSIScaling at the conversion sites, unit sanitising on tags."""
import math
import re

from ..absint import GenericInterp, Opaque, Unsupported
from ..extract import AnalysisBroken
from ..sem import Sem, Flow, term, unwrap, real_args

SI = {'Y': 24, 'Z': 21, 'E': 18, 'P': 15, 'T': 12, 'G': 9, 'M': 6, 'k': 3, 'h': 2, 'da': 1,
      'd': -1, 'c': -2, 'm': -3, 'u': -6, 'n': -9, 'p': -12, 'f': -15, 'a': -18, 'z': -21, 'y': -24}


def str_global(prog, q):
    v, node = prog.var_init(q)
    if node is None:
        raise AnalysisBroken('global %s has no initialiser' % q)
    lits = [n.get('v') for n in node.walk() if n.k == 'str']
    if len(lits) != 1:
        raise AnalysisBroken('global %s is not initialised from one string literal' % q)
    return v, lits[0]


def alternatives(s):
    m = re.match(r'^\((.*)\)$', s)
    if not m or '(' in m.group(1):
        raise AnalysisBroken('not a flat alternation group: %r' % s)
    return m.group(1).split('|')


def run_tables(prog, rep):
    rule = rep.rule('R-UNIT-TAB', 'prefix alternatives = factor table = SI powers of ten; searched alternations are prefix-free in order', floor=22)
    vp, prefixes = str_global(prog, 'nix::util::PREFIXES')
    vu, units = str_global(prog, 'nix::util::UNITS')
    pa = alternatives(prefixes)
    ua = alternatives(units)
    vf, fnode = prog.var_init('nix::util::PREFIX_FACTORS')
    pairs = {}
    for n in fnode.walk():
        if n.k in ('initlist', 'construct') and len([c for c in n.c if c is not None]) == 2:
            a, b = [unwrap(c) for c in n.c if c is not None][:2]
            if a.k == 'str' and b.k == 'float':
                pairs[a.get('v')] = b.get('v')
            elif a.k == 'str' and b.k == 'unop' and b.get('op') == '-':
                pass
    where = '%s:%s' % (prog.rel(vf['file']), vf['line'])
    rule.check(set(pa) == set(pairs), 'PREFIXES|keys', where, 'nix::util::PREFIX_FACTORS',
               'the %d regex prefixes are exactly the keys of PREFIX_FACTORS' % len(pa),
               'regex prefixes and factor table disagree: only in regex %s, only in table %s' % (sorted(set(pa) - set(pairs)), sorted(set(pairs) - set(pa))))
    rule.check(set(pa) == set(SI), 'PREFIXES|si', where, 'nix::util::PREFIXES', 'the prefixes are the 20 SI prefixes',
               'prefix set differs from SI: %s' % sorted(set(pa) ^ set(SI)))
    for k in sorted(pairs):
        want = 10.0 ** SI[k] if k in SI else None
        got = pairs[k]
        okv = want is not None and got > 0 and abs(math.log10(got) - SI[k]) < 1e-9
        rule.check(okv, 'PREFIX_FACTORS|%s' % k, where, 'nix::util::PREFIX_FACTORS', 'factor(%s) = 1e%d' % (k, SI.get(k, 0)),
                   'factor(%s) = %r, expected 1e%s' % (k, got, SI.get(k)))
    # the grammar [prefix] unit is unambiguous: no text has two decompositions (whichever one splitUnit picks,
    # the other reading's prefix relation - e.g. cd ~ mcd - is lost)
    amb = []
    parses = {}
    for u in ua:
        parses.setdefault(u, []).append(('', u))
    for pfx in pa:
        for u in ua:
            parses.setdefault(pfx + u, []).append((pfx, u))
    for text, ps in sorted(parses.items()):
        if len(set(ps)) > 1:
            amb.append('"%s" = %s' % (text, ' = '.join('%s+%s' % x if x[0] else x[1] for x in sorted(set(ps)))))
    rule.check(not amb, 'UNITS|unambiguous', '%s:%s' % (prog.rel(vu['file']), vu['line']), 'nix::util::UNITS',
               'no text is both a unit and prefix+unit, or two different prefix+unit pairs (%d texts)' % len(parses),
               'ambiguous unit texts: %s: the units that differ from it only by prefix are no longer scalable to it' % '; '.join(amb[:6]))
    # which alternations are used with regex_search (Perl leftmost / first alternative wins)?
    searched = set()
    for fn in prog.funcs.values():
        if not fn.q.startswith('nix::util::') or fn.body is None:
            continue
        calls = [c for c in fn.calls() if (c.callee.get('q') or '').endswith('regex_search')]
        if not calls:
            continue
        fl = Flow(Sem(prog), fn)
        for c in calls:
            for a in c.c:
                for o in fl.origins(a):
                    if o[0] == 'global' and o[1] in ('nix::util::UNITS', 'nix::util::PREFIXES'):
                        searched.add(o[1])
    if 'nix::util::UNITS' not in searched:
        raise AnalysisBroken('R-UNIT: no regex_search over UNITS found (anchor vanished)')
    for q, alts, v in (('nix::util::UNITS', ua, vu), ('nix::util::PREFIXES', pa, vp)):
        if q not in searched:
            continue
        bad = []
        for i, a in enumerate(alts):
            for b in alts[i + 1:]:
                if b.startswith(a) and b != a:
                    bad.append((a, b))
        rule.check(not bad, '%s|alternation-order' % q, '%s:%s' % (prog.rel(v['file']), v['line']), q,
                   'no alternative shadows a later, longer one under leftmost-first matching',
                   'alternatives %s precede longer alternatives they are a prefix of: regex_search splits e.g. "%s" after "%s"' % (
                       ', '.join('%s<%s' % x for x in bad), bad[0][1] if bad else '', bad[0][0] if bad else ''))
    return rule


def run_scaling(prog, rep):
    rule = rep.rule('R-UNIT-SCALE', 'getSIScaling = (F[origin]/F[dest])^power under isScalable; isScalable compares base unit and power of both', floor=6)
    f = prog.fn('nix::util::getSIScaling')
    f = _through_memo(prog, rep, rule, f)
    it = GenericInterp(prog)
    res = it.enumerate(f, this=None, args=[('origin',), ('dest',)])
    G = None

    def outv(unit, i):
        return ('out', 'nix::util::splitUnit', i, unit)
    npaths = 0
    for assign, out, log, fields in res:
        npaths += 1
        key = 'getSIScaling|' + ','.join('%s=%d' % (_short(k), int(v)) for k, v in sorted(assign.items(), key=repr))
        sc = [v for k, v in assign.items() if k[0] == 'bool' and k[1] == 'nix::util::isScalable']
        sck = [k for k in assign if k[0] == 'bool' and k[1] == 'nix::util::isScalable']
        if not sc:
            rule.bad(key, rep.where(f), f.q, 'path does not consult isScalable')
            continue
        if set(sck[0][2:4]) != {('origin',), ('dest',)}:
            rule.bad(key, rep.where(f), f.q, 'isScalable is not applied to (origin, destination): %r' % (sck[0],))
            continue
        if not sc[0]:
            rule.check(out[0] == 'throw' and 'InvalidUnit' in str(out[1]), key, rep.where(f), f.q, 'not scalable -> InvalidUnit', 'not scalable but outcome is %r' % (out,))
            continue
        oP, oW = outv(('origin',), 1), outv(('origin',), 3)
        dP, dW = outv(('dest',), 1), outv(('dest',), 3)

        def b(k):
            return assign.get(k)
        eqP = b(('cmp', '==') + tuple(sorted([oP, dP], key=repr)))
        eqW = b(('cmp', '==') + tuple(sorted([oW, dW], key=repr)))
        oE = b(('bool', 'empty', oP))
        dE = b(('bool', 'empty', dP))
        wE = b(('bool', 'empty', oW))
        if out[0] != 'ret':
            rule.bad(key, rep.where(f), f.q, 'scalable units but outcome is %r' % (out,))
            continue
        got = out[1]
        if eqP and (eqW or eqW is None):
            rule.check(got == 1.0, key, rep.where(f), f.q, 'same prefix and power -> 1.0', 'same prefix and power but result is %r' % (got,))
            continue

        def F(x):
            return ('call', 'at', ('g', 'nix::util::PREFIX_FACTORS'), x)
        if dE is None or oE is None:
            base = None
        elif dE and not oE:
            base = F(oP)
        elif oE and not dE:
            base = ('bin', '/', 1.0, F(dP))
        elif not oE and not dE:
            base = ('bin', '/', F(oP), F(dP))
        else:
            base = 1.0
        okv = False
        if base is not None and wE is not None:
            if wE:
                okv = _same(got, base)
            else:
                okv = isinstance(got, tuple) and len(got) == 4 and got[0] == 'call' and got[1] in ('pow', 'std::pow') and _same(got[2], base) and 'stoi' in repr(got[3]) and repr(oW) in repr(got[3])
        rule.check(okv, key, rep.where(f), f.q, 'result is %s' % _showv(got),
                   'result %s is not (F[origin prefix] / F[destination prefix]) ^ power for this case (expected base %s, power %s)' % (
                       _showv(got), _showv(base), 'none' if wE else 'stoi(origin power)'))
    if npaths < 5:
        raise AnalysisBroken('getSIScaling: only %d abstract paths' % npaths)
    # isScalable
    g = [x for x in prog.fns('nix::util::isScalable') if 'vector' not in x.sig]
    if len(g) != 1:
        raise AnalysisBroken('anchor vanished: isScalable(string,string)')
    g = g[0]
    it = GenericInterp(prog)
    res = it.enumerate(g, this=None, args=[('A',), ('B',)])
    for assign, out, log, fields in res:
        key = 'isScalable|' + ','.join('%s=%d' % (_short(k), int(v)) for k, v in sorted(assign.items(), key=repr))
        siA = assign.get(('bool', 'nix::util::isSIUnit', ('A',)))
        siB = assign.get(('bool', 'nix::util::isSIUnit', ('B',)))
        uA, wA = outv(('A',), 2), outv(('A',), 3)
        uB, wB = outv(('B',), 2), outv(('B',), 3)
        eqU = assign.get(('cmp', '==') + tuple(sorted([uA, uB], key=repr)))
        eqW = assign.get(('cmp', '==') + tuple(sorted([wA, wB], key=repr)))
        if out[0] != 'ret':
            rule.bad(key, rep.where(g), g.q, 'isScalable throws: %r' % (out,))
            continue
        if out[1] is True:
            rule.check(bool(siA and siB and eqU and eqW), key, rep.where(g), g.q, 'true only for two SI units with equal base unit and equal power',
                       'isScalable returns true without establishing: SI(A)=%s SI(B)=%s same-unit=%s same-power=%s' % (siA, siB, eqU, eqW))
        else:
            rule.check(not (siA and siB and eqU and eqW), key, rep.where(g), g.q, 'false only when a condition fails',
                       'isScalable returns false although all conditions hold')
    return rule


UNIT_ALPHABET = set('abcdefghijklmnopqrstuvwxyzABCDEFGHIJKLMNOPQRSTUVWXYZ0123456789^-+*/.\u00b5\u03a9\u00b0%')


def _through_memo(prog, rep, rule, f):
    """memoising wrapper idiom: a static-local table keyed by the arguments in front of the real computation.
    Accepted when the key is injective in (origin, destination); the formula rule is then applied to the wrapped function."""
    sem = Sem(prog)
    statics = [v for v in f.walk() if v.k == 'var' and v.get('storage') == 'static' or (v.k == 'var' and (v.get('kind') == 'staticlocal' or v.get('static')))]
    tables = [v for v in f.walk() if v.k == 'var' and re.search(r'\b(unordered_)?map<', v.get('ctype') or v.get('type') or '') and _is_static(f, v)]
    if not tables:
        return f
    pn = [p['name'] for p in f.params]
    inner = [c for c in f.calls() if (c.callee.get('q') or '').startswith('nix::') and len(real_args(c)) == len(pn) and [a.src(30) for a in real_args(c)] == pn
             and prog.resolve_call(c) and prog.resolve_call(c)[0].body is not None]
    if len(inner) != 1:
        raise AnalysisBroken('getSIScaling keeps a static table but does not forward its arguments to one computation: memo idiom not recognised')
    g = prog.resolve_call(inner[0])[0]
    tname = tables[0].get('name')
    lookups = [c for c in f.calls() if c.callee.get('name') in ('find', 'emplace', 'insert', 'count', 'at', 'operator[]', 'try_emplace') and c.c and unwrap(c.c[0]).src(30) == tname and real_args(c)]
    if not lookups:
        raise AnalysisBroken('getSIScaling: static table %s is never looked up' % tname)
    lv = sem.local_vars(f)
    verdicts = []
    for c in lookups:
        k = unwrap(real_args(c)[0])
        t = term(k)
        if t[0] == 'v' and lv.get(t[1]) is not None and lv[t[1]].c and lv[t[1]].c[0] is not None:
            k = unwrap(lv[t[1]].c[0])
        verdicts.append(_key_injective(k, pn))
    bad = [v for v in verdicts if v[0] is False]
    unk = [v for v in verdicts if v[0] is None]
    if bad:
        rule.bad('getSIScaling|memo-key', rep.where(lookups[0]), f.q, 'results are remembered in %s under a key that is not injective in (origin, destination): %s; the factor of one pair is returned for the other, so '
                 'a->b and b->a are no longer reciprocal' % (tname, bad[0][1]))
    elif unk:
        raise AnalysisBroken('getSIScaling: memo key %s: %s' % (lookups[0].src(40), unk[0][1]))
    else:
        rule.ok('getSIScaling|memo-key', rep.where(lookups[0]), f.q, 'memo table %s is keyed injectively (%s); formula checked on %s' % (tname, verdicts[0][1], g.q))
    return g


def _is_static(f, v):
    return bool(v.get('static') or v.get('storage') == 'static' or v.get('kind') == 'staticlocal' or any(
        r.k == 'ref' and r.decl.get('kind') == 'staticlocal' and r.decl.get('name') == v.get('name') for r in f.walk()))


def _key_injective(k, pn):
    """(True|False|None, why)"""
    src = k.src(80)
    leaves = []

    def flat(n):
        n = unwrap(n)
        if (n.k in ('binop', 'call') and n.get('op') == '+') and len([c for c in n.c if c is not None]) >= 2:
            cs = [c for c in n.c if c is not None]
            for c in cs[-2:]:
                flat(c)
        elif n.k in ('construct', 'cast', 'temp', 'bind') and len([c for c in n.c if c is not None]) == 1:
            flat([c for c in n.c if c is not None][0])
        else:
            leaves.append(n)
    if (k.k in ('call', 'construct') and re.search(r'(make_pair|make_tuple|pair<|tuple<|tie)', (k.callee or {}).get('name', '') + (k.t or ''))):
        args = [a.src(30) for a in real_args(k)] if k.k == 'call' else [c.src(30) for c in k.c if c is not None]
        if all(p in args for p in pn):
            return True, 'pair/tuple of all arguments'
        return False, 'key %s leaves out an argument' % src
    flat(k)
    names = [l.src(30) for l in leaves]
    if not all(p in names for p in pn):
        return False, 'key %s does not contain every argument' % src
    if len(leaves) == len(pn):
        return False, 'the key is the plain concatenation %s ("m" + "mm" equals "mm" + "m")' % src
    # literal separators between the parameters
    idx = [names.index(p) for p in pn]
    for a, b in zip(idx, idx[1:]):
        seps = leaves[min(a, b) + 1:max(a, b)]
        lits = [x for x in seps if x.k in ('str', 'char')]
        if not lits:
            return None, 'cannot judge what separates the arguments in %s' % src
        txt = ''.join(str(x.get('v')) for x in lits)
        if not any(ch not in UNIT_ALPHABET for ch in txt):
            return False, 'the separator "%s" can itself occur in a unit string' % txt
    return True, 'arguments joined with a separator outside the unit alphabet'


def _same(a, b):
    return _norm(a) == _norm(b)


def _norm(v):
    if isinstance(v, tuple):
        return tuple(_norm(x) for x in v)
    return v


def _short(k):
    s = repr(k)
    s = s.replace('nix::util::', '').replace("'", '')
    return s[:80]


def _showv(v):
    s = repr(_norm(v)).replace('nix::util::', '').replace("'", '')
    return s[:160]


def run_sites(prog, rep):
    sem = Sem(prog)
    rule = rep.rule('R-UNIT-SITE', 'conversion sites scale by getSIScaling(position unit, dimension unit) and the scaled value reaches indexOf; tag units are sanitised and SI-checked', floor=9)
    sites = 0
    for fn in sorted(prog.funcs.values(), key=lambda f: (f.file, f.line)):
        if not fn.q.startswith('nix::util::') or fn.body is None:
            continue
        calls = fn.calls(q='nix::util::getSIScaling')
        if not calls:
            continue
        if not any('Dimension' in p['type'] or 'dim' in p['name'] for p in fn.params):
            continue  # converters to a fixed unit (convertToSeconds/Kelvin) are not position->index sites
        fl = Flow(sem, fn)
        for c in calls:
            sites += 1
            a0, a1 = c.c[0], c.c[1]
            o0 = fl.origins(a0)
            o1 = fl.origins(a1)
            dim_like0 = any((o[0] == 'call' and o[1] == 'unit' and _on_dimension(o[2])) or (o[0] == 'param' and 'dim' in o[1]) for o in o0)
            dim_like1 = any((o[0] == 'call' and o[1] == 'unit' and _on_dimension(o[2])) or (o[0] == 'param' and 'dim' in o[1]) for o in o1)
            pos_like0 = any(o[0] == 'param' and 'dim' not in o[1] for o in o0)
            rule.check(dim_like1 and pos_like0 and not dim_like0, '%s%s|getSIScaling-args' % (fn.q, fn.sig), rep.where(c), fn.label(),
                       'getSIScaling(%s, %s): origin = position unit, destination = dimension unit' % (a0.src(), a1.src()),
                       'getSIScaling(%s, %s): arguments are not (position unit, dimension unit) - the factor would be inverted' % (a0.src(), a1.src()))
    if sites < 3:
        raise AnalysisBroken('R-UNIT: only %d getSIScaling call sites found' % sites)
    # scalePositions callers: 3rd arg = caller's units, 4th derives from dimension.unit()
    sp = prog.fn('nix::util::scalePositions')
    for (caller, c) in prog.callers().get(sp.usr, []):
        fl = Flow(sem, caller)
        args = real_args(c)
        o3 = fl.origins(args[3])
        rule.check(any(o[0] == 'call' and o[1] == 'unit' and _on_dimension(o[2]) for o in o3), '%s%s|scalePositions-dim-unit' % (caller.q, caller.sig), rep.where(c), caller.label(),
                   'dimension unit argument derives from dimension.unit()', 'the dim_unit argument %s does not derive from the dimension\'s unit()' % args[3].src())
        o2 = fl.origins(args[2])
        rule.check(any(o[0] == 'param' and 'unit' in o[1] for o in o2), '%s%s|scalePositions-units' % (caller.q, caller.sig), rep.where(c), caller.label(),
                   'position units argument is the caller\'s units parameter')
    # scaled value reaches indexOf
    n_idx = 0
    for fn in sorted(prog.funcs.values(), key=lambda f: (f.file, f.line)):
        if fn.q != 'nix::util::positionToIndex' or fn.body is None:
            continue
        has_unit_param = any(p['name'] in ('unit', 'units') for p in fn.params)
        takes = [p for p in fn.params if 'SampledDimension' in p['type'] or 'RangeDimension' in p['type']]
        if not has_unit_param or not takes:
            continue
        idx = [c for c in fn.calls(name='indexOf')]
        if not idx:
            continue  # delegating overload
        n_idx += 1
        fl = Flow(sem, fn)
        c = idx[0]
        args = real_args(c)
        names = fl.call_names(args[0])
        rule.check('getSIScaling' in names or 'scalePositions' in names, '%s%s|scaled-into-indexOf' % (fn.q, fn.sig), rep.where(c), fn.label(),
                   'the position handed to indexOf is computed from the scaling factor', 'the position handed to indexOf (%s) does not depend on the unit scaling' % args[0].src())
    if n_idx < 4:
        raise AnalysisBroken('R-UNIT: only %d unit-aware positionToIndex bodies found' % n_idx)
    # scalePositions body: outputs depend on getSIScaling
    fl = Flow(sem, sp)
    for pn in ('scaled_starts', 'scaled_ends'):
        lid = [p['lid'] for p in sp.params if p['name'] == pn]
        if not lid:
            raise AnalysisBroken('scalePositions: parameter %s vanished' % pn)
        outs = set()
        fl._local(lid[0], set(), outs, 0)
        rule.check(any(o[0] in ('call',) and o[1] == 'getSIScaling' for o in outs), 'scalePositions|%s' % pn, rep.where(sp), sp.q,
                   '%s is computed from the scaling factor' % pn, '%s does not depend on getSIScaling' % pn)
    # Tag::units / MultiTag::units
    for q in ('nix::Tag::units', 'nix::MultiTag::units'):
        fs = [f for f in prog.fns(q) if f.params and 'vector' in f.params[0]['type']]
        if len(fs) != 1:
            raise AnalysisBroken('anchor vanished: %s(vector<string>)' % q)
        fn = fs[0]
        sink = [c for c in fn.calls(name='units') if (c.callee.get('cls') or '').startswith('nix::base::I')]
        if len(sink) != 1:
            raise AnalysisBroken('%s: backend units sink not found' % q)
        fl = Flow(sem, fn)
        arg = real_args(sink[0])[0]
        names = fl.call_names(arg)
        # the element producer: lambda returning the sanitised unit with the SI guard
        lambdas = [n for n in fn.body.walk() if n.k == 'lambda']
        okl = False
        why = 'no element-wise sanitise-and-check found'
        for lam in lambdas:
            rets = [n for n in lam.walk() if n.k == 'return']
            san = [c for c in lam.walk() if c.k == 'call' and (c.callee or {}).get('q') == 'nix::util::unitSanitizer']
            thr = [n for n in lam.walk() if n.k == 'throw' and 'InvalidUnit' in (n.get('extype') or '')]
            si = [c for c in lam.walk() if c.k == 'call' and (c.callee or {}).get('q') == 'nix::util::isSIUnit']
            if rets and san and thr and si:
                # returned value is the sanitised one, and isSIUnit is applied to it
                sanvars = [v for v in lam.walk() if v.k == 'var' and v.c and v.c[0] is not None and any(x is san[0] for x in v.c[0].walk())]
                if sanvars:
                    sv = ('v', sanvars[0].get('lid'), sanvars[0].get('name'))
                    if all(term(r.c[0]) == sv for r in rets) and any(term(x.c[0]) == sv for x in si):
                        # guard shape: throw under (!isSIUnit) among the conditions
                        iff = thr[0]
                        cond = None
                        for anc in iff.ancestors():
                            if anc.k == 'if':
                                cond = anc.c[2]
                                break
                        if cond is not None and 'isSIUnit' in repr(term(cond)):
                            okl = True
                        else:
                            why = 'InvalidUnit is not thrown under a condition on isSIUnit'
                    else:
                        why = 'the stored element is not the sanitised, SI-checked value'
        rule.check(okl and ('transform' in names or lambdas), '%s|sanitise-and-check' % q, rep.where(sink[0]), fn.label(),
                   'every unit is sanitised and rejected unless SI (or "none"/empty) before it reaches the backend', why)
    return rule


def _on_dimension(call):
    if not call.c:
        return False
    o = unwrap(call.c[0])
    t = (o.t or '')
    return 'Dimension' in t or 'Dimension' in ((call.callee or {}).get('cls') or '')


def run_static_memo(prog, rep):
    """function-static state that remembers the result of a computation is keyed by every argument of that computation"""
    rule = rep.rule('R-MEMO', 'a function-static variable that remembers a computed result is refreshed whenever any argument of that computation differs from the remembered one', floor=1)
    sem = Sem(prog)
    nstat = nmemo = 0
    for f in sorted(prog.funcs.values(), key=lambda f: (f.file, f.line)):
        if f.body is None or not f.file or prog.rel(f.file).startswith('/') or '/test' in f.file:
            continue
        statics = {}
        for r in f.walk():
            if r.k == 'ref' and r.decl.get('kind') == 'staticlocal':
                statics[r.decl.get('lid')] = r.decl.get('name')
        if not statics:
            continue
        nstat += len(statics)
        assigns = [a for a in f.walk() if (a.k == 'assign' or (a.k == 'call' and a.get('op') == '=')) and len(a.c) == 2 and unwrap(a.c[0]).k == 'ref' and unwrap(a.c[0]).decl.get('lid') in statics]
        if not assigns:
            continue
        # which statics remember which expression
        remembered = {}
        for a in assigns:
            remembered.setdefault(unwrap(a.c[0]).decl.get('lid'), []).append(a)
        for a in assigns:
            calls = [c for c in a.c[1].walk() if c.k == 'call' and (c.callee.get('q') or '').startswith('nix::') and not c.get('op') and real_args(c)]
            if not calls:
                continue
            g = calls[0]
            nmemo += 1
            sname = statics[unwrap(a.c[0]).decl.get('lid')]
            conds = [x.c[2] for x in a.ancestors() if x.k == 'if' and x.c[2] is not None]
            compared = []
            for cn in conds:
                for b in cn.walk():
                    if (b.k == 'binop' or b.k == 'call') and b.get('op') in ('!=', '==') and len(b.c) == 2:
                        compared.append((term(unwrap(b.c[0])), term(unwrap(b.c[1]))))
            missing = []
            for arg in real_args(g):
                ta = term(unwrap(arg))
                if ta[0] == 'k':
                    continue
                keyed = False
                for (l, r) in compared:
                    other = r if l == ta else (l if r == ta else None)
                    if other is not None and other[0] == 'v' and other[1] in statics:
                        # that static must be refreshed with this argument
                        if any(term(unwrap(x.c[1])) == ta for x in remembered.get(other[1], [])):
                            keyed = True
                if not keyed:
                    missing.append(arg.src(30))
            rule.check(not missing, '%s|%s' % (re.sub(r'<.*', '', f.q), sname), rep.where(a), f.label(), '%s = %s(...) is refreshed when any argument changes' % (sname, g.callee.get('name')),
                       '%s remembers %s(%s) but is not refreshed when %s changes: a later call with the same %s and another %s gets the remembered result' % (
                           sname, g.callee.get('name'), ', '.join(x.src(20) for x in real_args(g)), ' / '.join(missing),
                           ', '.join(x.src(20) for x in real_args(g) if x.src(30) not in missing) or 'other arguments', ' / '.join(missing)))
    rule.ok('static-locals|scan', 'src', 'all functions', '%d function-static variables seen, %d remember a computed result' % (nstat, nmemo), nontrivial=False)
    if nstat < 1:
        raise AnalysisBroken('R-MEMO: no function-static variable found at all (anchors: unit regexes, type-name tables)')
    return rule


def _flat(t):
    out = []

    def w(x):
        if isinstance(x, tuple):
            out.append(x)
            for y in x:
                w(y)
    w(t)
    return out


def _co_assigned(f, factor_var, key_vars, units_name):
    """factor_var and one of key_vars are assigned only inside one and the same if-body, the key from units[...]"""
    par = {}
    for n in f.walk():
        for c in n.c:
            if c is not None:
                par[c.id] = n

    def encl_if(n):
        while n.id in par:
            n = par[n.id]
            if n.k == 'if':
                return n.id
        return None
    asg = {}
    for n in f.walk():
        if n.k == 'assign' or (n.k == 'call' and n.get('op') == '='):
            t = unwrap(n.c[0])
            if t is not None and t.k == 'ref':
                asg.setdefault(t.decl.get('name'), []).append(n)
    fa = asg.get(factor_var) or []
    for kv in key_vars:
        ka = asg.get(kv) or []
        if len(fa) == 1 and len(ka) == 1 and encl_if(fa[0]) is not None and encl_if(fa[0]) == encl_if(ka[0]) and units_name in ka[0].c[1].src(40) \
                and 'getSIScaling' in fa[0].c[1].src(60):
            return True
    return False


def run_scale_positions(prog, rep):
    """scalePositions: a position is multiplied by getSIScaling(position unit, dimension unit) unless one of the units is absent/'none' or both are the very same string"""
    rule = rep.rule('R-UNIT-SCALEPOS', 'scalePositions multiplies every position by getSIScaling(its unit, dimension unit) unless a unit is missing or "none", or the two strings are equal', floor=1)
    f = prog.fn('nix::util::scalePositions')
    it = GenericInterp(prog, watch=lambda n: (n.callee or {}).get('name') in ('getSIScaling',))
    it.loop_once = True
    it.loop_fork = False
    it.loop_carried = True
    res = it.enumerate(f, this=None, args=[(p['name'],) for p in f.params])
    pn = [p['name'] for p in f.params]     # starts, ends, units, dim_unit, scaled_starts, scaled_ends
    U = ('call', 'std::vector<std::basic_string<char>>::operator[]', (pn[2],), ('iter', 'i'))
    probs = []
    nscaled = nplain = 0
    for assign, out, log, fields in res:
        if out[0] != 'ret':
            continue
        stores = [l for l in log if l[0] == 'store' and l[1][0] == 'elem' and l[1][1][0] == 'var' and l[1][1][2] in (pn[4], pn[5])]
        for s in stores:
            v = s[3]
            if not (isinstance(v, tuple) and v[:2] == ('bin', '*')):
                probs.append('%s[i] is not position * factor (%r)' % (s[1][1][2], v))
                continue
            fac = v[3] if pn[0] in repr(v[2]) or pn[1] in repr(v[2]) else v[2]
            if isinstance(fac, tuple) and fac[:2] == ('call', 'nix::util::getSIScaling'):
                nscaled += 1
                if not (len(fac) == 4 and 'units' in repr(fac[2]) and fac[3] == (pn[3],)):
                    probs.append('getSIScaling is called with %r' % (fac[2:],))
                continue
            carried = isinstance(fac, tuple) and fac[:1] == ('carried',)
            if fac in (1, 1.0) or carried:
                nplain += 1
                beyond = [v2 for k, v2 in assign.items() if k[0] == 'cmp' and k[1] == '<' and k[2] == ('iter', 'i') and k[3] == ('call', 'size', (pn[2],))]
                none_u = [v2 for k, v2 in assign.items() if k[0] == 'cmp' and k[1] == '==' and 'none' in k and pn[2] in repr(k)]
                none_d = [v2 for k, v2 in assign.items() if k[0] == 'cmp' and k[1] == '==' and 'none' in k and (pn[3],) in k]
                same = [v2 for k, v2 in assign.items() if k[0] == 'cmp' and k[1] == '==' and (pn[3],) in k and pn[2] in repr(k) and 'none' not in k]
                if (beyond and beyond[0] is False) or (none_u and none_u[0]) or (none_d and none_d[0]) or (same and same[0] and not carried):
                    continue        # (an entry without a unit of its own takes 1 or the factor of its predecessor)
                if carried:
                    # memo idiom: the inherited factor is used because units[i] equals the remembered unit, and the remembered unit
                    # is only ever set together with the factor, from the same units[i]
                    memo = [k for k, v2 in assign.items() if k[0] == 'cmp' and k[1] == '==' and v2 and pn[2] in repr(k) and 'carried' in repr(k)]
                    if memo and _co_assigned(f, fac[1], [x[1] for x in _flat(memo[0]) if isinstance(x, tuple) and x[:1] == ('carried',)], pn[2]):
                        continue
                why = [repr(k)[:90] for k, v2 in assign.items() if v2 and (pn[2] in repr(k) or pn[3] in repr(k)) and 'size' not in repr(k)]
                probs.append('a position with a unit is left unscaled (factor %s) although the dimension has a unit too (decided by %s); note that units differing only in case are different units (ms / Ms)' % ('inherited from an earlier entry' if carried else '1', why[:2] or 'nothing'))
                continue
            probs.append('factor %r is neither 1 nor getSIScaling(unit, dimension unit)' % (fac,))
    if nscaled == 0 or nplain == 0:
        probs.append('paths do not cover scaled and unscaled positions (%d/%d)' % (nscaled, nplain))
    rule.check(not probs, 'scalePositions|factor', rep.where(f), f.label(), 'factor = getSIScaling(units[i], dim_unit), or 1 when a unit is missing/"none" (%d paths)' % len(res), '; '.join(sorted(set(probs))[:2]))
    return rule


# function-static state of the library; each confirmed by reading
STATIC_STATE = {
    ('nix::hdf5::linkTypeToString', 'type_names'): 'constant table of the enumerator names, never written after its initialisation',
    ('nix::string_to_data_type', 'type_map'): 'constant name -> DataType table, never written after its initialisation',
    ('nix::util::createId', 'gen'): 'the id generator itself (R-ID decides what it is seeded from)',
}


def run_no_static_state(prog, rep):
    """no library function keeps function-static (or thread_local) state that it writes after initialisation: such state outlives
    the file content it was computed from (resize, new ticks, another handle, another file with the same id)"""
    rule = rep.rule('R-NOSTATIC', 'library functions keep no function-static / thread_local state that is written after its initialisation (the three tabled tables / generators are the only static locals)', floor=2)
    n = 0
    for f in sorted(prog.funcs.values(), key=lambda f: (f.file, f.line)):
        if f.body is None or not f.file or prog.rel(f.file).startswith('/') or '/test' in f.file:
            continue
        statics = {}
        for r in f.walk():
            if r.k == 'ref' and r.decl.get('kind') == 'staticlocal':
                statics[r.decl.get('lid')] = r.decl.get('name')
        # state computed from plain values only (a memo of a pure function of its text / number arguments) cannot go stale with
        # the file; R-MEMO decides whether such a memo is keyed completely. Only functions that see file-backed entities count here.
        entity_fn = any(re.search(r'nix::(DataArray|DataFrame|Tag|MultiTag|Dimension|\w+Dimension|Block|Section|Source|Group|Feature|Property|File|DataView)\b', p['type']) for p in f.params) or \
            bool(f.cls and not f.cls.startswith('nix::util'))
        for lid, name in sorted(statics.items(), key=lambda kv: kv[1]):
            if not entity_fn and (re.sub(r'<.*', '', f.q), name) not in STATIC_STATE:
                continue
            n += 1
            key = '%s|%s' % (re.sub(r'<.*', '', f.q), name)
            writes = Sem(prog).mods(f).get(lid) or []
            tab = STATIC_STATE.get((re.sub(r'<.*', '', f.q), name))
            if writes and not (tab and name == 'gen'):
                rule.bad(key, rep.where(writes[0]), f.label(), 'static local %s is written at run time (%s): what it remembers is not refreshed when the entity it was computed from changes (resize, new descriptors, other handle, other file)' % (name, writes[0].src(40)))
            elif tab:
                rule.ok(key, rep.where(f), f.label(), 'tabled: ' + tab, nontrivial=False)
            else:
                rule.bad(key, rep.where(f), f.label(), 'static local %s is not in the table of reviewed function-static state' % name)
    if n < 2:
        raise AnalysisBroken('R-NOSTATIC: only %d static locals seen' % n)
    return rule
