"""R-VALID (C19): rule table, message channels, walk completeness, sticky verdicts."""
import re

from ..extract import AnalysisBroken
from ..sem import Sem, Flow, term, unwrap, real_args

LEVELS = {'nix::valid::must': 'must', 'nix::valid::should': 'should', 'nix::valid::could': 'could'}


def find_in(t, tag):
    """first sub-term with the given head"""
    if isinstance(t, tuple):
        if t and t[0] == tag:
            return t
        for x in t:
            r = find_in(x, tag)
            if r is not None:
                return r
    return None


def rows_of(fn):
    """[(level, getter name, predicate class, predicate args term, parent row index, node)]"""
    rows = []
    index = {}
    for c in fn.calls():
        lv = LEVELS.get(c.callee.get('q'))
        if not lv:
            continue
        g = find_in(term(c.c[1]), 'fn')
        getter = g[1].split('::')[-1] if g else None
        p = find_in(term(c.c[2]), 'new')
        pred = p[1].split('::')[-1] if p else None
        pargs = p[2:] if p else ()
        parent = None
        for anc in c.ancestors():
            if anc.k == 'call' and LEVELS.get((anc.callee or {}).get('q')):
                parent = index.get(anc.id)
                break
        index[c.id] = len(rows)
        rows.append((lv, getter, pred, pargs, parent, c))
    return rows


REQUIRED = [
    # (validate overload: param type substring, level, getter, predicate, parent (level, getter, predicate) or None, what)
    ('DataArray', 'must', 'dimensionCount', 'isEqual', None, 'number of dimension descriptors equals the data rank'),
    ('DataArray', 'must', 'dimensions', 'dimTicksMatchData', 'any', 'number of ticks equals the data length'),
    ('DataArray', 'must', 'dimensions', 'dimLabelsMatchData', 'any', 'number of labels equals the data length'),
    ('DataArray', 'must', 'dimensions', 'dimDataFrameTicksMatchData', 'any', 'number of data-frame rows equals the data length'),
    ('DataArray', 'should', 'unit', 'isValidUnit', ('could', 'unit', 'notFalse'), 'array unit is SI (soft)'),
    ('DataArray', 'should', 'expansionOrigin', 'notFalse', ('could', 'polynomCoefficients', 'notEmpty'), 'coefficients without origin (soft)'),
    ('DataArray', 'should', 'polynomCoefficients', 'notEmpty', ('could', 'expansionOrigin', 'notFalse'), 'origin without coefficients (soft)'),
    ('RangeDimension', 'must', 'ticks', 'isSorted', None, 'ticks sorted'),
    ('SampledDimension', 'must', 'samplingInterval', 'isGreater', None, 'sampling interval positive'),
    ('SampledDimension', 'should', 'unit', 'isAtomicUnit', ('could', 'offset', 'notFalse'), 'offset without unit (soft)'),
    ('const nix::Tag', 'must', 'references', 'tagUnitsMatchRefsUnits', 'any', 'tag units convertible to the referenced dimensions\' units'),
    ('MultiTag', 'must', 'references', 'tagUnitsMatchRefsUnits', 'any', 'multi-tag units convertible to the referenced dimensions\' units'),
    ('MultiTag', 'must', 'positions', 'notFalse', None, 'multi-tag has positions'),
    ('Feature', 'must', 'data', 'notFalse', None, 'feature has data'),
    ('Property', 'should', 'unit', 'notFalse', ('could', 'valueCount', 'notFalse'), 'values without unit (soft)'),
]


def run_table(prog, rep):
    rule = rep.rule('R-VALID-TAB', 'validate(...) overloads contain every rule named by the property with its level (hard=must, soft=should)', floor=15)
    overloads = [f for f in prog.fns('nix::valid::validate')]
    if len(overloads) < 10:
        raise AnalysisBroken('R-VALID: only %d validate overloads found' % len(overloads))
    for (ty, lv, getter, pred, parent, what) in REQUIRED:
        fs = [f for f in overloads if ty in f.sig and ('MultiTag' in ty or 'MultiTag' not in f.sig or 'Tag' not in ty)]
        if ty == 'const nix::Tag':
            fs = [f for f in overloads if f.sig.startswith('(const nix::Tag &')]
        if len(fs) != 1:
            raise AnalysisBroken('R-VALID: cannot find the validate overload for %s (%d candidates)' % (ty, len(fs)))
        f = fs[0]
        rows = rows_of(f)
        hits = [r for r in rows if r[1] == getter and r[2] == pred]
        key = '%s|%s|%s' % (ty.replace('const nix::', ''), getter, pred)
        if not hits:
            rule.bad(key, rep.where(f), f.label(), 'rule missing: %s (%s %s %s)' % (what, lv, getter, pred))
            continue
        r = ([h for h in hits if h[0] == lv] or hits)[0]
        problems = []
        if r[0] != lv:
            problems.append('level is %s, the property requires %s' % (r[0], 'an error (must)' if lv == 'must' else 'a warning (should), never an error'))
        if parent is None:
            if r[4] is not None:
                problems.append('rule is nested under %s(%s, %s): it is skipped when that fails' % (rows[r[4]][0], rows[r[4]][1], rows[r[4]][2]))
        elif parent == 'any':
            # every ancestor must be could/must (a failing could only skips); fine
            pass
        else:
            pr = rows[r[4]] if r[4] is not None else None
            if pr is None or (pr[0], pr[1], pr[2]) != parent:
                problems.append('expected under %s(%s, %s)' % parent)
        # predicate arguments that carry meaning
        if pred == 'isGreater' and r[3] != (('k', 0),):
            problems.append('sampling interval compared with %r, not 0' % (r[3],))
        if pred == 'isEqual' and getter == 'dimensionCount' and 'dataExtent' not in repr(r[3]):
            problems.append('dimension count compared with %r, not the data rank' % (r[3],))
        if pred == 'tagUnitsMatchRefsUnits' and "'units'" not in repr(r[3]):
            problems.append('predicate is not built from the tag\'s units')
        rule.check(not problems, key, rep.where(r[5]), f.label(), '%s: %s(%s, %s)' % (what, r[0], getter, pred), '; '.join(problems))
    return rule


def run_channels(prog, rep):
    rule = rep.rule('R-VALID-CHAN', 'must -> error slot, should -> warning slot, could -> no message; concat keeps the slots apart', floor=8)
    n = 0
    for q, want in (('nix::valid::must', ('Message', 'none_t')), ('nix::valid::should', ('none_t', 'Message')), ('nix::valid::could', None)):
        insts = prog.fns(q)
        if not insts:
            raise AnalysisBroken('no instantiation of %s' % q)
        bad = []
        for f in insts:
            lam = [x for x in f.body.walk() if x.k == 'lambda']
            if len(lam) != 1:
                bad.append('%s: lambda not found' % f.sig[:60])
                continue
            # the failing return: the first return inside an if whose condition mentions the check
            rets = [x for x in lam[0].walk() if x.k == 'return']
            fail = None
            for r in rets:
                for anc in r.ancestors():
                    if anc.k == 'if':
                        fail = r
                        break
                if fail is not None:
                    break
            if fail is None:
                bad.append('no failing return')
                continue
            cons = [x for x in fail.walk() if x.k == 'construct' and (x.callee or {}).get('cls') == 'nix::valid::Result']
            sigs = [(x.callee or {}).get('sig', '') for x in cons]
            real = [s for s in sigs if 'Result &' not in s]
            if want is None:
                realc = [x for x in cons if 'Result &' not in (x.callee or {}).get('sig', '')]
                if not realc or not all(all(a is None or a.k == 'defarg' for a in x.c) for x in realc):
                    bad.append('could() produces a message on failure: %s' % real)
            else:
                okc = any(re.search(r'\(const (nix::valid::)?%s &, (nix::)?%s\)' % want if want[0] == 'Message' else r'\((nix::)?%s, const (nix::valid::)?%s &\)' % want, s) for s in real)
                if not okc:
                    bad.append('failure builds Result%s' % real)
        n += len(insts)
        rule.check(not bad, '%s|failure-slot' % q, rep.where(insts[0]), q,
                   '%d instantiation(s): failure goes to %s' % (len(insts), 'no slot' if want is None else ('the error slot' if want[0] == 'Message' else 'the warning slot')),
                   '; '.join(sorted(set(bad))[:3]))
    # Result constructors and concat
    ctors = {f.sig: f for f in prog.fns('nix::valid::Result::Result')}

    def delegates(sig, first_is_value):
        f = ctors.get(sig)
        if f is None:
            return False
        for i in f.inits:
            if i.get('what') == 'delegating' and i.c and i.c[0] is not None:
                args = [a for a in unwrap(i.c[0]).c if a is not None]
                if len(args) == 2:
                    a0 = repr(term(args[0]))
                    a1 = repr(term(args[1]))
                    pv = "('v', %d" % f.params[0 if first_is_value else 1]['lid']
                    return (pv in a0 and pv not in a1) if first_is_value else (pv in a1 and pv not in a0)
        return False
    for sig, first in (('(const nix::valid::Message &, nix::none_t)', True), ('(nix::none_t, const nix::valid::Message &)', False),
                       ('(const std::vector<Message> &, nix::none_t)', True), ('(nix::none_t, const std::vector<Message> &)', False)):
        if sig not in ctors:
            alt = [s for s in ctors if s.replace('nix::valid::', '').replace('nix::', '') == sig.replace('nix::valid::', '').replace('nix::', '')]
            if alt:
                sig2 = alt[0]
            else:
                raise AnalysisBroken('Result constructor %s not found (have %s)' % (sig, sorted(ctors)))
        else:
            sig2 = sig
        rule.check(delegates(sig2, first), 'Result%s|slot' % sig, rep.where(ctors[sig2]), 'nix::valid::Result::Result',
                   'value is forwarded to the %s position' % ('errors' if first else 'warnings'),
                   'constructor forwards its message to the wrong slot')
    main = [f for s, f in ctors.items() if s.count('vector') == 2]
    okm = False
    if main:
        asg = {}
        for a in main[0].walk():
            if (a.k == 'call' and a.get('op') == '=') or a.k == 'assign':
                t = term(a.c[0])
                v = term(a.c[1])
                if t[0] in ('f', 'mem') and v[0] == 'v':
                    asg[t[1]] = v[2]
        p0, p1 = main[0].params[0]['name'], main[0].params[1]['name']
        okm = asg.get('errors') == p0 and asg.get('warnings') == p1
    rule.check(okm, 'Result(vector,vector)|slots', rep.where(main[0]) if main else 'src/valid/result.cpp:0', 'nix::valid::Result::Result', 'errors := first argument, warnings := second argument')
    cc = prog.fn('nix::valid::Result::concat')
    ins = [c for c in cc.calls(name='insert') if c.get('member')]
    okc = len(ins) == 2
    for c in ins:
        t = term(c)
        dst = t[2]
        src_ok = dst[0] == 'f' and ("('mem', '%s'" % dst[1]) in repr(t[3:])
        okc = okc and src_ok
    rule.check(okc, 'Result::concat|slots', rep.where(cc), cc.q, 'concat appends errors to errors and warnings to warnings', 'concat mixes the error and warning vectors')
    for nm, fld in (('getErrors', 'errors'), ('getWarnings', 'warnings')):
        g = prog.fn('nix::valid::Result::' + nm)
        rets = [x for x in g.walk() if x.k == 'return']
        rule.check(len(rets) == 1 and term(rets[0].c[0]) == ('f', fld), 'Result::%s|slot' % nm, rep.where(g), g.q, '%s returns %s' % (nm, fld))
    # validator(): concatenates every condition's result
    v = prog.fn('nix::valid::validator')
    loops = [x for x in v.body.walk() if x.k == 'rangefor']
    okv = False
    if len(loops) == 1:
        lp = loops[0]
        rng = [x for x in lp.c[1].walk() if x.k == 'ref' and x.decl.get('lid') == v.params[0]['lid']] if lp.c[1] is not None else []
        body_calls = [c for c in lp.c[7].walk() if c.k == 'call' and (c.callee or {}).get('name') == 'concat']
        okv = bool(rng) and bool(body_calls) and not any(x.k in ('break', 'return') for x in lp.c[7].walk())
    rule.check(okv, 'validator|all-conditions', rep.where(v), v.q, 'validator runs every condition and concatenates all results')
    return rule


WALK = [
    # (collection method, validated parameter type substring, guard enumerator or None)
    ('blocks', 'const nix::Block &', None),
    ('dataArrays', 'const nix::DataArray &', None),
    ('dimensions', 'const nix::RangeDimension &', 'nix::DimensionType::Range'),
    ('dimensions', 'const nix::SetDimension &', 'nix::DimensionType::Set'),
    ('dimensions', 'const nix::SampledDimension &', 'nix::DimensionType::Sample'),
    ('multiTags', 'const nix::MultiTag &', None),
    ('features<multiTags', 'const nix::Feature &', None),
    ('tags', 'const nix::Tag &', None),
    ('features<tags', 'const nix::Feature &', None),
    ('findSources', 'const nix::Source &', None),
    ('findSections', 'const nix::Section &', None),
    ('properties', 'const nix::Property &', None),
]


def run_walk(prog, rep):
    sem = Sem(prog)
    rule = rep.rule('R-VALID-WALK', 'File::validate validates every block, array, Range/Set/Sampled dimension, tag, multi-tag, their features, every source and section (unbounded), every property', floor=12)
    f = prog.fn('nix::File::validate')
    fl = Flow(sem, f)
    rets = [x for x in f.walk() if x.k == 'return']
    if len(rets) != 1:
        raise AnalysisBroken('File::validate: single return expected')
    resv = term(rets[0].c[0])
    found = []
    for c in f.calls(q='nix::valid::validate'):
        # enclosing range-for loops, innermost first
        chain = []
        guards = []
        for anc in c.ancestors():
            if anc.k == 'rangefor':
                src = fl.call_names(anc.c[1]) if anc.c[1] is not None else set()
                src = set(s for s in src if s not in ('begin', 'end'))
                chain.append(src)
            if anc.k == 'if':
                guards.append(repr(term(anc.c[2])))
        # result is concatenated into the returned object
        par = c.p
        concat_ok = False
        x = c
        for anc in c.ancestors():
            if anc.k == 'call' and (anc.callee or {}).get('name') == 'concat' and anc.c and term(anc.c[0]) == resv:
                concat_ok = True
                break
            if anc.k in ('compound', 'rangefor', 'if'):
                break
        found.append((c.callee.get('sig'), chain, guards, concat_ok, c))
    for (coll, ptype, guard) in WALK:
        outer = None
        if '<' in coll:
            coll, outer = coll.split('<')
        hit = None
        for sig, chain, guards, cok, c in found:
            if ptype not in sig:
                continue
            if not chain or coll not in chain[0]:
                continue
            if outer and (len(chain) < 2 or outer not in chain[1]):
                continue
            if guard and not any(guard in g and "'=='" in g for g in guards):
                continue
            hit = (sig, chain, guards, cok, c)
            break
        key = 'File::validate|%s%s|%s' % (coll, '<' + outer if outer else '', ptype.replace('const nix::', '').replace(' &', ''))
        if hit is None:
            rule.bad(key, rep.where(f), f.q, 'no valid::validate(%s) inside a loop over %s()%s' % (ptype, coll, ' of each of ' + outer + '()' if outer else ''))
            continue
        problems = []
        if not hit[3]:
            problems.append('the result is not concatenated into the returned Result')
        # loops must not stop early
        for anc in hit[4].ancestors():
            if anc.k == 'rangefor' and any(x.k in ('break',) or (x.k == 'return') for x in anc.c[7].walk()):
                problems.append('a loop of the walk can stop early')
        rule.check(not problems, key, rep.where(hit[4]), f.q, 'every element of %s() is validated as %s' % (coll, ptype), '; '.join(problems))
    # unbounded searches: findSources / findSections called with default arguments only
    for nm in ('findSources', 'findSections'):
        cs = f.calls(name=nm)
        okd = bool(cs) and all(all(a is None or a.k == 'defarg' for a in real_args(c)) for c in cs)
        rule.check(okd, 'File::validate|%s-unbounded' % nm, rep.where(cs[0]) if cs else rep.where(f), f.q, '%s() is called with its defaults (accept all, unlimited depth)' % nm,
                   '%s is called with an explicit filter or depth limit: nested entities would be skipped' % nm)
    return rule


def run_sticky(prog, rep):
    rule = rep.rule('R-VALID-STICKY', 'predicate functors: a verdict assigned inside a loop is not overwritten by a later iteration without being tested', floor=4)
    n = 0
    for f in sorted(prog.funcs.values(), key=lambda f: (f.file, f.line)):
        if not f.q.startswith('nix::valid::') or f.name != 'operator()' or f.body is None or f.cfg is None:
            continue
        loops = [x for x in f.body.walk() if x.k in ('for', 'while', 'rangefor', 'do')]
        if not loops:
            continue
        cfg = f.cfg
        bools = [v for v in f.body.walk() if v.k == 'var' and (v.get('type') or '').replace('const ', '') == 'bool']
        for v in bools:
            lid = v.get('lid')
            asg = []
            for a in f.body.walk():
                if a.k == 'assign' and a.get('op') == '=' and unwrap(a.c[0]).k == 'ref' and unwrap(a.c[0]).decl.get('lid') == lid:
                    if any(anc in loops for anc in a.ancestors()):
                        asg.append(a)
            if not asg:
                continue
            n += 1
            vt = ('v', lid, v.get('name'))
            # blocks whose branch condition mentions the variable
            testers = set()
            for b in cfg.blocks.values():
                if b.cond is not None and f.nodes.get(b.cond) is not None and _mentions(term(f.nodes[b.cond]), vt):
                    testers.add(b.id)
            bad = None
            for a in asg:
                rhs = term(a.c[1])
                if _mentions(rhs, vt):
                    continue  # conjunctive / accumulating update
                pa = cfg.pos.get(a.id)
                if pa is None:
                    continue
                for a2 in asg:
                    p2 = cfg.pos.get(a2.id)
                    if p2 is None:
                        continue
                    # a path from a to a2 (a later evaluation) that avoids every test of the variable
                    starts = [s for s in cfg.blocks[pa[0]].succ if s is not None] if pa[0] not in testers else []
                    reach = any(_reach(cfg, s, p2[0], testers) for s in starts)
                    if reach:
                        bad = (a, a2)
                        break
                if bad:
                    break
            rule.check(bad is None, '%s|%s' % (f.q, v.get('name')), rep.where(bad[0] if bad else v), f.label(),
                       'verdict %s is tested before it can be reassigned' % v.get('name'),
                       'verdict %s assigned at line %d can be overwritten at line %d in a later iteration without having been tested: only the last element decides' % (
                           v.get('name'), bad[0].l if bad else 0, bad[1].l if bad else 0))
    if n < 4:
        raise AnalysisBroken('R-VALID-STICKY: only %d loop verdict variables found' % n)
    return rule


def _mentions(t, v):
    if t == v:
        return True
    if isinstance(t, tuple):
        return any(_mentions(x, v) for x in t)
    return False


def _reach(cfg, a, b, avoid):
    if a in avoid:
        return False
    seen = set()
    st = [a]
    while st:
        x = st.pop()
        if x in seen or x in avoid:
            continue
        seen.add(x)
        if x == b:
            return True
        for s in cfg.blocks[x].succ:
            if s is not None:
                st.append(s)
    return False


def run_cover(prog, rep):
    """Element loops of the predicate functors examine every element: an early exit (break / return
    inside the loop) is allowed only once the verdict is known to fail, or for the tabled reason
    'descriptor index beyond the data rank' (that breach is reported by the rank rule)."""
    sem = Sem(prog)
    rule = rep.rule('R-VALID-COVER', 'predicate loops leave early only on a failed verdict (or for a descriptor beyond the data rank)', floor=3)
    n = 0
    for f in sorted(prog.funcs.values(), key=lambda f: (f.file, f.line)):
        if not f.q.startswith('nix::valid::') or f.name != 'operator()' or f.body is None or f.cfg is None:
            continue
        loops = [x for x in f.body.walk() if x.k in ('for', 'while', 'rangefor', 'do')]
        if not loops:
            continue
        bools = {v.get('lid'): v.get('name') for v in f.body.walk() if v.k == 'var' and (v.get('type') or '').replace('const ', '') == 'bool'}
        # which value of a verdict variable means 'check failed' (from how it is returned)
        failing = {}
        for r in [x for x in f.body.walk() if x.k == 'return' and x.c and x.c[0] is not None]:
            t = term(r.c[0])
            if t[0] == 'v' and t[1] in bools:
                failing[t[1]] = False
            elif t[0] == 'u' and t[1] == '!' and t[2][0] == 'v' and t[2][1] in bools:
                failing[t[2][1]] = True
        for lp in loops:
            body = lp.c[-1] if lp.k != 'do' else lp.c[0]
            exits = []
            for x in body.walk():
                if x.k in ('break', 'return'):
                    # a break that belongs to an inner loop/switch of this loop is not an exit of this loop
                    owner = None
                    for anc in x.ancestors():
                        if anc.k in ('for', 'while', 'rangefor', 'do', 'switch'):
                            owner = anc
                            break
                    if x.k == 'break' and owner is not lp:
                        continue
                    exits.append(x)
            n += 1
            for x in exits:
                facts = sem.facts_at(f, x.id)
                guarded_by_verdict = any(t[0] == 'v' and t[1] in failing and pol is failing[t[1]] for (t, pol) in facts)
                beyond_rank = any(t[0] == 'b' and t[1] in ('>=', '>') and pol and 'dataExtent' in repr(t[3]) and "'size'" in repr(t[3]) for (t, pol) in facts)
                returns_fail = x.k == 'return' and x.c and x.c[0] is not None and term(x.c[0]) == ('k', False)
                rule.check(guarded_by_verdict or beyond_rank or returns_fail, '%s|exit@%s' % (f.q, _cond_shape(facts)), rep.where(x), f.label(),
                           'early exit only on a failed verdict / descriptor beyond the rank',
                           'the element loop is left early (line %d) under %s although the verdict has not failed: the remaining elements are never examined' % (
                               x.l, [(_short_t(t), pol) for (t, pol) in facts][-2:]))
            if not exits:
                rule.ok('%s|loop@%d|no-early-exit' % (f.q, loops.index(lp)), rep.where(lp), f.label(), 'loop has no early exit', nontrivial=False)
    if n < 3:
        raise AnalysisBroken('R-VALID-COVER: only %d predicate loops found' % n)
    return rule


def _mentions_any(t, lids):
    if isinstance(t, tuple):
        if len(t) >= 2 and t[0] == 'v' and t[1] in lids:
            return True
        return any(_mentions_any(x, lids) for x in t)
    return False


def _short_t(t):
    return repr(t).replace('nix::', '')[:100]


def _cond_shape(facts):
    """a stable (name-free) key for an exit: the operators/callees of its innermost guard"""
    import re as _re
    if not facts:
        return 'unguarded'
    s = sorted(repr(t) for (t, pol) in facts)[-1]
    names = _re.findall(r"'([A-Za-z_:<>=!]+)'", s)
    return '-'.join(x for x in names if x not in ('v', 'm', 'b', 'c', 'k', 'op', 'u', 'e', 'f', 'mem', 'this'))[:60] or 'cond'


def run_conditions(prog, rep):
    """must()/should(): a getter that throws counts as a failed check (the message is produced), and the check is applied to the value"""
    from ..sem import term, unwrap
    rule = rep.rule('R-VALID-COND', 'must()/should(): the failing result is returned when the getter throws or the check rejects the value; error for must, warning for should', floor=2)
    seen = {}
    for f in sorted(prog.funcs.values(), key=lambda f: (f.q, f.sig)):
        base = None
        for b in ('nix::valid::must', 'nix::valid::should'):
            if f.q == b or f.q.startswith(b + '<'):
                base = b
        if base is None or f.body is None:
            continue
        # only the getter-based overloads (pointer-to-member second parameter)
        if len(f.params) < 3 or '::*' not in f.params[1]['type']:
            continue
        probs = []
        tries = [n for n in f.walk() if n.k == 'try']
        if len(tries) != 1:
            probs.append('expected one try block around the getter')
        else:
            t = tries[0]
            catches = [n for n in t.walk() if n.k == 'catch']
            flags = set()
            fails_in_catch = False
            for c in catches:
                for a in c.walk():
                    if a.k == 'assign' and term(unwrap(a.c[1])) == ('k', True):
                        l = term(unwrap(a.c[0]))
                        if l[0] == 'v':
                            flags.add(l)
                    if a.k == 'return' and 'Message' in a.src(80):
                        fails_in_catch = True
            if not catches:
                probs.append('an exception of the getter is not caught')
            # the failing return after the try
            fail_ifs = [i for i in f.walk() if i.k == 'if' and i.id > t.id and i.c[3] is not None and any(r.k == 'return' and 'Message' in r.src(80) for r in i.c[3].walk())]
            if not fail_ifs and not fails_in_catch:
                probs.append('no failing result is produced')
            for i in fail_ifs:
                ct = term(unwrap(i.c[2]))
                parts = []

                def disj(x):
                    if isinstance(x, tuple) and x[:2] == ('b', '||'):
                        disj(x[2]); disj(x[3])
                    else:
                        parts.append(x)
                disj(ct)
                by_flag = any(p in flags for p in parts)
                # a flag that is also assigned from the check inside the try does not stand for "the getter threw" any more
                reassigned = [a for a in t.c[0].walk() if a.k == 'assign' and term(unwrap(a.c[0])) in flags] if t.c and t.c[0] is not None else []
                by_check = any(isinstance(p, tuple) and p[:2] == ('u', '!') and isinstance(p[2], tuple) and p[2][:2] == ('op', '()') for p in parts) or bool(reassigned)
                if not (by_flag or fails_in_catch):
                    probs.append('a getter that throws is not reported: the catch handler sets nothing that leads to the failing result (the broken entity passes validation)')
                elif catches and not flags and not fails_in_catch:
                    probs.append('a getter that throws is not reported')
                if not by_check:
                    probs.append('the check is not applied to the value')
                ret = [r for r in i.c[3].walk() if r.k == 'return'][0]
                args = [c for c in unwrap(ret.c[0]).walk() if c.k == 'construct' and 'Result' in c.src(20)]
                rs = ret.src(120).replace(' ', '')
                first_msg = re.search(r'Result\(valid::Message\(', rs) is not None or re.search(r'Result\(Message\(', rs) is not None
                if base.endswith('must') and not first_msg:
                    probs.append('must() does not produce an error (first slot)')
                if base.endswith('should') and first_msg:
                    probs.append('should() produces an error instead of a warning')
        key = base.split('::')[-1]
        if key in seen and not probs:
            seen[key] += 1
            continue
        seen[key] = seen.get(key, 0) + 1
        rule.check(not probs, '%s|getter-form%s' % (key, '' if not probs else '|' + f.sig[:60]), rep.where(f), f.label(), 'throwing getter or rejected value -> %s' % ('error' if key == 'must' else 'warning'), '; '.join(sorted(set(probs))[:2]))
    if set(seen) != {'must', 'should'}:
        raise AnalysisBroken('R-VALID-COND: getter forms of must/should not found (%s)' % sorted(seen))
    rep.extra['condition_instantiations'] = seen
    return rule


def run_loop_fresh(prog, rep):
    """per-element working data is fresh in every iteration: a container declared outside a loop and refilled inside it through an
    appending out-parameter (never cleared) still starts with the previous element's content"""
    sem = Sem(prog)
    rule = rep.rule('R-VALID-FRESH', 'inside element loops of the checks, per-element containers are assigned or cleared in every iteration (no appending refill of a container declared outside the loop)', floor=1)
    from ..sem import split_sig
    n = 0
    for f in sorted(prog.funcs.values(), key=lambda f: (f.file, f.line)):
        if f.body is None or not f.q.startswith('nix::valid::'):
            continue
        lv = sem.local_vars(f)
        for lp in [x for x in f.walk() if x.k in ('for', 'rangefor', 'while')]:
            inside = set(id(x) for x in lp.walk())
            for c in lp.walk():
                if c.k != 'call' or not c.callee or c.get('op'):
                    continue
                pts = split_sig(c.callee.get('sig') or '()')
                tg = prog.resolve_call(c)
                for i, a in enumerate(real_args(c)):
                    if a is None or i >= len(pts):
                        continue
                    pt = pts[i]
                    if not (pt.endswith('&') and not pt.endswith('&&') and not pt.startswith('const ')) or 'vector' not in pt:
                        continue
                    x = unwrap(a)
                    if x.k != 'ref' or x.decl.get('kind') != 'local':
                        continue
                    v = lv.get(x.decl.get('lid'))
                    if v is None or id(v) in inside:
                        continue       # declared inside the loop: fresh by construction
                    n += 1
                    key = '%s|%s@%s' % (re.sub(r'<.*', '', f.q), v.get('name'), c.callee.get('name'))
                    # reset inside the loop before the call?
                    reset = False
                    for m in sem.mods(f).get(x.decl.get('lid'), []):
                        if id(m) in inside and m.id < c.id and (m.k == 'assign' or (m.k == 'call' and (m.get('op') == '=' or (m.callee or {}).get('name') in ('clear', 'assign', 'resize')))):
                            reset = True
                    # does the callee overwrite or only append?
                    overwrites = None
                    if tg and tg[0].body is not None and i < len(tg[0].params):
                        g = tg[0]
                        plid = g.params[i]['lid']
                        ops = []
                        for y in g.walk():
                            if y.k == 'assign' or (y.k == 'call' and y.get('op') == '='):
                                t0 = unwrap(y.c[0])
                                if t0.k == 'ref' and t0.decl.get('lid') == plid:
                                    ops.append('=')
                            elif y.k == 'call' and y.get('member') and y.c and unwrap(y.c[0]).k == 'ref' and unwrap(y.c[0]).decl.get('lid') == plid:
                                ops.append((y.callee or {}).get('name'))
                        overwrites = any(o in ('=', 'clear', 'assign', 'resize', 'swap') for o in ops)
                    okc = reset or overwrites is True
                    rule.check(okc, key, rep.where(c), f.label(), '%s is %s' % (v.get('name'), 'reset in the loop' if reset else 'overwritten by %s' % c.callee.get('name')),
                               '%s is declared outside the loop and %s only appends to it: from the second element on it still begins with the entries of the first element, so the verdict for later elements is taken from the first one' % (v.get('name'), c.callee.get('name')))
    rule.ok('valid|scan', 'src/valid', 'nix::valid::*', '%d out-parameter refills inside element loops' % n, nontrivial=False)
    return rule


def run_sorted_agree(prog, rep):
    """the validator's sortedness test is the test the tick setters apply: what the API accepts, the validator accepts"""
    rule = rep.rule('R-VALID-SORTED', 'the validator check isSorted and the tick setters (RangeDimension::ticks, DataArray::appendRangeDimension) decide sortedness with the same predicate: std::is_sorted over the whole range with the same comparator', floor=3)
    sites = []
    for f in sorted(prog.funcs.values(), key=lambda f: (f.file, f.line, f.q)):
        if f.body is None or not (f.q.startswith('nix::valid::isSorted') or (f.cls or '') in ('nix::RangeDimension', 'nix::DataArray')):
            continue
        for c in f.calls():
            if (c.callee or {}).get('name') in ('is_sorted', 'is_sorted_until') and (c.callee.get('q') or '').startswith('std::'):
                a = [x for x in real_args(c) if x is not None]
                comp = None
                if len(a) > 2:
                    comp = re.sub(r'\s+', '', a[2].src(80))
                whole = len(a) >= 2 and 'begin' in a[0].src(40) and 'end' in a[1].src(40)
                sites.append((f, c, c.callee.get('name'), comp, whole))
    val = [s for s in sites if s[0].q.startswith('nix::valid::isSorted')]
    api = [s for s in sites if not s[0].q.startswith('nix::valid::')]
    if not val or len(api) < 2:
        raise AnalysisBroken('R-VALID-SORTED: sortedness tests not found (validator %d, setters %d)' % (len(val), len(api)))
    ref = (api[0][2], api[0][3])
    seen = set()
    for f, c, nm, comp, whole in sites:
        key = '%s|%s' % (re.sub(r'<.*', '', f.q), nm)
        if key in seen:
            continue
        seen.add(key)
        rule.check((nm, comp) == ref and whole, key, rep.where(c), f.label(), '%s over [begin, end) with %s' % (nm, comp or 'the default comparator'),
                   '%s decides sortedness with %s(%s)%s while %s uses %s(%s): tick lists with equal neighbours (or another order) are accepted by one and rejected by the other' % (
                       f.q.split('::')[-2] if f.q.endswith('operator()') else f.name, nm, comp or 'default <', '' if whole else ' on a part of the range', api[0][0].name, ref[0], ref[1] or 'default <'))
    return rule
