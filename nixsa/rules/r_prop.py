"""C14: metadata property values (PropertyHDF5 value codec, type guard, resize-then-write-all) and the Variant tagged union."""
import re

from ..extract import AnalysisBroken
from ..sem import Sem, Flow, term, unwrap, real_args
from ..tables import enum_switch_table, enumerators, first_return
from .r_codec import encoder_table, H5

PROP_TYPES = ['Bool', 'Int32', 'UInt32', 'Int64', 'UInt64', 'Double', 'String']


def ctype_table(prog):
    """{canonical C type -> DataType enumerator name} from the instantiated to_data_type<T>::value rows"""
    names = {x['value']: x['name'] for x in prog.enums['nix::DataType']['enumerators']}
    out = {}
    for q, vs in prog.vars.items():
        m = re.match(r'nix::to_data_type<(.+)>::value$', q)
        if m and vs and vs[0].get('v') is not None:
            out[m.group(1)] = names.get(vs[0]['v'])
    if len(out) < 12:
        raise AnalysisBroken('to_data_type<T> rows missing (%d): the instantiation witness did not produce them' % len(out))
    out['std::string'] = out.get('std::basic_string<char>')
    return out


def _targ_call(stmts, names):
    for s in stmts:
        if s is None:
            continue
        for c in s.walk():
            if c.k == 'call' and (c.callee or {}).get('name') in names and c.callee.get('targs'):
                return c
    return None


def run_dispatch(prog, rep):
    """every dispatch on the value type sends DataType E to the code instantiated for the C type of E"""
    rule = rep.rule('R-PROP-DISPATCH', 'every value-type dispatch (write, read, file type, old-style read, Value->Variant, Variant copy/compare) maps DataType E to the C type of E', floor=45)
    T2E = ctype_table(prog)
    sites = [
        ('write', [x for x in prog.fns('nix::hdf5::PropertyHDF5::values') if x.params and 'vector' in x.params[0]['type']], ('do_write_value',)),
        ('read', [x for x in prog.fns('nix::hdf5::PropertyHDF5::values') if not x.params], ('do_read_value',)),
        ('file-type', prog.fns('nix::hdf5::PropertyHDF5::fileTypeForValue'), ('h5_type_for_value',)),
        ('read-oldstyle', prog.fns('nix::hdf5::PropertyHDF5::readOldstyleValues'), ('do_read_old_value',)),
        ('value-to-variant', prog.fns('nix::hdf5::valueToVariant'), ('get',)),
        ('variant-equal', [f for f in prog.fns('nix::operator==') if f.params and 'Variant' in f.params[0]['type']], ('get',)),
    ]
    for what, fs, callee_names in sites:
        if len(fs) != 1 or fs[0].body is None:
            raise AnalysisBroken('anchor vanished: dispatch site %s (%d candidates)' % (what, len(fs)))
        f = fs[0]
        sw, tab, after = enum_switch_table(f)
        for e in PROP_TYPES:
            stmts = tab.get('nix::DataType::' + e)
            key = '%s|%s' % (what, e)
            if stmts is None:
                rule.bad(key, rep.where(sw), f.label(), 'DataType::%s has no case: values of this type are %s' % (e, 'not written' if what == 'write' else 'not handled'))
                continue
            c = _targ_call(stmts, callee_names)
            if c is None:
                rule.bad(key, rep.where(sw), f.label(), 'case %s does not call %s<T>' % (e, '/'.join(callee_names)))
                continue
            t = c.callee['targs'][0]
            rule.check(T2E.get(t) == e, key, rep.where(c), f.label(), '%s -> %s<%s>' % (e, c.callee.get('name'), t),
                       'case %s calls %s<%s>, but to_data_type<%s> is %s' % (e, c.callee.get('name'), t, t, T2E.get(t)))
    # Variant::assign_variant_from: case E -> set(other.<member of the C type of E>)
    av = prog.fn('nix::Variant::assign_variant_from')
    sw, tab, after = enum_switch_table(av)
    utypes = {f['name']: f.get('ctype') or f['type'] for f in prog.records['nix::Variant::(anonymous)']['fields']}
    for e in PROP_TYPES:
        stmts = tab.get('nix::DataType::' + e) or []
        sets = [c for s in stmts if s is not None for c in s.walk() if c.k == 'call' and (c.callee or {}).get('name') == 'set']
        mem = None
        if sets and real_args(sets[0]):
            a = unwrap(real_args(sets[0])[0])
            mem = a.decl.get('name') if a.k == 'member' else None
        ct = utypes.get(mem)
        rule.check(mem is not None and T2E.get(ct) == e, 'variant-copy|%s' % e, rep.where(sets[0]) if sets else rep.where(sw), av.q, '%s -> set(other.%s) [%s]' % (e, mem, ct),
                   'case %s copies member %s of C type %s (to_data_type: %s)' % (e, mem, ct, T2E.get(ct)))
    return rule


def _h5_attrs(prog):
    ff, ft = encoder_table(prog, 'nix::hdf5::data_type_to_h5_filetype')
    out = {}
    for e in PROP_TYPES:
        m = ft.get(e)
        if m == 'boolfiletype':
            out[e] = {'class_t': 'bool-enum', 'size': 1, 'sign': None}
        elif m == 'makeStrType':
            out[e] = {'class_t': 'H5T_STRING', 'size': 'variable', 'sign': None}
        elif m in H5:
            c, s, g = H5[m]
            out[e] = {'class_t': c, 'size': s, 'sign': g if c == 'H5T_INTEGER' else None}
        else:
            raise AnalysisBroken('file type of %s is %r: not in the trusted HDF5 type table' % (e, m))
    return out


def run_guard(prog, rep):
    """values(vector): the type test that precedes resize/write separates all property value types; all elements are tested"""
    rule = rep.rule('R-PROP-GUARD', 'assignment is refused unless the value type equals the property type (test separates all 7 value types) and every element has that type, before the data set is resized', floor=4)
    sem = Sem(prog)
    f = [x for x in prog.fns('nix::hdf5::PropertyHDF5::values') if x.params and 'vector' in x.params[0]['type']]
    if len(f) != 1:
        raise AnalysisBroken('anchor vanished: PropertyHDF5::values(vector)')
    f = f[0]
    fl = Flow(sem, f)
    se = f.calls(name='setExtent')
    if not se:
        raise AnalysisBroken('anchor vanished: PropertyHDF5::values(vector) no longer resizes the data set')
    se = se[0]
    facts = sem.facts_at(f, se.id)
    lv = sem.local_vars(f)

    def names_of(t):
        """call names a term (and the initialisers of the locals it mentions) is computed from"""
        out = set()

        def walk(x):
            if isinstance(x, tuple) and x:
                if x[0] in ('m', 'c') and isinstance(x[1], str):
                    out.add(x[1].split('::')[-1])
                if x[0] == 'v':
                    v = lv.get(x[1])
                    if v is not None and v.c and v.c[0] is not None:
                        out.update(fl.call_names(v.c[0]))
                for y in x[1:]:
                    walk(y)
        walk(t)
        return out

    full = False
    observables = set()
    shown = []
    for (t, pol) in facts:
        if not (isinstance(t, tuple) and len(t) == 4 and t[0] in ('b', 'op') and ((t[1] == '!=' and pol is False) or (t[1] == '==' and pol is True))):
            continue
        L, R = t[2], t[3]
        nl, nr = names_of(L), names_of(R)
        for a, b, A, B in ((nl, nr, L, R), (nr, nl, R, L)):
            stored = ('dataType' in a)
            given = ('type' in b) or ('fileTypeForValue' in b) or ('data_type_to_h5_filetype' in b) or ('data_type_to_h5' in b)
            if not (stored and given):
                continue
            if 'data_type_from_h5' in a or (A[0] == 'm' and A[1] == 'dataType' and len(A) == 3 and 'h5x' not in repr(A)):
                # nix DataType level (decoder is injective on the stored types: R-CODEC-DT)
                if not any(o in ('class_t', 'size', 'sign') for o in (A[1], B[1]) if isinstance(o, str)):
                    full = True
                    shown.append('DataType equality: %s' % _short(t))
            if A[0] == 'm' and B[0] == 'm' and A[1] == B[1] and A[1] in ('class_t', 'size', 'sign'):
                observables.add(A[1])
                shown.append('%s equality' % A[1])
            if t[0] == 'op' and 'h5x::DataType' in repr(t):
                full = True
    attrs = _h5_attrs(prog)
    if not full and observables:
        pairs = []
        for i, a in enumerate(PROP_TYPES):
            for b in PROP_TYPES[i + 1:]:
                if all(attrs[a][o] == attrs[b][o] for o in observables):
                    pairs.append('%s/%s' % (a, b))
        rule.check(not pairs, 'PropertyHDF5::values(vector)|type-test', rep.where(se), f.label(), 'stored vs given type compared on %s, which separates all value types' % sorted(observables),
                   'the type test compares only %s of the storage types, which does not separate %s: values of the other type are accepted, converted/clamped by HDF5 and read back with the property\'s type' % (sorted(observables), ', '.join(pairs)))
    else:
        rule.check(full, 'PropertyHDF5::values(vector)|type-test', rep.where(se), f.label(), '; '.join(shown[:2]),
                   'the data set is resized/written without an established equality between the value type and the stored type (facts: %s)' % [_short(t) for t, p in facts][:4])
    # every element has the type of the first
    loops = [n for n in f.walk() if n.k in ('for', 'rangefor', 'while')]
    ok_loop = False
    for lp in loops:
        for i in lp.walk():
            if i.k != 'if' or i.c[3] is None or not any(x.k == 'throw' for x in i.c[3].walk()):
                continue
            ct = term(unwrap(i.c[2]))
            if isinstance(ct, tuple) and len(ct) == 4 and ct[1] == '!=' and ('type' in names_of(ct[2]) or ct[2][:2] == ('m', 'type')) and ('type' in names_of(ct[3]) or ct[3][:2] == ('m', 'type')):
                # the loop finished before the resize: its exit condition is a fact at the resize
                lastid = max(x.id for x in lp.walk())
                if lp.id < se.id and lastid < se.id:
                    ok_loop = True
    rule.check(ok_loop, 'PropertyHDF5::values(vector)|all-elements-typed', rep.where(se), f.label(), 'a loop over the values throws on an element whose type differs, before setExtent',
               'no loop before the resize rejects an element of another type: a later get<T>() throws after the data set was resized')
    # empty vector / none -> deleteValues -> extent 0
    dv = [c for c in f.calls(name='deleteValues')]
    okd = False
    if dv:
        fd = sem.facts_at(f, dv[0].id)
        okd = any((t[:2] == ('m', 'empty') and pol) or (t[0] == 'b' and t[1] == '<' and t[2][:2] == ('m', 'size') and t[3] == ('k', 1) and pol) or
                  (t[0] == 'b' and t[1] == '==' and t[2][:2] == ('m', 'size') and t[3] == ('k', 0) and pol) for (t, pol) in fd)
    d = prog.fn('nix::hdf5::PropertyHDF5::deleteValues')
    dz = [c for c in d.calls(name='setExtent')]
    zero = False
    if dz:
        lits = [x.get('v') for x in real_args(dz[0])[0].walk() if x.k == 'int']
        zero = bool(lits) and lits[-1] == 0 and not any(x.k in ('ref', 'call', 'member') and x is not real_args(dz[0])[0] for x in real_args(dz[0])[0].walk())
    vn = [x for x in prog.fns('nix::hdf5::PropertyHDF5::values') if x.params and 'none_t' in x.params[0]['type']]
    okn = bool(vn) and any(c.callee.get('name') == 'deleteValues' for c in vn[0].calls())
    rule.check(okd and zero and okn, 'PropertyHDF5::values|clear', rep.where(d), d.q, 'an empty vector and none both shrink the data set to extent 0',
               'clearing does not set the extent to 0 (empty->deleteValues: %s, deleteValues sets {0}: %s, none->deleteValues: %s)' % (okd, zero, okn))
    # the extent is the number of values
    arg = real_args(se)[0]
    org = fl.origins(arg)
    oks = any(o[0] == 'call' and o[1] == 'size' for o in org) and any(o == ('param', f.params[0]['name']) for o in org) and not any(o[0] == 'lit' and o[1] not in (0, 1) for o in org)
    rule.check(oks, 'PropertyHDF5::values(vector)|extent', rep.where(se), f.label(), 'setExtent(NDSize{values.size()})', 'the new extent %s is not the number of values' % arg.src(40))
    return rule


def _short(t):
    return re.sub(r'\d{6,}, ', '', repr(t))[:110]


def _dominated_order(f, first, second):
    return first.id < second.id


def run_rw(prog, rep):
    """do_write_value<T> writes all values, do_read_value<T> reads all elements, with the memory type of T"""
    rule = rep.rule('R-PROP-RW', 'per value type: all values are converted and written / read with the memory type of T over the whole data set', floor=14)
    fv = prog.records.get('nix::hdf5::FileValue')
    if not fv:
        raise AnalysisBroken('anchor vanished: FileValue<T>')
    rule.check(len(fv['fields']) == 1 and fv['fields'][0]['name'] == 'value', 'FileValue|layout', '%s:%s' % (prog.rel(fv['file']), fv['line']), 'nix::hdf5::FileValue',
               'the transfer element is exactly one T', 'the transfer element has fields %s: the memory type of T does not describe it' % [(x['name'], x['type']) for x in fv['fields']])
    nw = nr = 0
    for f in sorted(prog.fns('nix::hdf5::do_write_value'), key=lambda f: str(f.targs)):
        if not f.targs or f.body is None:
            continue
        T = f.targs[0]
        nw += 1
        key = 'do_write_value<%s>' % T
        vals = f.params[1]['name']
        probs = []
        rs = [c for c in f.calls(name='resize')]
        bufn = rs[0].c[0].src(20) if rs else '?'
        if not rs or '%s.size()' % vals not in real_args(rs[0])[0].src(40):
            probs.append('the transfer buffer is not sized to values.size()')
        mtv = [v.get('name') for v in Sem(prog).local_vars(f).values() if v.c and v.c[0] is not None and 'h5_type_for_value' in v.c[0].src(60)]
        mtn = mtv[0] if mtv else '?'
        tr = [c for c in f.calls(name='transform')]
        if not tr:
            probs.append('values are not converted (no std::transform)')
        else:
            a = [term(x) for x in real_args(tr[0])[:3]]
            if not (a[0][:2] == ('m', 'begin') and a[1][:2] == ('m', 'end') and a[0][2] == a[1][2] and a[0][2][2] == vals and a[2][:2] == ('m', 'begin') and a[2][2][2] == bufn):
                probs.append('std::transform does not cover [values.begin(), values.end()) -> buffer.begin()')
        gets = [c for c in f.calls(name='get') if c.callee.get('targs')]
        if not gets or gets[0].callee['targs'][0] != T:
            probs.append('the element is extracted with get<%s>()' % (gets[0].callee['targs'][0] if gets else '?'))
        mt = [c for c in f.calls(name='h5_type_for_value')]
        if not mt or mt[0].callee.get('targs') != [T] or term(real_args(mt[0])[0]) != ('k', True):
            probs.append('the memory type is not h5_type_for_value<%s>(true)' % T)
        wr = [c for c in f.calls(name='write')]
        if not wr:
            probs.append('nothing is written')
        else:
            wa = real_args(wr[0])
            if wa[0].src(30) != bufn + '.data()' or wa[1].src(20) != mtn or wa[2].get('macro') != 'H5S_ALL' or wa[3].get('macro') != 'H5S_ALL':
                probs.append('write is not write(buffer.data(), memory type, H5S_ALL, H5S_ALL)')
            if tr and not tr[0].id < wr[0].id:
                probs.append('the buffer is written before it is filled')
        rule.check(not probs, key, rep.where(f), f.q, 'resize(n) -> transform(all, get<%s>) -> write(all, memtype<%s>)' % (T, T), '; '.join(probs))
    for f in sorted(prog.fns('nix::hdf5::do_read_value'), key=lambda f: str(f.targs)):
        if not f.targs or f.body is None:
            continue
        T = f.targs[0]
        nr += 1
        key = 'do_read_value<%s>' % T
        size, vals = f.params[1]['name'], f.params[2]['name']
        probs = []
        rs = [c for c in f.calls(name='resize')]
        recv = sorted(c.c[0].src(20) for c in rs if real_args(c) and real_args(c)[0].src(20) == size)
        bufs = [r for r in recv if r != vals]
        bufn = bufs[0] if bufs else '?'
        if len(recv) != 2 or vals not in recv or not bufs:
            probs.append('the transfer buffer and values are not both resized to the element count (%s)' % recv)
        mtv = [v.get('name') for v in Sem(prog).local_vars(f).values() if v.c and v.c[0] is not None and 'h5_type_for_value' in v.c[0].src(60)]
        mtn = mtv[0] if mtv else '?'
        rd = [c for c in f.calls(name='read')]
        tr = [c for c in f.calls(name='transform')]
        vr = [c for c in f.calls(name='vlenReclaim')]
        mt = [c for c in f.calls(name='h5_type_for_value')]
        if not mt or mt[0].callee.get('targs') != [T] or term(real_args(mt[0])[0]) != ('k', True):
            probs.append('the memory type is not h5_type_for_value<%s>(true)' % T)
        if not rd:
            probs.append('nothing is read')
        else:
            ra = real_args(rd[0])
            if ra[0].src(30) != bufn + '.data()' or ra[1].src(20) != mtn or ra[2].get('macro') != 'H5S_ALL' or ra[3].get('macro') != 'H5S_ALL':
                probs.append('read is not read(buffer.data(), memory type, H5S_ALL, H5S_ALL)')
        if not tr:
            probs.append('elements are not converted to Variants')
        else:
            a = [term(x) for x in real_args(tr[0])[:3]]
            if not (a[0][:2] == ('m', 'begin') and a[1][:2] == ('m', 'end') and a[0][2] == a[1][2] and a[0][2][2] == bufn and a[2][:2] == ('m', 'begin') and a[2][2][2] == vals):
                probs.append('std::transform does not cover [buffer.begin(), buffer.end()) -> values.begin()')
            if rd and not rd[0].id < tr[0].id:
                probs.append('elements are converted before they are read')
        if vr and tr and not tr[0].id < vr[0].id:
            probs.append('variable-length memory is reclaimed before the strings are copied into the Variants')
        if not vr:
            probs.append('variable-length memory is never reclaimed')
        rule.check(not probs, key, rep.where(f), f.q, 'resize(n) -> read(all, memtype<%s>) -> transform(all) -> vlenReclaim' % T, '; '.join(probs))
    if nw < 6 or nr < 6:
        # (a single mis-dispatched case removes one instantiation: that is R-PROP-DISPATCH's violation, not a broken analysis)
        raise AnalysisBroken('R-PROP-RW: %d writer / %d reader instantiations (7 expected)' % (nw, nr))
    # reader: count = extent[0] of the data set, dispatch on the decoded stored type, result returned
    rdr = [x for x in prog.fns('nix::hdf5::PropertyHDF5::values') if not x.params][0]
    fl = Flow(Sem(prog), rdr)
    sws = [n for n in rdr.walk() if n.k == 'switch']
    calls = [c for c in rdr.calls(name='do_read_value')]
    probs = []
    if not sws or not {'data_type_from_h5', 'dataType'} <= fl.call_names(sws[0].c[0]):
        probs.append('the dispatch operand is not data_type_from_h5(dataset.dataType())')
    for c in calls:
        a = real_args(c)
        n = fl.call_names(a[1])
        if 'size' not in n or 'operator[]' not in n:
            probs.append('the element count passed to do_read_value does not derive from the data set extent')
            break
        if term(a[0])[0] != 'v' or term(a[2])[0] != 'v':
            probs.append('do_read_value is not applied to the data set and the result vector')
            break
    rets = [n for n in rdr.walk() if n.k == 'return' and n.c and n.c[0] is not None]
    if calls and not any(term(unwrap(r.c[0])) == term(real_args(calls[0])[2]) for r in rets if r.id > calls[0].id):
        probs.append('the vector filled by do_read_value is not the one returned')
    rule.check(not probs and len(calls) >= 7, 'PropertyHDF5::values()|reader', rep.where(rdr), rdr.label(), 'count = extent[0]; dispatch on the decoded stored type; filled vector returned', '; '.join(probs))
    return rule


def run_variant(prog, rep):
    """tagged union typestate: tag and member agree in every setter/getter; the owned string is released exactly when the tag says String"""
    rule = rep.rule('R-TAG', 'Variant: set(T) stores tag and member of T after releasing an owned string; get(T&) tests the tag of T before reading the member of T; string ownership', floor=18)
    T2E = ctype_table(prog)
    utypes = {f['name']: f.get('ctype') or f['type'] for f in prog.records['nix::Variant::(anonymous)']['fields']}
    sem = Sem(prog)

    def tag_assigned(f):
        out = []
        for n in f.walk():
            if n.k == 'assign' and n.get('op') == '=':
                l = unwrap(n.c[0])
                if l.k == 'member' and l.decl.get('name') == 'dtype':
                    t = term(unwrap(n.c[1]))
                    out.append((n, t[1].split('::')[-1] if t[0] == 'e' else None))
        return out

    def member_written(f):
        out = []
        for n in f.walk():
            if n.k == 'assign' and n.get('op') == '=':
                l = unwrap(n.c[0])
                if l.k == 'member' and l.decl.get('name', '').startswith('v_'):
                    out.append((n, l.decl.get('name')))
        return out

    nset = nget = 0
    for f in sorted(prog.fns('nix::Variant::set'), key=lambda f: f.sig):
        if f.body is None or len(f.params) != 1:
            continue
        ct = f.params[0].get('ctype') or f.params[0]['type']
        if 'none_t' in ct:
            e = 'Nothing'
        elif ct in ('const char *', 'const std::basic_string<char> &', 'const std::string &'):
            # forwarding overloads: must end in set(const char*, len)
            fw = [c for c in f.calls(name='set') if len(real_args(c)) == 2]
            rule.check(bool(fw), 'Variant::set(%s)|forwards' % f.params[0]['type'], rep.where(f), f.label(), 'forwards to set(const char *, len)', 'does not forward to the owning string setter')
            continue
        else:
            e = T2E.get(ct)
        nset += 1
        key = 'Variant::set(%s)' % f.params[0]['type']
        tags = tag_assigned(f)
        mems = member_written(f)
        rel = [c for c in f.calls(name='maybe_deallocte_string')]
        probs = []
        if len(tags) != 1 or tags[0][1] != e:
            probs.append('tag is set to %s, expected %s' % ([t for n, t in tags], e))
        if e != 'Nothing':
            if len(mems) != 1 or T2E.get(utypes.get(mems[0][1])) != e:
                probs.append('stores member %s of C type %s' % ([m for n, m in mems], [utypes.get(m) for n, m in mems]))
            elif term(unwrap(mems[0][0].c[1]))[0] != 'v':
                probs.append('the stored value is not the parameter')
        if not rel or (tags and not rel[0].id < tags[0][0].id) or (mems and not rel[0].id < mems[0][0].id):
            probs.append('an owned string is not released before the tag/member is overwritten (leak, or free of a non-string member later)')
        rule.check(not probs, key, rep.where(f), f.label(), 'release string; tag = %s; member of %s = value' % (e, ct), '; '.join(probs))
    for f in sorted(prog.fns('nix::Variant::get'), key=lambda f: f.sig):
        if f.body is None or len(f.params) != 1 or f.instantiation:
            continue
        ct = (f.params[0].get('ctype') or f.params[0]['type']).replace(' &', '')
        if 'none_t' in ct:
            continue
        e = T2E.get(ct) or T2E.get(ct.replace('std::basic_string<char>', 'std::string'))
        nget += 1
        key = 'Variant::get(%s)' % f.params[0]['type']
        chk = [c for c in f.calls(name='check_argument_type')]
        reads = [n for n in f.walk() if n.k == 'member' and n.decl.get('name', '').startswith('v_')]
        probs = []
        ce = None
        if chk:
            t = term(real_args(chk[0])[0])
            ce = t[1].split('::')[-1] if t[0] == 'e' else None
        if ce != e:
            probs.append('the tag tested is %s, expected %s' % (ce, e))
        if len(reads) != 1 or T2E.get(utypes.get(reads[0].decl.get('name'))) != e:
            probs.append('reads member %s' % [r.decl.get('name') for r in reads])
        if chk and reads and not chk[0].id < reads[0].id:
            probs.append('the member is read before the tag is tested')
        rule.check(not probs, key, rep.where(f), f.label(), 'check tag %s, then read the member of %s' % (e, ct), '; '.join(probs))
    if nset < 7 or nget < 7:
        raise AnalysisBroken('R-TAG: %d setters / %d getters found' % (nset, nget))
    # check_argument_type throws on mismatch
    ca = prog.fn('nix::Variant::check_argument_type')
    th = [n for n in ca.walk() if n.k == 'throw']
    okc = False
    if th:
        facts = sem.facts_at(ca, th[0].id)
        okc = any(t[0] == 'b' and t[1] == '!=' and pol and 'dtype' in repr(t) and 'check' in repr(t) for (t, pol) in facts)
    rule.check(okc, 'Variant::check_argument_type', rep.where(ca), ca.q, 'throws iff the tag differs from the requested type', 'does not throw exactly when dtype != check')
    # owning string setter
    ss = [f for f in prog.fns('nix::Variant::set') if len(f.params) == 2][0]
    probs = []
    ml = [c for c in ss.calls(name='malloc')]
    rl = [c for c in ss.calls(name='realloc')]
    mc = [c for c in ss.calls(name='memcpy')]
    if not ml or not rl or not mc:
        probs.append('malloc/realloc/memcpy pattern gone')
    else:
        fm = sem.facts_at(ss, ml[0].id)
        fr = sem.facts_at(ss, rl[0].id)
        if not any(t[0] == 'b' and t[1] == '!=' and 'dtype' in repr(t) and 'String' in repr(t) and pol for (t, pol) in fm):
            probs.append('fresh memory is not allocated exactly when the tag is not String')
        if not any(t[0] == 'b' and t[1] == '!=' and 'dtype' in repr(t) and 'String' in repr(t) and not pol for (t, pol) in fr):
            probs.append('realloc of v_string is reachable when the tag is not String (member is not a pointer then)')
        if 'v_string' not in real_args(rl[0])[0].src(20):
            probs.append('realloc does not reuse v_string')
        for c in (ml[0], rl[0]):
            szarg = real_args(c)[-1]
            if 'len' not in Flow(sem, ss).call_names(szarg) and 'len' not in repr(Flow(sem, ss).origins(szarg)):
                probs.append('allocation size does not derive from len')
            v = term(unwrap(szarg))
            lv = sem.local_vars(ss).get(v[1]) if v[0] == 'v' else None
            init = term(unwrap(lv.c[0])) if lv is not None and lv.c and lv.c[0] is not None else v
            if not (isinstance(init, tuple) and init[0] == 'b' and init[1] == '+' and ('k', 1) in init):
                probs.append('allocation size is not len + 1 (terminator)')
        ma = real_args(mc[0])
        if not (term(ma[1])[0] == 'v' and term(ma[1])[2] == ss.params[0]['name'] and term(ma[2])[0] == 'v' and term(ma[2])[2] == ss.params[1]['name']):
            probs.append('memcpy does not copy len bytes from value')
        tags = tag_assigned(ss)
        if [t for n, t in tags] != ['String']:
            probs.append('tag is not set to String')
        term_w = [n for n in ss.walk() if n.k == 'assign' and 'v_string[' in n.c[0].src(30).replace(' ', '')]
        if not term_w or 'len' not in term_w[0].c[0].src(30):
            probs.append('the copy is not terminated at [len]')
    rule.check(not probs, 'Variant::set(const char *, size_t)|ownership', rep.where(ss), ss.label(), 'malloc iff tag != String else realloc(v_string); len + 1 bytes; memcpy(len); terminator; tag = String', '; '.join(probs))
    # release helper
    md = prog.fn('nix::Variant::maybe_deallocte_string')
    fr = [c for c in md.calls(name='free')]
    okm = False
    if fr:
        facts = sem.facts_at(md, fr[0].id)
        okm = any(t[0] == 'b' and t[1] == '==' and 'dtype' in repr(t) and 'String' in repr(t) and pol for (t, pol) in facts) and 'v_string' in real_args(fr[0])[0].src(20)
        tags = tag_assigned(md)
        okm = okm and [t for n, t in tags] == ['Nothing'] and tags[0][0].id > fr[0].id
    rule.check(okm, 'Variant::maybe_deallocte_string', rep.where(md), md.q, 'free(v_string) iff tag == String, then tag = Nothing', 'the owned string is not released exactly when the tag is String (or the tag stays String after free: double free)')
    # destructor releases; move constructor disarms the source
    dt = [f for f in prog.methods_of('nix::Variant') if f.kind == 'dtor' and f.body is not None]
    rule.check(bool(dt) and any(c.callee.get('name') == 'maybe_deallocte_string' for c in dt[0].calls()), 'Variant::~Variant', rep.where(dt[0]) if dt else 'include/nix/Variant.hpp:0', 'nix::Variant::~Variant',
               'destructor releases an owned string', 'destructor does not release the owned string')
    mv = [f for f in prog.methods_of('nix::Variant') if f.kind == 'ctor' and f.params and f.params[0]['type'].endswith('&&') and f.body is not None]
    okmv = False
    if mv:
        m = mv[0]
        steals = [n for n in m.walk() if n.k == 'assign' and unwrap(n.c[0]).k == 'member' and unwrap(n.c[0]).decl.get('name') == 'v_string' and unwrap(n.c[0]).c and unwrap(unwrap(n.c[0]).c[0]).k != 'member']
        disarm = [n for n in m.walk() if n.k == 'assign' and 'other' in n.c[0].src(30) and 'dtype' in n.c[0].src(30) and 'Nothing' in n.c[1].src(30)]
        okmv = (not steals) or bool(disarm)
        st2 = [n for n in m.walk() if n.k == 'assign' and n.c[0].src(30).replace('this->', '') == 'v_string' and 'other' in n.c[1].src(30)]
        okmv = (not st2) or bool(disarm)
    rule.check(bool(mv) and okmv, 'Variant::Variant(Variant &&)', rep.where(mv[0]) if mv else 'include/nix/Variant.hpp:0', 'nix::Variant::Variant(Variant &&)',
               'a stolen string pointer is disarmed in the source (tag = Nothing)', 'the source keeps tag String after its pointer was taken: double free')
    return rule
