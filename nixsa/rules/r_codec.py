"""R-CODEC (C01, C02, C13, C14, C15): writer/reader tables of the stored enums agree."""
import re

from ..absint import GenericInterp, Opaque, Unsupported
from ..extract import AnalysisBroken
from ..sem import Sem, Flow, term, unwrap, real_args
from ..tables import enum_switch_table, enumerators, first_return, switch_groups, has_throw

# trusted: HDF5 predefined types -> (class, size, sign)
H5 = {
    'H5T_STD_I8LE': ('H5T_INTEGER', 1, 'H5T_SGN_2'), 'H5T_STD_I16LE': ('H5T_INTEGER', 2, 'H5T_SGN_2'),
    'H5T_STD_I32LE': ('H5T_INTEGER', 4, 'H5T_SGN_2'), 'H5T_STD_I64LE': ('H5T_INTEGER', 8, 'H5T_SGN_2'),
    'H5T_STD_U8LE': ('H5T_INTEGER', 1, 'H5T_SGN_NONE'), 'H5T_STD_U16LE': ('H5T_INTEGER', 2, 'H5T_SGN_NONE'),
    'H5T_STD_U32LE': ('H5T_INTEGER', 4, 'H5T_SGN_NONE'), 'H5T_STD_U64LE': ('H5T_INTEGER', 8, 'H5T_SGN_NONE'),
    'H5T_IEEE_F32LE': ('H5T_FLOAT', 4, 'H5T_SGN_2'), 'H5T_IEEE_F64LE': ('H5T_FLOAT', 8, 'H5T_SGN_2'),
    'H5T_NATIVE_INT8': ('H5T_INTEGER', 1, 'H5T_SGN_2'), 'H5T_NATIVE_INT16': ('H5T_INTEGER', 2, 'H5T_SGN_2'),
    'H5T_NATIVE_INT32': ('H5T_INTEGER', 4, 'H5T_SGN_2'), 'H5T_NATIVE_INT64': ('H5T_INTEGER', 8, 'H5T_SGN_2'),
    'H5T_NATIVE_UINT8': ('H5T_INTEGER', 1, 'H5T_SGN_NONE'), 'H5T_NATIVE_UINT16': ('H5T_INTEGER', 2, 'H5T_SGN_NONE'),
    'H5T_NATIVE_UINT32': ('H5T_INTEGER', 4, 'H5T_SGN_NONE'), 'H5T_NATIVE_UINT64': ('H5T_INTEGER', 8, 'H5T_SGN_NONE'),
    'H5T_NATIVE_FLOAT': ('H5T_FLOAT', 4, 'H5T_SGN_2'), 'H5T_NATIVE_DOUBLE': ('H5T_FLOAT', 8, 'H5T_SGN_2'),
    'H5T_NATIVE_OPAQUE': ('H5T_OPAQUE', 1, 'H5T_SGN_NONE'),
}
# trusted: LP64 C type sizes and signedness
CT = {'bool': (1, None), 'signed char': (1, True), 'unsigned char': (1, False), 'short': (2, True), 'unsigned short': (2, False),
      'int': (4, True), 'unsigned int': (4, False), 'long': (8, True), 'unsigned long': (8, False), 'long long': (8, True),
      'unsigned long long': (8, False), 'float': (4, None), 'double': (8, None)}
STORED = ['Bool', 'Int8', 'Int16', 'Int32', 'Int64', 'UInt8', 'UInt16', 'UInt32', 'UInt64', 'Float', 'Double', 'String']


def _macro_of(ret):
    x = unwrap(ret.c[0]) if ret is not None and ret.c else None
    if x is None:
        return None
    t = repr(term(x))
    for nm in ('boolfiletype', 'boolmemtype', 'makeStrType'):
        if nm in t:
            return nm
    for y in x.walk():
        if y.get('macro') and str(y.get('macro')).startswith('H5T_'):
            return y.get('macro')
    return None


def encoder_table(prog, q):
    f = prog.fn(q)
    sw, tab, after = enum_switch_table(f)
    out = {}
    for e in enumerators(prog, 'nix::DataType'):
        stmts = tab.get(e, tab.get('default'))
        r = first_return(stmts or [])
        out[e.split('::')[-1]] = _macro_of(r) if r is not None else ('throw' if (has_throw(stmts or []) or has_throw(after)) else None)
    return f, out


def run_datatype(prog, rep):
    rule = rep.rule('R-CODEC-DT', 'element type: file type, memory type, decoder, element size and to_data_type<T> agree for all stored types', floor=40)
    ff, ft = encoder_table(prog, 'nix::hdf5::data_type_to_h5_filetype')
    mf, mt = encoder_table(prog, 'nix::hdf5::data_type_to_h5_memtype')
    dec = [f for f in prog.fns('nix::hdf5::data_type_from_h5') if len(f.params) == 3][0]
    dec1 = [f for f in prog.fns('nix::hdf5::data_type_from_h5') if len(f.params) == 1][0]
    sz = prog.fn('nix::data_type_to_size')
    _, sztab, _ = enum_switch_table(sz)
    # to_data_type<T> rows
    trows = {}
    for q, vs in prog.vars.items():
        m = re.match(r'nix::to_data_type<(.+)>::value$', q)
        if m and vs and vs[0].get('v') is not None:
            trows.setdefault(vs[0]['v'], set()).add(m.group(1))
    evals = {x['name']: x['value'] for x in prog.enums['nix::DataType']['enumerators']}

    def decode(cls, size, sign):
        it = GenericInterp(prog)
        res = it.enumerate(dec, this=None, args=[('e', cls), size, ('e', sign)])
        outs = set(o for a, o, l, fl in res)
        return outs

    for e in STORED:
        fm, mm = ft.get(e), mt.get(e)
        key = 'DataType::%s' % e
        if e == 'Bool':
            rule.check(fm == 'boolfiletype' and mm == 'boolmemtype', key + '|types', rep.where(ff), ff.q, 'Bool <-> enum file type / enum memory type', 'Bool maps to %s / %s' % (fm, mm))
            outs = decode('H5T_ENUM', 1, 'H5T_SGN_2')
            rule.check(outs == {('ret', ('e', 'nix::DataType::Bool'))}, key + '|decode', rep.where(dec), dec.q, 'a 1-byte enum decodes to Bool', 'a 1-byte enum decodes to %r' % (outs,))
        elif e == 'String':
            rule.check(fm == 'makeStrType' and mm == 'makeStrType', key + '|types', rep.where(ff), ff.q, 'String <-> variable-length string type in file and memory', 'String maps to %s / %s' % (fm, mm))
            outs = decode('H5T_STRING', 8, 'H5T_SGN_NONE')
            rule.check(outs == {('ret', ('e', 'nix::DataType::String'))}, key + '|decode', rep.where(dec), dec.q, 'a string type decodes to String', 'a string type decodes to %r' % (outs,))
        else:
            fr, mr = H5.get(fm), H5.get(mm)
            rule.check(fr is not None and mr is not None and fr == mr, key + '|types', rep.where(ff), ff.q,
                       '%s: file %s and memory %s are the same class/size/sign %s' % (e, fm, mm, fr),
                       '%s: file type %s %s and memory type %s %s differ (or are unknown)' % (e, fm, fr, mm, mr))
            if fr is not None:
                outs = decode(*fr)
                rule.check(outs == {('ret', ('e', 'nix::DataType::' + e))}, key + '|decode', rep.where(dec), dec.q,
                           'file type %s reads back as %s' % (fm, e), 'file type %s %s reads back as %r, not %s' % (fm, fr, outs, e))
                # element size
                r = first_return(sztab.get('nix::DataType::' + e, sztab.get('default')) or [])
                sv = None
                if r is not None:
                    x = unwrap(r.c[0])
                    sv = x.get('v') if x.k in ('int', 'sizeof') else None
                rule.check(sv == fr[1], key + '|size', rep.where(sz), sz.q, 'data_type_to_size(%s) = %d' % (e, fr[1]), 'data_type_to_size(%s) = %r, the file/memory types have %d bytes' % (e, sv, fr[1]))
        # to_data_type<T>
        ts = trows.get(evals[e], set())
        arith = [t for t in ts if t in CT]
        if e not in ('String',):
            okt = bool(arith)
            why = 'no arithmetic C type maps to %s' % e
            for t in arith:
                size, signed = CT[t]
                if e == 'Bool':
                    okt = okt and t == 'bool'
                else:
                    fr = H5.get(ft.get(e))
                    if fr is None:
                        okt = False
                        continue
                    want_signed = None if fr[0] == 'H5T_FLOAT' else (fr[2] == 'H5T_SGN_2')
                    if size != fr[1] or (want_signed is not None and signed is not want_signed) or ((fr[0] == 'H5T_FLOAT') != (t in ('float', 'double'))):
                        okt = False
                        why = 'to_data_type<%s> is %s but the stored type is %s' % (t, e, fr)
            rule.check(okt, key + '|to_data_type', 'include/nix/DataType.hpp:0', 'nix::to_data_type', 'C types %s map to %s with matching size/sign' % (sorted(arith), e), why)
    # unsupported element types are rejected by the encoder, not silently mapped
    for e in ('Char', 'Nothing'):
        rule.check(ft.get(e) == 'throw', 'DataType::%s|rejected' % e, rep.where(ff), ff.q, '%s has no file type: throws' % e, '%s silently maps to %s' % (e, ft.get(e)))
    # decoder of a whole type object routes to the 3-argument decoder with the type's own class/size/sign
    def conc(interp, n, env):
        if n.k == 'call' and n.get('member') and (n.callee or {}).get('cls') == 'nix::hdf5::h5x::DataType':
            nm = n.callee.get('name')
            if nm == 'class_t':
                return ('e', 'H5T_INTEGER')
            if nm == 'size':
                return 4
            if nm == 'sign':
                return ('e', 'H5T_SGN_NONE')
        return NotImplemented
    it = GenericInterp(prog, concrete=conc, inline=lambda fn: fn.usr == dec.usr)
    res = it.enumerate(dec1, this=None, args=[('dtype',)])
    outs = set(o for a, o, l, fl in res)
    rule.check(outs == {('ret', ('e', 'nix::DataType::UInt32'))}, 'data_type_from_h5(type)|routing', rep.where(dec1), dec1.q,
               'an unsigned 4-byte integer type object decodes to UInt32 via its class/size/sign', 'decodes to %r' % (outs,))
    return rule


def run_string_enum(prog, rep, enum, to_q, from_q, what):
    """enum <-> string codec: from(to(e)) == e for every enumerator the encoder accepts"""
    rule = rep.rule('R-CODEC-' + what, '%s is stored as a string that decodes back to the same enumerator' % enum.split('::')[-1], floor=3)
    to_f = prog.fn(to_q)
    from_f = prog.fn(from_q)
    ens = enumerators(prog, enum)
    for e in ens:
        it = GenericInterp(prog)
        res = it.enumerate(to_f, this=None, args=[('e', e)])
        outs = set(o for a, o, l, fl in res if not any(k[0] == 'bool' and k[1] == 'empty' and v for k, v in a.items()))
        strs = set()
        for o in outs:
            if o[0] == 'ret' and isinstance(o[1], str):
                strs.add(o[1])
        if len(strs) != 1:
            # vector-indexed table: link_type_names[static_cast<int>(e)]
            rule.bad('%s|%s|encode' % (what, e.split('::')[-1]), rep.where(to_f), to_f.q, 'encoder does not yield one string for %s: %r' % (e, outs))
            continue
        s = list(strs)[0]

        def conc(interp, n, env, s=s):
            return NotImplemented
        it2 = GenericInterp(prog)
        res2 = it2.enumerate(from_f, this=None, args=[s])
        outs2 = set(o for a, o, l, fl in res2)
        rule.check(outs2 == {('ret', ('e', e))}, '%s|%s|roundtrip' % (what, e.split('::')[-1]), rep.where(from_f), from_f.q,
                   '%s -> "%s" -> %s' % (e.split('::')[-1], s, e.split('::')[-1]), '%s is written as "%s", which reads back as %r' % (e.split('::')[-1], s, outs2))
    return rule


def run_dim_open(prog, rep):
    """the stored dimension kind is dispatched to the class whose dimensionType() is that kind, and that class stores its own kind"""
    rule = rep.rule('R-CODEC-DIMOPEN', 'openDimensionHDF5 builds, for each stored DimensionType, the class that reports (and stores) that type', floor=4)
    op = prog.fn('nix::hdf5::openDimensionHDF5')
    sw, tab, after = enum_switch_table(op)
    # the switch operand derives from dimensionTypeFromStr(attribute "dimension_type")
    fl = Flow(Sem(prog), op)
    names = fl.call_names(sw.c[0])
    rule.check('dimensionTypeFromStr' in names and 'getAttr' in names, 'openDimensionHDF5|operand', rep.where(sw), op.q,
               'dispatch operand is dimensionTypeFromStr(getAttr("dimension_type"))', 'dispatch operand derives from %s' % sorted(names))
    st = prog.fn('nix::hdf5::DimensionHDF5::setType')
    sn = [c for c in st.calls(name='setAttr')]
    okset = bool(sn) and 'dimensionTypeToStr' in Flow(Sem(prog), st).call_names(real_args(sn[0])[1]) and 'dimensionType' in Flow(Sem(prog), st).call_names(real_args(sn[0])[1])
    rule.check(okset, 'DimensionHDF5::setType|stores-own-kind', rep.where(st), st.q, 'setType stores dimensionTypeToStr(dimensionType())', 'setType does not store the encoder of the virtual dimensionType()')
    for e in enumerators(prog, 'nix::DimensionType'):
        stmts = tab.get(e, tab.get('default')) or []
        made = [c for s in stmts if s is not None for c in s.walk() if c.k == 'call' and (c.callee or {}).get('name') == 'make_shared']
        cls = None
        for m in made:
            mm = re.search(r'shared_ptr<(?:std::_NonArray<)?([\w:]+)>', m.t or '')
            if mm:
                cls = mm.group(1)
        key = 'openDimensionHDF5|%s' % e.split('::')[-1]
        if cls is None:
            rule.bad(key, rep.where(sw), op.q, 'no object is built for stored kind %s' % e)
            continue
        q = cls if cls.startswith('nix::') else 'nix::hdf5::' + cls
        dts = [f for f in prog.methods_of(q) if f.name == 'dimensionType' and f.body is not None]
        ret = None
        if dts:
            r = first_return(dts[0].body.c)
            if r is not None:
                t = term(unwrap(r.c[0]))
                ret = t[1] if t[0] == 'e' else None
        ctor_sets = any(c.callee.get('name') == 'setType' for f in prog.methods_of(q) if f.kind == 'ctor' and f.body is not None for c in f.calls())
        rule.check(ret == e and ctor_sets, key, rep.where(sw), op.q, '%s -> %s, whose dimensionType() is %s and whose constructors call setType()' % (e.split('::')[-1], cls, e.split('::')[-1]),
                   'stored kind %s opens %s whose dimensionType() returns %s (constructors call setType: %s)' % (e, cls, ret, ctor_sets))
    return rule


# time stamps are stored as text: the text codec must be a function of the time_t alone
TIME_ENV_DEP = ('localtime', 'localtime_r', 'mktime', 'timelocal', 'strftime', 'strptime', 'ctime', 'ctime_r', 'asctime',
                'tzset', 'setlocale', 'getenv', 'local_time', 'utc_to_local', 'local_to_utc', 'imbue', 'getloc', 'global')
TIME_ENV_CLS = ('c_local_adjustor', 'local_adjustor', 'local_date_time', 'time_zone', 'locale')
TIME_FORMAT_PAIRS = {'to_iso_string': ('from_iso_string',), 'to_iso_extended_string': ('from_iso_extended_string', 'time_from_string'),
                     'to_simple_string': ('time_from_string',)}


def run_time_codec(prog, rep):
    """timeToStr / strToTime are inverse, environment-independent conversions"""
    rule = rep.rule('R-TIMECODEC', 'the time stamp text codec (timeToStr / strToTime) depends on the time_t alone: no time-zone, locale or environment dependent call, and parser and formatter use the same text format', floor=3)
    enc = prog.fn('nix::util::timeToStr')
    dec = prog.fn('nix::util::strToTime')
    seen = {}
    for f in (enc, dec):
        # the function and every nix:: function it reaches
        todo, fs = [f], []
        while todo:
            g = todo.pop()
            if g in fs or g.body is None:
                continue
            fs.append(g)
            for c in g.calls():
                if (c.callee.get('q') or '').startswith('nix::'):
                    todo.extend(prog.resolve_call(c) or [])
        probs = []
        names = []
        for g in fs:
            for c in g.calls():
                nm, q = c.callee.get('name') or '', c.callee.get('q') or ''
                names.append(nm)
                if nm in TIME_ENV_DEP or any(k in q for k in TIME_ENV_CLS):
                    probs.append('%s at %s' % (q or nm, rep.where(c)))
        seen[f] = names
        if not names:
            raise AnalysisBroken('R-TIMECODEC: no calls found in %s' % f.q)
        rule.check(not probs, '%s|environment-independent' % f.q.split('::')[-1], rep.where(f), f.label(),
                   '%d call(s) in %d function(s), none depends on the time zone, the locale or the environment' % (len(names), len(fs)),
                   'calls %s: the text written for a time stamp (or the time read back from it) changes with TZ / locale, so a file reopened in another process or environment shows other creation times' % '; '.join(probs))
    fm = [n for n in seen[enc] if n in TIME_FORMAT_PAIRS]
    ps = [n for n in seen[dec] if n.startswith('from_') or n == 'time_from_string']
    ok = len(fm) == 1 and len(ps) == 1 and ps[0] in TIME_FORMAT_PAIRS[fm[0]]
    rule.check(ok, 'timeToStr~strToTime|format', rep.where(enc), enc.label(), 'formatter %s, parser %s' % (fm, ps),
               'formatter %s and parser %s are not a matching pair' % (fm or 'none recognised', ps or 'none recognised'))
    return rule


def run_classify(prog, rep):
    """R-CLASSIFY: the pre-check predicates agree with the encoder: a DataType counts as numeric exactly when the file-type
    encoder maps it to a predefined integer/float type, and data_types_convertible(a, b) holds only for pairs the encoder can store.
    Evaluated exhaustively over the enumerators of nix::DataType (finite domain) by interpreting the predicates' source."""
    rule = rep.rule('R-CLASSIFY', 'data_type_is_numeric / data_types_convertible accept only element types the HDF5 encoder handles '
                    '(otherwise a write is refused only after the resize)', floor=20)
    ff, ft = encoder_table(prog, 'nix::hdf5::data_type_to_h5_filetype')
    isnum = prog.fn('nix::data_type_is_numeric')
    conv = prog.fn('nix::data_types_convertible')
    en = prog.enums['nix::DataType']['enumerators']
    evals = {x['name']: x['value'] for x in en}

    def conc(interp, n, env):
        return NotImplemented

    def val(name):
        return ('e', 'nix::DataType::' + name)

    def ev(fn, args):
        it = GenericInterp(prog, inline=lambda g: g.usr in (isnum.usr, conv.usr))
        res = it.enumerate(fn, this=None, args=args)
        return set(o for a, o, l, fl in res)

    numeric = {}
    for x in en:
        e = x['name']
        outs = ev(isnum, [val(e)])
        enc = H5.get(ft.get(e))
        want = enc is not None and enc[0] in ('H5T_INTEGER', 'H5T_FLOAT')
        if outs not in ({('ret', True)}, {('ret', False)}):
            raise AnalysisBroken('R-CLASSIFY: data_type_is_numeric(%s) evaluates to %r' % (e, outs))
        got = outs == {('ret', True)}
        numeric[e] = got
        rule.check(got == want, 'data_type_is_numeric|%s' % e, rep.where(isnum), isnum.q,
                   '%s: numeric=%s, encoder maps it to %s' % (e, got, ft.get(e)),
                   'data_type_is_numeric(DataType::%s) is %s but the file-type encoder maps %s to %s: the convertibility pre-check of '
                   'setData/appendData %s it, so the refusal comes %s' % (e, got, e, ft.get(e), 'accepts' if got else 'rejects',
                                                                          'after the data set was resized' if got else 'for a storable type'))
    for a in en:
        for b in en:
            outs = ev(conv, [val(a['name']), val(b['name'])])
            if outs not in ({('ret', True)}, {('ret', False)}):
                raise AnalysisBroken('R-CLASSIFY: data_types_convertible(%s, %s) evaluates to %r' % (a['name'], b['name'], outs))
            if outs == {('ret', True)}:
                ok = all(ft.get(z['name']) not in (None, 'throw') for z in (a, b))
                rule.check(ok, 'data_types_convertible|%s,%s' % (a['name'], b['name']), rep.where(conv), conv.q,
                           '%s -> %s convertible, both storable' % (a['name'], b['name']),
                           'data_types_convertible(%s, %s) is true but the encoder has no HDF5 type for one of them' % (a['name'], b['name']))
    return rule
