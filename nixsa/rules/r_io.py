"""C01 rules: argument roles of the HDF5 wrappers (R-ROLE), growable storage (R-CREATE), read/write path
symmetry, append bookkeeping, calibration placement."""
import re

from ..absint import GenericInterp, Opaque
from ..extract import AnalysisBroken
from ..sem import Sem, Flow, term, unwrap, real_args
from ..tables import enum_switch_table, enumerators, has_throw
from .r_flow import contains


def pv(f, name):
    for p in f.params:
        if p['name'] == name:
            return ('v', p['lid'], p['name'])
    raise AnalysisBroken('%s: parameter %s vanished' % (f.q, name))


def run_roles(prog, rep):
    rule = rep.rule('R-ROLE', 'same-typed arguments of the wrapped HDF5 calls sit in the right positions', floor=5)
    f = prog.fn('nix::hdf5::DataSpace::hyperslab')
    c = f.calls(name='H5Sselect_hyperslab')[0]
    a = [term(x) for x in c.c]
    ok = a[2] == ('m', 'data', pv(f, 'start')) and a[4] == ('m', 'data', pv(f, 'count')) and a[3] == ('k', None) and a[5] == ('k', None) and a[0] == ('f', 'hid')
    rule.check(ok, 'DataSpace::hyperslab|args', rep.where(c), f.q, 'H5Sselect_hyperslab(hid, op, start, stride=null, count, block=null)',
               'H5Sselect_hyperslab receives start=%s stride=%s count=%s block=%s' % (c.c[2].src(), c.c[3].src(), c.c[4].src(), c.c[5].src()))
    f = prog.fn('nix::hdf5::H5Group::createLink')
    c = f.calls(name='H5Lcreate_hard')[0]
    a = [term(x) for x in c.c]
    ok = a[0] == ('mem', 'hid', pv(f, 'target')) and a[2] == ('f', 'hid') and a[3] == ('m', 'c_str', pv(f, 'link_name')) and a[1] == ('k', '.')
    rule.check(ok, 'H5Group::createLink|args', rep.where(c), f.q, 'H5Lcreate_hard(target.hid, ".", this.hid, link_name)', 'link source/destination or name are not in their positions: %s' % c.src(120))
    f = [x for x in prog.fns('nix::hdf5::DataSpace::create') if 'NDSize &, const nix::NDSize &' in x.sig or (len(x.params) == 2 and 'NDSize' in x.params[1]['type'])][0]
    cs = f.calls(name='H5Screate_simple')
    ok = bool(cs)
    for c in cs:
        a = [term(x) for x in c.c]
        ok = ok and a[1] == ('m', 'data', pv(f, 'dims')) and a[2] in (('m', 'data', pv(f, 'maxdims')), ('k', None))
    rule.check(ok, 'DataSpace::create|args', rep.where(f), f.q, 'H5Screate_simple(rank, dims, maxdims|null)')
    f = [x for x in prog.fns('nix::hdf5::h5x::DataType::insert') if len(x.params) == 3][0]
    c = f.calls(name='H5Tinsert')[0]
    a = [term(x) for x in c.c]
    ok = a[1] == ('m', 'c_str', pv(f, 'name')) and a[2] == pv(f, 'offset') and a[3] == ('mem', 'hid', pv(f, 'dtype'))
    rule.check(ok, 'DataType::insert|args', rep.where(c), f.q, 'H5Tinsert(hid, name, offset, member type)')
    # DataSet::read / write: (memory type, memory space, file space, data) in the positions H5Dread / H5Dwrite expect
    for nm, api in (('read', 'H5Dread'), ('write', 'H5Dwrite')):
        cands = [x for x in prog.fns('nix::hdf5::DataSet::' + nm) if x.body is not None and x.calls(name=api)]
        if not cands:
            raise AnalysisBroken('anchor vanished: DataSet::%s calling %s' % (nm, api))
        for f in cands:
            c = f.calls(name=api)[0]
            a = [term(x) for x in c.c]
            pn = {p['name']: ('v', p['lid'], p['name']) for p in f.params}
            mt = [p for p in f.params if 'DataType' in p['type']]
            sp = [p for p in f.params if 'DataSpace' in p['type']]
            dp = [p for p in f.params if 'void' in p['type']]
            ok = len(mt) == 1 and len(sp) == 2 and len(dp) == 1 and a[0] == ('f', 'hid') and a[1] == ('m', 'h5id', pn[mt[0]['name']]) \
                and a[2] == ('m', 'h5id', pn[sp[0]['name']]) and a[3] == ('m', 'h5id', pn[sp[1]['name']]) and a[5] == pn[dp[0]['name']] \
                and 'mem' in sp[0]['name'].lower() and 'file' in sp[1]['name'].lower()
            rule.check(ok, 'DataSet::%s|args' % nm, rep.where(c), f.label(), '%s(hid, memType, memSpace, fileSpace, H5P_DEFAULT, data)' % api,
                       '%s receives %s' % (api, c.src(120)))
    # offsetCount2DataSpaces(count, offset): memory space from count, file selection hyperslab(count, offset)
    f = prog.fn('nix::hdf5::DataSet::offsetCount2DataSpaces')
    it = GenericInterp(prog, watch=lambda n: (n.callee or {}).get('name') in ('hyperslab', 'create', 'getSpace'))
    res = it.enumerate(f, this='THIS', args=[('count',), ('offset',)])
    probs = []
    sel = 0
    for assign, out, log, fields in res:
        cr = [l for l in log if l[0] == 'create']
        hs = [l for l in log if l[0] == 'hyperslab']
        if not cr or cr[0][1] != ('count',):
            probs.append('memory space is not created from count')
        if hs:
            sel += 1
            has_cnt = [v for k, v in assign.items() if k[0] == 'truthy' and k[1] == ('count',)]
            if has_cnt and has_cnt[0]:
                if hs[0][2:4] != (('count',), ('offset',)):
                    probs.append('file selection is hyperslab%r, expected (count, offset)' % (hs[0][2:],))
            else:
                c0 = hs[0][2]
                if not (isinstance(c0, tuple) and c0[:1] == ('new',) and c0[-1] == 1) or hs[0][3] != ('offset',):
                    probs.append('without a count the selection must be one element per dimension at offset, got %r' % (hs[0][2:],))
            if 'getSpace' not in repr(hs[0][1]):
                probs.append('the hyperslab is not selected on the data set\'s file space')
        if out[0] == 'ret':
            rv = out[1]
            if not (isinstance(rv, tuple) and len(rv) == 4 and rv[0] == 'new' and isinstance(rv[2], tuple) and rv[2][:2] == ('call', 'nix::hdf5::DataSpace::create') and rv[2][2] == ('count',)
                    and 'getSpace' in repr(rv[3])):
                probs.append('the pair returned is not (memory space created from count, file space of the data set): the memory layout would not be the shape of the caller\'s buffer')
    if sel == 0:
        probs.append('no path selects a hyperslab')
    rule.check(not probs, 'DataSet::offsetCount2DataSpaces|selection', rep.where(f), f.q, 'memory space = count, file space = hyperslab(count, offset)', '; '.join(sorted(set(probs))))
    return rule


def _cond_text(assign):
    parts = []
    for k, v in sorted(assign.items(), key=repr):
        parts.append(('' if v else '!') + repr(k)[:80])
    return ' && '.join(parts)[:240] or 'always'


def run_paths(prog, rep):
    """DataArrayHDF5::read and ::write are mirror images"""
    rule = rep.rule('R-IOPATH', 'DataArrayHDF5::read/write select the same region, use the same memory type and marshal strings symmetrically', floor=1)
    rd = prog.fn('nix::hdf5::DataArrayHDF5::read')
    wr = prog.fn('nix::hdf5::DataArrayHDF5::write')
    rows = {}
    silent = []
    for f, sink, helper in ((rd, 'read', 'StringWriter'), (wr, 'write', 'StringReader')):
        for is_str in (True, False):
            def conc(interp, n, env, is_str=is_str):
                return NotImplemented
            it = GenericInterp(prog, watch=lambda n: (n.callee or {}).get('name') in ('offsetCount2DataSpaces', sink, 'openData', 'finish', 'vlenReclaim', 'data_type_to_h5_memtype') or n.k == 'construct' and 'String' in ((n.callee or {}).get('cls') or ''))
            res = it.enumerate(f, this='THIS', args=[('dtype',), ('data',), ('count',), ('offset',)])
            for assign, out, log, fields in res:
                if out[0] != 'ret':
                    continue
                if not [l for l in log if l[0] == sink]:
                    silent.append('%s: a path returns normally without any data set %s (taken when %s)' % (sink, sink, _cond_text(assign)))
                strk = [v for k, v in assign.items() if k[0] == 'cmp' and k[1] == '==' and contains(k, ('e', 'nix::DataType::String'))]
                if not strk:
                    continue
                rows[(sink, strk[0])] = log
    probs = list(silent)
    for sink in ('read', 'write'):
        for s in (True, False):
            log = rows.get((sink, s))
            if log is None:
                probs.append('%s: no path for %s element types' % (sink, 'String' if s else 'non-String'))
                continue
            oc = [l for l in log if l[0] == 'offsetCount2DataSpaces']
            if not oc or oc[0][-2:] != (('count',), ('offset',)):
                probs.append('%s: region is not offsetCount2DataSpaces(count, offset)' % sink)
            od = [l for l in log if l[0] == 'openData']
            if not od or od[0][-1] != 'data':
                probs.append('%s: data set opened is not "data"' % sink)
            mt = [l for l in log if l[0] == 'data_type_to_h5_memtype']
            if not mt or mt[0][-1] != ('dtype',):
                probs.append('%s: memory type is not derived from the requested element type' % sink)
            helper = [l for l in log if l[0].startswith('new ') and 'String' in l[0]]
            if s and not helper:
                probs.append('%s: String data is not marshalled through %s' % (sink, 'StringWriter' if sink == 'read' else 'StringReader'))
            if not s and helper:
                probs.append('%s: non-String data goes through the string marshaller' % sink)
            if s and sink == 'read':
                names = [l[0] for l in log]
                if 'finish' not in names or 'vlenReclaim' not in names or names.index('finish') > names.index('vlenReclaim') or names.index('read') > names.index('finish'):
                    probs.append('read: String path must be read -> finish (copy out) -> vlenReclaim')
            io = [l for l in log if l[0] == sink]
            if not io:
                probs.append('%s: no data set %s' % (sink, sink))
    rule.check(not probs, 'DataArrayHDF5|read-write-symmetry', rep.where(rd), 'nix::hdf5::DataArrayHDF5', 'both directions: openData("data"), memtype(dtype), offsetCount2DataSpaces(count, offset), string marshalling only for String', '; '.join(sorted(set(probs))))
    return rule


def run_append(prog, rep):
    rule = rep.rule('R-APPEND', 'appendData: offset along axis = old extent, extent grows by count[axis], resize precedes the write, other dimensions must match', floor=4)
    f = prog.fn('nix::DataArray::appendData')
    it = GenericInterp(prog, watch=lambda n: (n.callee or {}).get('name') in ('dataExtent', 'setData'))
    it.loop_once = True
    it.loop_fork = False
    it.log_terms = True
    res = it.enumerate(f, this='THIS', args=[(p['name'],) for p in f.params])
    probs = {'offset': [], 'extent': [], 'order': [], 'guards': []}
    nret = 0
    nshape = [0]
    for assign, out, log, fields in res:
        if out[0] != 'ret':
            continue
        nret += 1
        stores = [l for l in log if l[0] == 'store']
        EXT = ('call', 'dataExtent', 'THIS')
        off = [s for s in stores if s[2] == '=' and s[1][2] == ('axis',)]
        grow = [s for s in stores if s[2] == '+=' and s[1][2] == ('axis',)]
        if not off or off[0][3] != ('call', 'nix::NDSizeBase<unsigned long long>::operator[]', EXT, ('axis',)):
            probs['offset'].append('offset[axis] is not the extent along axis read before growing: %r' % (off[0][3] if off else None,))
        if not grow or not (isinstance(grow[0][3], tuple) and grow[0][3][:1] == ('call',) and grow[0][3][2] == ('count',) and grow[0][3][3] == ('axis',)):
            probs['extent'].append('extent[axis] is not increased by count[axis]: %r' % (grow[0] if grow else None,))
        if off and grow and log.index(off[0]) > log.index(grow[0]):
            probs['order'].append('offset is taken after the extent was increased')
        names = [l[0] for l in log if l[0] in ('dataExtent', 'setData')]
        # dataExtent() getter, then dataExtent(extent) setter, then setData
        if names.count('dataExtent') < 2 or 'setData' not in names or names.index('setData') < len([x for x in names if x == 'dataExtent']):
            probs['order'].append('the array is not enlarged before the new data is written: %s' % names)
        sd = [l for l in log if l[0] == 'terms' and l[1] == 'setData']
        if sd and off and (sd[0][-1][:2] != ('v', off[0][1][1][1])):
            probs['offset'].append('setData is not given the computed offset')
        if sd and sd[0][-2][:1] == ('v',) and sd[0][-2][2] != 'count':
            probs['offset'].append('setData is not given the caller\'s count')
        rank = [v for k, v in assign.items() if k[0] == 'cmp' and k[1] == '==' and repr(k).count("'size'") >= 2]
        axis = [v for k, v in assign.items() if k[0] == 'cmp' and k[1] == '<' and ('axis',) in k]
        if not rank or rank[0] is not True:
            probs['guards'].append('data appended without rank(count) == rank(extent)')
        if not axis:
            probs['guards'].append('data appended without checking the axis against the rank')
        # shape: for an arbitrary dimension i other than the axis, extent[i] == count[i] was established (component by component,
        # or by comparing the whole shape with the axis entry patched); a comparison of element counts does not establish it
        is_axis = [v for k, v in assign.items() if k[0] == 'cmp' and k[1] == '==' and ('axis',) in k[2:4] and any(isinstance(x, tuple) and x[:1] == ('iter',) for x in k[2:4])]
        comp = [v for k, v in assign.items() if k[0] == 'cmp' and k[1] == '==' and 'operator[]' in repr(k[2]) and 'operator[]' in repr(k[3]) and
                'dataExtent' in repr(k) and "('count',)" in repr(k) and "('iter'" in repr(k[2]) and "('iter'" in repr(k[3])]
        whole = [v for k, v in assign.items() if k[0] == 'cmp' and k[1] == '==' and 'nelms' not in repr(k) and 'operator[]' not in repr(k) and 'size' not in repr(k) and
                 "('count',)" in repr(k) and ('dataExtent' in repr(k) or 'carried' in repr(k) or "'v'" in repr(k))]
        nshape[0] += 1 if (comp or whole) else 0
        if is_axis and is_axis[0] is False and not (comp and comp[0] is True):
            probs['guards'].append('a dimension other than the axis is accepted without extent[i] == count[i]')
        elif not is_axis and not (whole and whole[0] is True):
            probs['guards'].append('data appended without comparing the shape of the data with the shape of the array in the dimensions other than the axis (equal element counts do not imply equal shapes from rank 3 on)')
    if nret == 0:
        raise AnalysisBroken('appendData: no returning abstract path')
    for k, v in probs.items():
        rule.check(not v, 'DataArray::appendData|%s' % k, rep.where(f), f.q, '%s holds on all %d returning paths' % (k, nret), '; '.join(sorted(set(v))[:2]))
    return rule


def run_calibration(prog, rep):
    rule = rep.rule('R-CALIB', 'calibration is applied only on the read path: read as Double -> polynomial(coefficients, origin) -> convert to the requested type', floor=4)
    ap = prog.fn('nix::util::applyPolynomial')
    callers = sorted(set(c[0].q for c in prog.callers().get(ap.usr, [])))
    rule.check(callers == ['nix::DataArray::ioRead'], 'applyPolynomial|who-calls', rep.where(ap), ap.q, 'applyPolynomial is called only from DataArray::ioRead', 'applyPolynomial is also called from %s: raw/stored values would be transformed' % callers)
    # convertData: every normally returning path converts (source memtype -> destination memtype, nelms elements, in the buffer),
    # except where the path established source == destination or nelms == 0
    cvf = [x for x in prog.funcs.values() if x.name == 'convertData' and x.body is not None and prog.rel(x.file).endswith('DataArray.cpp')]
    if len(cvf) != 1:
        raise AnalysisBroken('R-CALIB: convertData not found')
    cvf = cvf[0]
    pn = [p['name'] for p in cvf.params]
    itc = GenericInterp(prog, watch=lambda n: (n.callee or {}).get('name') in ('H5Tconvert', 'check', 'data_type_to_h5_memtype'))
    cprobs = []
    nconv = 0
    for assign, out, log, fields in itc.enumerate(cvf, this=None, args=[(x,) for x in pn]):
        if out[0] != 'ret':
            continue
        cv = [l for l in log if l[0] == 'H5Tconvert']
        if not cv:
            same = [v for k, v in assign.items() if k[0] == 'cmp' and k[1] == '==' and set(k[2:4]) == {(pn[0],), (pn[1],)}]
            zero = [v for k, v in assign.items() if k[0] == 'cmp' and k[1] == '==' and (pn[3],) in k[2:4] and 0 in k[2:4]]
            if (same and same[0]) or (zero and zero[0]):
                continue
            cprobs.append('a path returns without H5Tconvert although source and destination type may differ (taken when %s)' % _cond_text(assign))
            continue
        nconv += 1
        c0 = cv[0]
        want = (('call', 'h5id', ('call', 'nix::hdf5::data_type_to_h5_memtype', (pn[0],))), ('call', 'h5id', ('call', 'nix::hdf5::data_type_to_h5_memtype', (pn[1],))), (pn[3],), (pn[2],))
        if tuple(c0[1:5]) != want:
            cprobs.append('H5Tconvert is not (memtype(source), memtype(destination), nelms, data): %r' % (c0[1:5],))
        if not [l for l in log if l[0] == 'check']:
            cprobs.append('the result of H5Tconvert is not checked')
    if not nconv:
        cprobs.append('no converting path')
    rule.check(not cprobs, 'convertData|converts', rep.where(cvf), cvf.q, 'every returning path converts nelms elements from memtype(source) to memtype(destination) in place and checks the result', '; '.join(sorted(set(cprobs))[:2]))
    # the calibrated branch works on doubles in the caller's buffer: it must have refused text elements (std::string objects) before
    io0 = prog.fn('nix::DataArray::ioRead')
    apc = [c for c in io0.calls() if (c.callee or {}).get('name') == 'getDataDirect']
    calib = [c for c in apc if "'nix::DataType::Double'" in repr([term(unwrap(a)) for a in real_args(c) if a is not None][:1])]
    if not calib:
        # no Double read at all: the path clauses below report that; the text clause is then decided at the polynomial call
        calib = [c for c in io0.calls() if (c.callee or {}).get('name') == 'applyPolynomial']
        if not calib:
            raise AnalysisBroken('R-CALIB: neither the Double read nor applyPolynomial found in DataArray::ioRead')
    fct = Sem(prog).facts_at(io0, calib[0].id)
    dt = io0.params[0]['name']
    nostr = any(isinstance(t, tuple) and len(t) == 4 and t[0] in ('b', 'op') and dt in repr(t) and "'nix::DataType::String'" in repr(t) and ((t[1] == '==' and pol is False) or (t[1] == '!=' and pol is True)) for t, pol in fct)
    rule.check(nostr, 'DataArray::ioRead|no-text', rep.where(calib[0]), io0.q, 'the calibrated branch is entered only for a non-String request',
               'the calibrated branch reads doubles into the caller\'s buffer without having refused DataType::String: for a std::string buffer this overwrites string objects (crash when they are destroyed)')
    io = prog.fn('nix::DataArray::ioRead')
    it = GenericInterp(prog, watch=lambda n: (n.callee or {}).get('name') in ('getDataDirect', 'applyPolynomial', 'convertData', 'memcpy'))
    res = it.enumerate(io, this='THIS', args=[('dtype',), ('data',), ('count',), ('offset',)])
    probs = []
    seen_cal = seen_raw = 0
    for assign, out, log, fields in res:
        if out[0] != 'ret':
            continue
        names = [l[0] for l in log]
        has_poly = [v for k, v in assign.items() if k[0] == 'truthy' and 'polynomCoefficients' in repr(k)] + [v for k, v in assign.items() if k[0] == 'cmp' and 'polynomCoefficients' in repr(k)]
        has_org = [v for k, v in assign.items() if k[0] == 'truthy' and 'expansionOrigin' in repr(k) and 'deref' not in repr(k)]
        calibrated = 'applyPolynomial' in names
        # specification of the gate: calibrated iff coefficients are stored or an origin is set
        gate_true = any(has_poly) or any(has_org)
        gate_false = bool(has_poly) and bool(has_org) and not any(has_poly) and not any(has_org)
        if not calibrated and gate_true:
            probs.append('a read with %s takes the raw path: the stored calibration is not applied' % (' and '.join(
                (['stored coefficients'] if any(has_poly) else []) + (['an expansion origin'] if any(has_org) else []))))
        if calibrated and gate_false:
            probs.append('a read without coefficients and origin is transformed')
        if calibrated:
            seen_cal += 1
            g = [l for l in log if l[0] == 'getDataDirect'][0]
            a = [l for l in log if l[0] == 'applyPolynomial'][0]
            cv = [l for l in log if l[0] == 'convertData']
            if g[2] != ('e', 'nix::DataType::Double'):
                probs.append('calibrated read fetches %r instead of Double' % (g[2],))
            if names.index('getDataDirect') > names.index('applyPolynomial'):
                probs.append('polynomial applied before the data is read')
            if not cv or cv[0][1] != ('e', 'nix::DataType::Double') or cv[0][2] != ('dtype',) or names.index('convertData') < names.index('applyPolynomial'):
                probs.append('result is not converted Double -> requested type after the polynomial')
            if 'polynomCoefficients' not in repr(a[1]):
                probs.append('polynomial is not evaluated with the stored coefficients')
            if 'expansionOrigin' not in repr(a[2]) and a[2] != 0.0:
                probs.append('origin argument is %r' % (a[2],))
            if g[-2:] != (('count',), ('offset',)):
                probs.append('calibrated read does not use the requested count/offset')
        else:
            seen_raw += 1
            g = [l for l in log if l[0] == 'getDataDirect']
            if not g or g[0][2] != ('dtype',) or g[0][3] != ('data',):
                probs.append('uncalibrated read is not a direct read into the caller buffer')
    if not (seen_cal and seen_raw):
        probs.append('paths do not cover calibrated and raw reads (%d/%d)' % (seen_cal, seen_raw))
    rule.check(not probs, 'DataArray::ioRead|order', rep.where(io), io.q, 'read(Double) -> applyPolynomial(coefficients, origin) -> convert(Double -> dtype); raw otherwise', '; '.join(sorted(set(probs))[:3]))
    iw = prog.fn('nix::DataArray::ioWrite')
    names = [c.callee.get('name') for c in iw.calls()]
    rule.check('setDataDirect' in names and 'applyPolynomial' not in names and 'convertData' not in names, 'DataArray::ioWrite|raw', rep.where(iw), iw.q, 'writes go to storage untransformed')
    # applyPolynomial: x = input - origin ; Horner/power sum over coefficients
    it = GenericInterp(prog)
    it.loop_once = True
    it.loop_fork = False
    res = it.enumerate(ap, this=None, args=[(p['name'],) for p in ap.params])
    okp = False
    for assign, out, log, fields in res:
        for l in log:
            if l[0] == 'store' and 'output' in repr(l[1]) and contains(l[3], ('bin', '-')) is False:
                pass
        sub = [l for l in log if l[0] == 'store' and "'output'" in repr(l[1])]
        if sub:
            okp = True
    xdef = [v for v in ap.walk() if v.k == 'var' and v.get('name') == 'x' and v.c and v.c[0] is not None]
    shape = bool(xdef) and term(xdef[0].c[0])[0] == 'b' and term(xdef[0].c[0])[1] == '-' and "'origin'" in repr(term(xdef[0].c[0])[3]) and "'input'" in repr(term(xdef[0].c[0])[2])
    rule.check(okp and shape, 'applyPolynomial|argument', rep.where(ap), ap.q, 'the polynomial is evaluated at (input[k] - origin)', 'the polynomial argument is not input - origin')
    return rule


def run_create(prog, rep):
    rule = rep.rule('R-CREATE', 'data sets behind DataArray / Property are created chunked with unlimited maximum extent; compression table', floor=5)
    cd = prog.fn('nix::hdf5::H5Group::createData')
    sw, tab, after = enum_switch_table(cd)
    for e in enumerators(prog, 'nix::Compression'):
        stmts = tab.get(e, tab.get('default')) or []
        defl = [c for s in stmts if s is not None for c in s.walk() if c.k == 'call' and (c.callee or {}).get('name') == 'H5Pset_deflate']
        nm = e.split('::')[-1]
        if nm == 'DeflateNormal':
            lvl = term(defl[0].c[1]) if defl else None
            rule.check(bool(defl) and lvl == ('k', 6), 'createData|compression|' + nm, rep.where(cd), cd.q, 'DeflateNormal -> H5Pset_deflate(dcpl, 6)', 'DeflateNormal sets %r' % (lvl,))
        else:
            rule.check(not defl and not has_throw(stmts), 'createData|compression|' + nm, rep.where(cd), cd.q, '%s -> no filter' % nm, '%s sets a filter or throws' % nm)
    rule.check(has_throw(tab.get('default') or []), 'createData|compression|other', rep.where(cd), cd.q, 'an unknown compression flag is rejected')
    # unlimited maximum extent and chunking on the DataArray path
    it = GenericInterp(prog, watch=lambda n: (n.callee or {}).get('name') in ('create', 'H5Pset_chunk', 'guessChunking', 'H5Dcreate2'))
    res = it.enumerate(cd, this='THIS', args=[('name',), ('fileType',), ('size',), ('e', 'nix::Compression::None'), Opaque(('new', 'nix::NDSizeBase')), Opaque(('new', 'nix::NDSizeBase')), True, True])
    probs = []
    for assign, out, log, fields in res:
        if out[0] != 'ret':
            continue
        szt = [v for k, v in assign.items() if k[0] == 'truthy' and k[1] == ('size',)]
        mx = [v for k, v in assign.items() if k[0] == 'truthy' and 'NDSizeBase' in repr(k) and ('size',) not in k]
        cr = [l for l in log if l[0] == 'create']
        if szt and szt[0] and (not mx or not any(mx)):
            if not cr or cr[0][-1] is not True:
                probs.append('max_size_unlimited=true does not reach DataSpace::create(size, true): %r' % (cr,))
        ch = [l for l in log if l[0] == 'H5Pset_chunk']
        gc = [l for l in log if l[0] == 'guessChunking']
        chunks_given = [v for k, v in assign.items() if k[0] == 'truthy' and 'guessChunking' in repr(k)]
    rule.check(not probs, 'createData|unlimited', rep.where(cd), cd.q, 'default maxSizeUnlimited reaches DataSpace::create(size, true)', '; '.join(sorted(set(probs))))
    da = prog.fn('nix::hdf5::DataArrayHDF5::createData')
    c = da.calls(name='createData')
    okd = bool(c) and len([a for a in real_args(c[0]) if a is not None and a.k != 'defarg']) == 4
    rule.check(okd, 'DataArrayHDF5::createData|defaults', rep.where(da), da.q, 'array data is created with the defaults (unlimited max size, guessed chunks)', 'array data is created with explicit max size / chunk arguments: %s' % (c[0].src(100) if c else ''))
    defaults = {p['name']: p.get('default') for p in cd.params}
    okdef = defaults.get('max_size_unlimited') is not None and term(defaults['max_size_unlimited']) == ('k', True) and defaults.get('guess_chunks') is not None and term(defaults['guess_chunks']) == ('k', True)
    decl = [m for m in prog.records['nix::hdf5::H5Group']['methods'] if m['name'] == 'createData']
    rule.check(okdef or bool(decl), 'H5Group::createData|default-args', rep.where(cd), cd.q, 'createData defaults: max_size_unlimited = true, guess_chunks = true')
    dsc = [x for x in prog.fns('nix::hdf5::DataSpace::create') if len(x.params) == 2 and x.params[1]['type'] == 'bool'][0]
    unl = [n for n in dsc.walk() if n.get('macro') == 'H5S_UNLIMITED']
    facts_ok = False
    if unl:
        sem = Sem(prog)
        fs = sem.facts_at(dsc, unl[0].id)
        facts_ok = any(pol and t == ('v', dsc.params[1]['lid'], dsc.params[1]['name']) for (t, pol) in fs)
    rule.check(bool(unl) and facts_ok, 'DataSpace::create|unlimited', rep.where(dsc), dsc.q, 'maxdims = H5S_UNLIMITED in every dimension when requested')
    return rule


def run_strio(prog, rep):
    """string marshalling helpers: element i of the caller's std::string array <-> element i of the char* transfer buffer, for all nelms"""
    rule = rep.rule('R-STRIO', 'StringWriter/StringReader pair element i of the std::string array with element i of the char* buffer for every element of the selection', floor=4)
    sem = Sem(prog)

    def loops(f):
        return [n for n in f.walk() if n.k == 'for']

    def full_loop(f, lp, bound_ok):
        """for (i = 0; i < bound; i++)"""
        probs = []
        iv = [v for v in (lp.c[0].walk() if lp.c[0] is not None else []) if v.k == 'var']
        if not iv or term(unwrap(iv[0].c[0])) != ('k', 0):
            probs.append('the loop does not start at element 0')
        cond = term(unwrap(lp.c[1])) if lp.c[1] is not None else None
        if not (cond and cond[0] == 'b' and cond[1] == '<' and iv and cond[2] == ('v', iv[0].get('lid'), iv[0].get('name')) and bound_ok(cond[3])):
            probs.append('the loop does not run up to the number of elements (%s)' % (lp.c[1].src(30) if lp.c[1] is not None else None))
        inc = lp.c[2].src(10).replace(' ', '') if lp.c[2] is not None else ''
        if iv and inc not in ('%s++' % iv[0].get('name'), '++%s' % iv[0].get('name')):
            probs.append('the loop does not advance by one element')
        return probs, (('v', iv[0].get('lid'), iv[0].get('name')) if iv else None)

    for cls, loopfn, direction in (('nix::hdf5::StringWriter', 'finish', 'out'), ('nix::hdf5::StringReader', 'StringReader', 'in')):
        ctor = [f for f in prog.fns('%s::%s' % (cls, cls.split('::')[-1])) if f.body is not None and len(f.params) == 2 and 'void' not in f.params[1]['type']]
        if len(ctor) != 1:
            raise AnalysisBroken('anchor vanished: %s(size, pointer)' % cls)
        ctor = ctor[0]
        inits = ' '.join(i.src(60) for i in ctor._inits)
        probs = []
        if 'nelms(%s.nelms())' % ctor.params[0]['name'] not in inits.replace(' ', ''):
            probs.append('nelms is not the number of elements of the selection')
        if 'data(%s)' % ctor.params[1]['name'] not in inits.replace(' ', ''):
            probs.append('data is not the caller\'s array')
        news = [n for n in ctor.walk() if n.k == 'new']
        fl = Flow(sem, ctor)
        if not news or not news[0].c or 'nelms' not in repr(fl.origins([c for c in news[0].c if c is not None][0])):
            probs.append('the transfer buffer is not allocated with nelms entries')
        rule.check(not probs, '%s|ctor' % cls.split('::')[-1], rep.where(ctor), ctor.label(), 'nelms = size.nelms(); buffer = new char*[nelms]; data = caller array', '; '.join(probs))
        f = ctor if direction == 'in' else prog.fn('%s::%s' % (cls, loopfn))
        lps = loops(f)
        probs = []
        if len(lps) != 1:
            probs.append('expected one loop over the elements')
        else:
            def bound_ok(t, f=f):
                if t == ('f', 'nelms'):
                    return True
                if t[0] == 'v':
                    v = sem.local_vars(f).get(t[1])
                    return v is not None and v.c and v.c[0] is not None and 'nelms' in v.c[0].src(80)
                return False
            p, iv = full_loop(f, lps[0], bound_ok)
            probs += p
            asg = [n for n in lps[0].walk() if n.k == 'assign' or (n.k == 'call' and n.get('op') == '=')]
            want_l, want_r = (('f', 'data'), ('f', 'buffer')) if direction == 'out' else (('f', 'buffer'), ('f', 'data'))
            good = False
            for a in asg:
                l, r = term(unwrap(a.c[0])), term(unwrap(a.c[1]))
                if direction == 'in' and r[:2] == ('m', 'c_str'):
                    r = r[2]
                if l == ('idx', want_l, iv) and r == ('idx', want_r, iv):
                    good = True
                elif l[:2] == ('idx', want_l) and (l[2] != iv or (isinstance(r, tuple) and r[:2] == ('idx', want_r))):
                    probs.append('element %s receives %s' % (a.c[0].src(20), a.c[1].src(30)))
            if not good:
                probs.append('no assignment pairs element i of both arrays')
            if direction == 'out' and iv is not None:
                # every iteration defines data[i]: a never-written element (null) must become the empty string, not keep what the caller's buffer held
                def defines(n):
                    if n is None:
                        return False
                    if n.k == 'assign' or (n.k == 'call' and n.get('op') == '='):
                        return term(unwrap(n.c[0])) == ('idx', ('f', 'data'), iv)
                    if n.k == 'call' and n.get('member') and (n.callee or {}).get('name') in ('clear', 'assign', 'erase') and n.c:
                        return term(unwrap(n.c[0])) == ('idx', ('f', 'data'), iv)
                    if n.k == 'compound':
                        for ch in n.c:
                            if ch is None:
                                continue
                            if ch.k in ('continue', 'break', 'return'):
                                return False
                            if defines(ch):
                                return True
                            if ch.k == 'if' and any(x.k in ('continue', 'break', 'return') for x in ch.walk()):
                                return False
                        return False
                    if n.k == 'if':
                        return defines(n.c[3]) and defines(n.c[4])
                    if n.k in ('exprstmt', 'cleanup', 'paren'):
                        return any(defines(ch) for ch in n.c)
                    return False
                # verbatim: apart from the assignment and the clear() of a null element, nothing modifies data[i] or a reference to it
                aliases = set()
                for v in lps[0].walk():
                    if v.k == 'var' and v.c and v.c[0] is not None and (v.get('type') or '').rstrip().endswith('&') and 'data' in repr(term(unwrap(v.c[0]))):
                        aliases.add(v.get('lid'))
                for m in lps[0].walk():
                    if m.k == 'call' and m.get('member') and m.c and not (m.callee or {}).get('sig', '').endswith(' const'):
                        t = term(unwrap(m.c[0]))
                        on_data = t == ('idx', ('f', 'data'), iv) or (isinstance(t, tuple) and t[0] == 'v' and t[1] in aliases)
                        if on_data and (m.callee or {}).get('name') not in ('clear',):
                            probs.append('the copied string is modified afterwards (%s): what is read back is not what was stored (trailing blanks, line breaks or non-ASCII bytes are lost)' % m.src(40))
                body = lps[0].c[3]
                if not defines(body):
                    probs.append('some iteration leaves data[i] untouched (a null element, i.e. one that was never written, keeps the previous content of the caller\'s string instead of reading as empty)')
        rule.check(not probs, '%s|%s' % (cls.split('::')[-1], 'copy-out' if direction == 'out' else 'copy-in'), rep.where(f), f.label(),
                   'for i in [0, nelms): %s' % ('data[i] = buffer[i] (null -> empty)' if direction == 'out' else 'buffer[i] = data[i].c_str()'), '; '.join(sorted(set(probs))))
        op = prog.fn('%s::operator*' % cls)
        r = [n for n in op.walk() if n.k == 'return']
        rule.check(bool(r) and term(unwrap(r[0].c[0])) == ('f', 'buffer'), '%s|operator*' % cls.split('::')[-1], rep.where(op), op.label(), 'hands out the transfer buffer', 'operator* does not return the transfer buffer')
    return rule


# settings of the data set creation property list that are known (libhdf5 documentation) to break the fill / exactness clauses
DCPL_DENY = {
    'H5Pset_fill_time': 'with H5D_FILL_TIME_NEVER libhdf5 does not write the fill value: elements exposed by growing (or never written) read as whatever the buffer held, not as zero / empty',
    'H5Pset_fill_value': 'a non-default fill value makes never-written elements read as that value instead of zero / empty',
    'H5Pset_scaleoffset': 'the scale-offset filter is lossy for floating point data',
    'H5Pset_nbit': 'the n-bit filter drops bits of the stored values',
    'H5Pset_external': 'external storage moves the raw data out of the file',
    'H5Pset_alloc_time': 'a late/incremental allocation time combined with fill settings changes what unwritten elements read as',
}


def run_dcpl(prog, rep):
    """H5Group::createData: the data set creation property list carries only chunking and the deflate filter"""
    rule = rep.rule('R-DCPL', 'the data set creation property list carries no setting known to change what unwritten elements read as or to lose precision (deny list with reasons)', floor=1)
    cd = prog.fn('nix::hdf5::H5Group::createData')
    bad = []
    for c in cd.calls():
        nm = c.callee.get('name') or ''
        if nm in DCPL_DENY:
            bad.append('%s (line %s): %s' % (nm, c.l, DCPL_DENY[nm]))
    sets = sorted(set(c.callee.get('name') for c in cd.calls() if (c.callee.get('name') or '').startswith('H5Pset')))
    rule.check(not bad, 'H5Group::createData|dcpl', rep.where(cd), cd.q, 'settings applied: %s' % sets, '; '.join(bad[:2]))
    others = []
    for f in prog.funcs.values():
        if f.body is None or f is cd or not f.q.startswith('nix::'):
            continue
        for c in f.calls():
            if (c.callee.get('name') or '') in ('H5Dcreate', 'H5Dcreate2', 'H5Dcreate1'):
                others.append(f.q)
    # raw data transfers use the default transfer property list (a data transform / other transfer setting would change the values on the way)
    xfer = []
    nx = 0
    for f in prog.funcs.values():
        if f.body is None or not f.q.startswith('nix::'):
            continue
        for c in f.calls():
            if (c.callee.get('name') or '') in ('H5Dread', 'H5Dwrite'):
                nx += 1
                a = real_args(c)
                if len(a) < 6 or a[4].get('macro') != 'H5P_DEFAULT':
                    xfer.append('%s passes %s as transfer property list (line %s)' % (f.q, a[4].src(20) if len(a) > 4 else '?', c.l))
    if nx < 2:
        raise AnalysisBroken('R-DCPL: H5Dread/H5Dwrite call sites vanished')
    rule.check(not xfer, 'H5Dread/H5Dwrite|transfer-plist', rep.where(cd), 'nix::hdf5::DataSet', '%d raw transfers use H5P_DEFAULT' % nx, '; '.join(xfer[:2]))
    rule.check(not others, 'H5Dcreate|who-calls', rep.where(cd), cd.q, 'data sets are created only by H5Group::createData', 'data sets are also created by %s (settings not examined)' % sorted(set(others)))
    return rule


def run_growable(prog, rep):
    """every data set whose extent is changed later (array data, property values, frames) is created without a fixed maximum size"""
    rule = rep.rule('R-GROW', 'data sets that are resized later are created with an unlimited maximum extent (no explicit maxsize, max_size_unlimited not false)', floor=3)
    sites = [('nix::hdf5::DataArrayHDF5::createData', 'array data'), ('nix::hdf5::SectionHDF5::createProperty', 'property values'), ('nix::hdf5::DataFrameHDF5::createData', 'frame rows')]
    for q, what in sites:
        fs = [f for f in prog.fns(q) if f.body is not None and f.calls(name='createData')]
        if not fs:
            raise AnalysisBroken('anchor vanished: %s creating its data set' % q)
        for f in fs:
            for c in f.calls(name='createData'):
                if 'H5Group' not in (c.callee.get('cls') or ''):
                    continue
                args = real_args(c)
                probs = []
                if len(args) > 4 and args[4] is not None and args[4].k != 'defarg':
                    t = term(unwrap(args[4]))
                    empty = isinstance(t, tuple) and ((t[0] == 'new' and len(t) == 2) or t == ('list',) or (t[0] == 'new' and t[-1] == ('list',)))
                    if not empty:
                        probs.append('an explicit maximum size (%s) is given: it takes precedence over max_size_unlimited, so the data set can never grow beyond it (a later larger assignment fails in H5Dset_extent)' % args[4].src(20))
                if len(args) > 6 and args[6] is not None and args[6].k != 'defarg' and term(unwrap(args[6])) == ('k', False):
                    probs.append('max_size_unlimited is false')
                key = '%s%s|maxsize' % (q, '(%d)' % len(f.params))
                rule.check(not probs, key, rep.where(c), f.label(), '%s: no maximum size' % what, '; '.join(probs))
    return rule


def run_swapped(prog, rep):
    """swapped-argument rule: when two arguments of a call are variables that carry the names of two of the callee's parameters,
    each sits in the position of the parameter it is named after"""
    rule = rep.rule('R-SWAP', 'arguments named like the callee\'s parameters are passed in those parameters\' positions (no crossed offset/count, memory/file space, start/end ...)', floor=20)
    n = 0
    seen = set()
    for f in sorted(prog.funcs.values(), key=lambda f: (f.file, f.line)):
        if f.body is None or not f.q.startswith('nix::') or f.instantiation and f.pattern in seen:
            continue
        if f.instantiation:
            seen.add(f.pattern)
        for c in f.calls():
            if c.get('op'):
                continue
            tg = prog.resolve_call(c)
            if not tg or not tg[0].q.startswith('nix::'):
                continue
            t = tg[0]
            pn = [p['name'] for p in t.params]
            args = real_args(c)
            if len(args) != len(pn) and len(args) > len(pn):
                continue
            names = []
            for a in args:
                x = unwrap(a) if a is not None else None
                names.append(x.decl.get('name') if x is not None and x.k == 'ref' and x.decl.get('kind') in ('param', 'local') else None)
            hits = [(i, nm) for i, nm in enumerate(names) if nm and nm in pn]
            if len(hits) < 2:
                continue
            n += 1
            crossed = [(i, nm) for i, nm in hits if pn[i] != nm and pn.index(nm) < len(names) and names[pn.index(nm)] == pn[i] and
                       t.params[i]['type'].replace('const ', '') == t.params[pn.index(nm)]['type'].replace('const ', '')]
            key = '%s|%s@%d' % (re.sub(r'<.*', '', f.q), t.name, c.l)
            if crossed:
                i, nm = crossed[0]
                rule.bad(key, rep.where(c), f.label(), 'argument %s is passed as parameter %s of %s while %s is passed as %s: the two are crossed' % (nm, pn[i], t.q, pn[i], nm))
            else:
                rule.ok(key, rep.where(c), f.label(), '%s in place' % ', '.join(nm for i, nm in hits), nontrivial=False)
    if n < 20:
        raise AnalysisBroken('R-SWAP: only %d calls with name-matching arguments found' % n)
    return rule


def run_memtype(prog, rep):
    """the memory type handed to a raw transfer describes the caller's buffer (mapped from its element type), never merely the data set's own file type"""
    rule = rep.rule('R-MEMTYPE', 'every raw transfer is given a memory type made from the buffer\'s element type (memtype mapping), not the data set\'s file type', floor=10)
    sem = Sem(prog)
    MAKERS = ('data_type_to_h5_memtype', 'h5_type_for_value', 'h5_type_for_old_value', 'makeCompound', 'makeStrType', 'data_type_to_h5')
    n = 0
    seen = set()
    for f in sorted(prog.funcs.values(), key=lambda f: (f.file, f.line)):
        if f.body is None or not f.q.startswith('nix::hdf5::'):
            continue
        if f.instantiation:
            if f.pattern in seen:
                continue
            seen.add(f.pattern)
        fl = None
        for c in f.calls():
            if c.callee.get('name') not in ('read', 'write') or 'DataSet' not in (c.callee.get('cls') or ''):
                continue
            sig = c.callee.get('sig') or ''
            if 'void *' not in sig:
                continue
            a = real_args(c)
            if len(a) < 2 or a[1] is None:
                continue
            n += 1
            fl = fl or Flow(sem, f)
            mt = a[1]
            org = fl.origins(mt)
            names = set(o[1] for o in org if o[0] in ('call', 'out'))
            params = set(o[1] for o in org if o[0] == 'param')
            fields = set(o[1] for o in org if o[0] == 'field')
            key = '%s|%s@%s' % (re.sub(r'<.*', '', f.q), c.callee.get('name'), mt.src(20))
            tm = term(unwrap(mt))
            janus = isinstance(tm, tuple) and tm[:2] == ('mem', 'dtype') and tm[2][0] == 'v' and 'Janus' in ((sem.local_vars(f).get(tm[2][1]) or {}).get('type') or '' if sem.local_vars(f).get(tm[2][1]) is not None else '')
            if janus:
                rule.ok(key, rep.where(c), f.label(), 'memory type is the partial compound built by Janus for this transfer (layout: R-DF-LAYOUT)', nontrivial=False)
            elif names & set(MAKERS):
                rule.ok(key, rep.where(c), f.label(), 'memory type from %s' % sorted(names & set(MAKERS)))
            elif params and not names:
                rule.ok(key, rep.where(c), f.label(), 'memory type is the caller\'s parameter %s' % sorted(params), nontrivial=False)
            elif 'dtype' in fields or any('dtype' in x for x in fields):
                rule.ok(key, rep.where(c), f.label(), 'memory type is the compound built for this transfer (%s)' % sorted(fields), nontrivial=False)
            elif 'dataType' in names:
                rule.bad(key, rep.where(c), f.label(), 'the memory type is the data set\'s own file type (%s): the bytes of the caller\'s buffer are taken as if they already had the stored type - no conversion happens, values of another element type are stored as reinterpreted bytes' % mt.src(30))
            else:
                rule.bad(key, rep.where(c), f.label(), 'cannot see where the memory type %s comes from (%s)' % (mt.src(30), sorted(names)))
    if n < 10:
        raise AnalysisBroken('R-MEMTYPE: only %d raw transfers found' % n)
    return rule



def run_reclaim(prog, rep):
    """variable-length memory is reclaimed over the MEMORY space of the read that filled the buffer (the file space addresses other elements)"""
    rule = rep.rule('R-RECLAIM', 'vlenReclaim is given the buffer and the memory space of the read that filled it', floor=4)
    n = 0
    for f in sorted(prog.funcs.values(), key=lambda f: (f.file, f.line)):
        if f.body is None or not f.q.startswith('nix::hdf5::') or f.q.startswith('nix::hdf5::DataSet::'):
            continue
        recl = [c for c in f.calls(name='vlenReclaim')]
        if not recl:
            continue
        reads = [c for c in f.calls(name='read') if 'DataSet' in (c.callee.get('cls') or '')]
        ties = [c for c in f.calls(name='offsetCount2DataSpaces')]
        for c in recl:
            a = real_args(c)
            n += 1
            key = '%s|vlenReclaim@%s' % (re.sub(r'<.*', '', f.q), a[1].src(20))
            if len(a) < 3 or a[2] is None or a[2].k == 'defarg':
                rule.ok(key, rep.where(c), f.label(), 'whole data set (no space given)', nontrivial=False)
                continue
            sp = unwrap(a[2])
            spv = unwrap(sp.c[0]) if sp.k == 'unop' and sp.get('op') == '&' and sp.c else sp
            name = spv.decl.get('name') if spv.k == 'ref' else None
            # which variable is the memory space: first element of the tie(mem, file) = offsetCount2DataSpaces(...) / third argument of the raw read
            mem = None
            for r in reads:
                ra = real_args(r)
                if len(ra) == 4 and 'DataSpace' in (ra[2].t or ''):
                    x = unwrap(ra[2])
                    mem = x.decl.get('name') if x.k == 'ref' else mem
            if mem is None:
                for t in f.walk():
                    if t.k == 'call' and (t.callee or {}).get('name') == 'tie':
                        ta = real_args(t)
                        if ta and unwrap(ta[0]).k == 'ref':
                            mem = unwrap(ta[0]).decl.get('name')
            ok = name is not None and mem is not None and name == mem
            rule.check(ok, key, rep.where(c), f.label(), 'reclaimed over the memory space %s' % mem,
                       'reclaim is given the space %s, the memory space of the read is %s: over the file space libhdf5 frees buffer elements [offset, offset+count) - past the end of the buffer for any read that does not start at row 0' % (name, mem))
    if n < 4:
        raise AnalysisBroken('R-RECLAIM: only %d reclaim sites found' % n)
    return rule


def run_type_gate(prog, rep):
    """a front-end function that resizes the stored data and then writes caller data of element type dtype has compared
    dtype with the stored element type before the resize (libhdf5 refuses text <-> number only at the write, after the resize)"""
    rule = rep.rule('R-TYPEGATE', 'resize-then-write entry points (DataSet::setData(value), DataArray::appendData) compare the element type of the data with dataType() before they resize', floor=2)
    sem = Sem(prog)
    seen = set()
    n = 0
    for f in sorted(prog.funcs.values(), key=lambda f: (f.file, f.line, f.q)):
        if f.body is None or not f.q.startswith('nix::') or f.q.startswith('nix::hdf5') or (f.file, f.line) in seen:
            continue
        rs = [c for c in f.calls() if (c.callee or {}).get('name') == 'dataExtent' and len([a for a in real_args(c) if a is not None]) == 1]
        ws = [c for c in f.calls() if (c.callee or {}).get('name') in ('setData', 'ioWrite', 'setDataDirect', 'write')]
        if not rs or not [w for w in ws if w.id > rs[0].id]:
            continue
        seen.add((f.file, f.line))
        n += 1
        facts = sem.facts_at(f, rs[0].id)
        gate = [t for t, pol in facts if 'dataType' in repr(t) and ("'dtype'" in repr(t) or 'element_data_type' in repr(t))]
        rule.check(bool(gate), '%s|type-before-resize' % re.sub(r'<.*', '', f.q), rep.where(rs[0]), f.label(), 'the element type of the data is compared with dataType() before the resize',
                   'the data is resized before anything compares the element type of the caller\'s data with the stored element type: text for a numeric array (or the reverse) is refused by libhdf5 only at the write, and the array stays resized')
    if n < 2:
        raise AnalysisBroken('R-TYPEGATE: only %d resize-then-write entry points found' % n)
    return rule


def run_rank_gate(prog, rep):
    """BlockHDF5::createDataArray refuses what H5Screate_simple would refuse (rank 0, rank above H5S_MAX_RANK) before the array group exists"""
    rule = rep.rule('R-RANKGATE', 'BlockHDF5::createDataArray bounds the rank of the shape (0 < rank <= H5S_MAX_RANK) before it creates the array group', floor=1)
    sem = Sem(prog)
    f = prog.fn('nix::hdf5::BlockHDF5::createDataArray')
    og = [c for c in f.calls(name='openGroup')]
    if not og:
        raise AnalysisBroken('R-RANKGATE: group creation not found in BlockHDF5::createDataArray')
    facts = sem.facts_at(f, og[0].id)
    shape = [p['name'] for p in f.params if 'NDSize' in p['type']][0]
    lower = any(isinstance(t, tuple) and t[0] == 'b' and shape in repr(t) and 'size' in repr(t) and ((t[1] == '==' and pol is False and ('k', 0) in t) or (t[1] == '>' and pol is True and ('k', 0) in t)) for t, pol in facts)
    upper = any(isinstance(t, tuple) and t[0] == 'b' and shape in repr(t) and 'size' in repr(t) and t[1] in ('>', '>=', '<', '<=') and ('H5S_MAX_RANK' in repr(t) or "('k', 32" in repr(t)) and
                ((t[1] in ('>', '>=') and pol is False) or (t[1] in ('<', '<=') and pol is True)) for t, pol in facts)
    rule.check(lower and upper, 'BlockHDF5::createDataArray|rank', rep.where(og[0]), f.label(), '0 < rank <= H5S_MAX_RANK established before the group is created',
               'the array group is created without %s: libhdf5 refuses the data space afterwards and the empty array stays in the file' % ('a lower bound on the rank' if not lower else 'an upper bound on the rank (H5S_MAX_RANK)'))
    return rule


def run_set_extent(prog, rep):
    """DataSet::setExtent hands the requested shape to H5Dset_extent on every returning path (or has established that the
    current shape *is* the requested shape - equal element counts are not equal shapes)"""
    rule = rep.rule('R-SETEXTENT', 'DataSet::setExtent calls H5Dset_extent(hid, dims) and checks it on every normally returning path, unless the whole current shape equals dims', floor=1)
    f = prog.fn('nix::hdf5::DataSet::setExtent')
    pn = f.params[0]['name']
    it = GenericInterp(prog, watch=lambda n: (n.callee or {}).get('name') in ('H5Dset_extent', 'check'))
    probs = []
    nset = 0
    for assign, out, log, fields in it.enumerate(f, this='THIS', args=[(pn,)]):
        if out[0] != 'ret':
            continue
        se = [l for l in log if l[0] == 'H5Dset_extent']
        if not se:
            same = [v for k, v in assign.items() if k[0] == 'cmp' and k[1] == '==' and (pn,) in k[2:4] and 'nelms' not in repr(k) and 'size' not in repr(k) and 'extent' in repr(k)]
            if same and same[0] is True:
                continue
            probs.append('a path returns without H5Dset_extent although the shape asked for may differ from the current one (taken when %s): a reshape that keeps the number of elements is dropped, old elements reappear' % _cond_text(assign))
            continue
        nset += 1
        if se[0][1] != ('mem', 'hid', 'THIS') or se[0][2] != ('call', 'data', (pn,)):
            probs.append('H5Dset_extent is given %r' % (se[0][1:],))
        if not [l for l in log if l[0] == 'check']:
            probs.append('the result of H5Dset_extent is not checked')
    if not nset:
        probs.append('no path sets the extent')
    rule.check(not probs, 'DataSet::setExtent', rep.where(f), f.label(), 'H5Dset_extent(hid, dims.data()) checked on every returning path', '; '.join(sorted(set(probs))[:2]))
    return rule


def run_string_buffers(prog, rep):
    """transfer functions that receive the caller's std::string array (std::string *) hand it to the marshalling helper and do
    nothing else with it: StringWriter::finish / StringReader are the only places where its elements are touched (R-STRIO)"""
    rule = rep.rule('R-STRBUF', 'backend functions that take the caller\'s string array (std::string *) pass it to StringWriter / StringReader (or on to such a function) and never read or change its elements themselves', floor=2)
    n = 0
    for f in sorted(prog.funcs.values(), key=lambda f: (f.file, f.line)):
        if f.body is None or not f.q.startswith('nix::hdf5::') or (f.cls or '').endswith('StringWriter') or (f.cls or '').endswith('StringReader'):
            continue
        sp = [p for p in f.params if re.match(r'^(const )?std::(__cxx11::)?(basic_)?string(<char>)? ?\*$', p['type'].strip())]
        for p in sp:
            n += 1
            uses = [x for x in f.walk() if x.k == 'ref' and x.decl.get('lid') == p['lid']]
            par = {}
            for x in f.walk():
                for c in x.c:
                    if c is not None:
                        par[c.id] = x
            probs = []
            for u in uses:
                y = u
                while y.id in par and par[y.id].k in ('cast', 'paren') or (y.id in par and unwrap(par[y.id]).id == unwrap(y).id and par[y.id].id != y.id and par[y.id].k not in ('call', 'construct', 'var')):
                    y = par[y.id]
                pp = par.get(y.id)
                okk = pp is not None and (pp.k == 'construct' or (pp.k == 'call' and not pp.get('op')) or pp.k == 'var' and 'String' in (pp.get('type') or ''))
                if okk and pp.k in ('construct', 'call'):
                    cls = (pp.callee or {}).get('cls') or ''
                    nm = (pp.callee or {}).get('name') or ''
                    okk = 'StringWriter' in cls or 'StringReader' in cls or nm in ('read', 'write', 'getAttr', 'setAttr', 'StringWriter', 'StringReader')
                if not okk:
                    probs.append('%s at line %s' % ((pp.src(50) if pp is not None else u.src(20)), u.l))
            rule.check(not probs, '%s%s|%s' % (f.q, f.sig[:70], p['name']), rep.where(f), f.label(), 'only handed to the string marshalling helper (%d use(s))' % len(uses),
                       'the caller\'s strings are touched outside the marshalling helper: %s - what the caller reads is not what is stored (trailing blanks, case, padding)' % '; '.join(probs[:2]))
    if n < 2:
        raise AnalysisBroken('R-STRBUF: only %d string array parameters found' % n)
    return rule


def run_replace_extent(prog, rep):
    """a setter that overwrites a whole data set with a new list sizes the data set to the new list on every path that reuses it:
    the only conditions allowed on the way to setExtent are 'the data set exists' (and the alias test of range dimensions)"""
    rule = rep.rule('R-REPLACE-EXTENT', 'setters that replace the whole content of a data set (polynomial coefficients, ticks, H5Group::setData) set its extent to the new length whenever they reuse an existing data set (no "only grow" / "only if different" condition)', floor=3)
    sem = Sem(prog)
    n = 0
    for f in sorted(prog.funcs.values(), key=lambda f: (f.file, f.line)):
        if f.body is None or not f.q.startswith('nix::hdf5::'):
            continue
        se = [c for c in f.calls() if (c.callee or {}).get('name') == 'setExtent']
        wr = [c for c in f.calls() if (c.callee or {}).get('name') == 'write']
        od = [c for c in f.calls() if (c.callee or {}).get('name') == 'openData']
        if not (wr and od) or not [p for p in f.params if 'vector' in p['type']]:
            continue
        key = '%s%s' % (re.sub(r'<.*?>', '<>', f.q), '')
        if any(i.key.endswith(key) for i in rule.instances):
            continue
        n += 1
        if not se:
            rule.bad(key, rep.where(od[0]), f.label(), 'an existing data set is reused and overwritten without setting its extent to the new length: when the new list is shorter the old tail stays')
            continue
        facts = sem.facts_at(f, se[0].id)
        extra = [t for t, pol in facts if not (isinstance(t, tuple) and t[0] == 'm' and t[1] in ('hasData', 'alias', 'hasGroup', 'operator bool')) and 'hasData' not in repr(t)[:40] and
                 ('size' in repr(t) or 'nelms' in repr(t) or 'extent' in repr(t))]
        rule.check(not extra, key, rep.where(se[0]), f.label(), 'setExtent(new length) whenever the data set exists',
                   'setExtent is only called under %s: when it is skipped for a shorter list, the old elements behind the new ones stay in the data set and are read back' % [repr(t)[:80] for t in extra][:2])
    if n < 3:
        raise AnalysisBroken('R-REPLACE-EXTENT: only %d replacing setters found' % n)
    return rule
