"""R-ORDER / R-LOOKUP (C03): creation-order index access, has/get/index agreement,
enumeration loop."""
from ..absint import GenericInterp, Opaque
from ..extract import AnalysisBroken
import re
from ..sem import Sem, Flow, term, unwrap, real_args


def h5_concrete(interp, n, env):
    """HDF5 macro constants keep their names in the abstraction"""
    m = n.a.get('macro')
    if m and str(m).startswith('H5'):
        return Opaque(('macro', m))
    if n.k == 'binop' and n.get('op') == '|':
        l = interp.ev(n.c[0], env)
        r = interp.ev(n.c[1], env)
        if isinstance(l, tuple) and isinstance(r, tuple) and l and r and l[0] == 'macro' and r[0] == 'macro':
            return Opaque(('macro', '|'.join(sorted(l[1].split('|') + r[1].split('|')))))
    return NotImplemented


def run_order(prog, rep):
    rule = rep.rule('R-ORDER', 'index access asks HDF5 for creation order, ascending; groups and the file are created with tracked+indexed creation order', floor=4)
    f = prog.fn('nix::hdf5::H5Group::objectName')
    it = GenericInterp(prog, concrete=h5_concrete, watch=lambda n: (n.callee or {}).get('name') == 'H5Lget_name_by_idx')
    res = it.enumerate(f, this='THIS', args=[('index',)])
    problems = []
    npaths = 0
    for assign, out, log, fields in res:
        calls = [l for l in log if l[0] == 'H5Lget_name_by_idx']
        if not calls:
            continue
        npaths += 1
        first = calls[0]
        idx_t, order = first[3], first[4]
        if idx_t != ('e', 'H5_INDEX_CRT_ORDER'):
            problems.append('first name query uses index type %r, not H5_INDEX_CRT_ORDER' % (idx_t,))
        if order != ('e', 'H5_ITER_INC'):
            problems.append('first name query iterates in order %r, not H5_ITER_INC: position i is not the i-th created link' % (order,))
        # a query by another index only after the creation-order query failed
        for i, c in enumerate(calls[1:], 1):
            if (c[3], c[4]) != (idx_t, order):
                failed = [v for k, v in assign.items() if k[0] == 'cmp' and k[1] == '<' and k[3] == 0 and 'H5Lget_name_by_idx' in repr(k[2])]
                if not (failed and failed[0] is True):
                    problems.append('falls back to another index although the creation-order query did not fail')
        # the query that fetches the name uses the same index/order as the last size query
        if out[0] == 'ret' and len(calls) >= 2:
            last, prev = calls[-1], calls[-2]
            if (last[3], last[4]) != (prev[3], prev[4]):
                problems.append('the name is fetched with a different index/order than its length was')
        if calls and any(c[5] != ('index',) and 'index' not in repr(c[5]) for c in calls):
            problems.append('the position passed to HDF5 is not the requested index')
    if npaths == 0:
        raise AnalysisBroken('objectName: no abstract path queries H5Lget_name_by_idx')
    rule.check(not problems, 'H5Group::objectName|creation-order', rep.where(f), f.q,
               'position i is resolved through the creation-order index in increasing order (%d abstract paths)' % npaths, '; '.join(sorted(set(problems))))
    # group creation
    og = prog.fn('nix::hdf5::H5Group::openGroup')
    it = GenericInterp(prog, concrete=h5_concrete, watch=lambda n: ((n.callee or {}).get('name') or '').startswith('H5'))
    res = it.enumerate(og, this='THIS', args=[('name',), True])
    okc = False
    ncreate = 0
    bad = []
    for assign, out, log, fields in res:
        cr = [l for l in log if l[0].startswith('H5Gcreate')]
        if not cr:
            continue
        ncreate += 1
        co = [l for l in log if l[0] == 'H5Pset_link_creation_order']
        if not co or co[0][2] != ('macro', 'H5P_CRT_ORDER_INDEXED|H5P_CRT_ORDER_TRACKED'):
            bad.append('group created without H5Pset_link_creation_order(TRACKED|INDEXED)')
        elif co[0][1] not in cr[0]:
            bad.append('the property list with creation order is not the one passed to %s' % cr[0][0])
    rule.check(ncreate > 0 and not bad, 'H5Group::openGroup|gcpl', rep.where(og), og.q, 'every created group tracks and indexes link creation order', '; '.join(sorted(set(bad))) or 'no creating path')
    # who creates groups at all
    creators = set()
    for fn in prog.funcs.values():
        if fn.body is None:
            continue
        for c in fn.calls():
            if (c.callee.get('name') or '').startswith('H5Gcreate') and not c.callee.get('cls'):
                creators.add(fn.q)
    rule.check(creators == {'nix::hdf5::H5Group::openGroup'}, 'H5Gcreate|who', rep.where(og), 'H5Gcreate*', 'groups are created only by H5Group::openGroup',
               'groups are also created by %s (creation order not guaranteed there)' % sorted(creators - {'nix::hdf5::H5Group::openGroup'}))
    oc = prog.fn('nix::hdf5::H5Group::objectCount')
    rule.check(bool(oc.calls(name='H5Gget_num_objs')), 'H5Group::objectCount|source', rep.where(oc), oc.q, 'count is the number of links of the group')
    return rule


def run_lookup(prog, rep):
    sem = Sem(prog)
    rule = rep.rule('R-LOOKUP', 'has(x) is get(x) != null; get(index) is get(objectName(index)); enumeration visits 0..count-1 in order', floor=14)
    n_has = n_idx = 0
    for fn in sorted(prog.funcs.values(), key=lambda f: (f.file, f.line)):
        if not fn.q.startswith('nix::hdf5::') or not fn.cls or not fn.cls.endswith('HDF5') or fn.body is None:
            continue
        nm = fn.name
        if nm.startswith('has') and len(fn.params) == 1 and 'string' in fn.params[0]['type'] and fn.ret == 'bool' and nm not in ('hasAttr',):
            kind = nm[3:]
            fl = Flow(sem, fn)
            rets = [x for x in fn.walk() if x.k == 'return']
            names = set()
            for r in rets:
                names |= fl.call_names(r.c[0])
            getter = 'get' + kind
            arg_ok = False
            for c in fn.calls():
                if c.callee.get('name') in (getter, 'findEntityGroup', 'getEntity') and real_args(c):
                    if "('v', %d" % fn.params[0]['lid'] in repr(term(real_args(c)[0])):
                        arg_ok = True
            n_has += 1
            # the other direction is as good: the by-name getter of the same class consults this has-query
            via_has = False
            for g in prog.methods_of(fn.cls):
                if g.name == getter and g.params and 'string' in g.params[0]['type'] and g.body is not None:
                    if any(c.callee.get('usr') == fn.usr for c in g.calls()):
                        via_has = True
            if via_has:
                rule.ok('%s|has-via-get' % fn.q, rep.where(fn), fn.label(), '%s(x) consults %s: both agree by construction' % (getter, nm))
                continue
            rule.check((getter in names or 'findEntityGroup' in names or 'getEntity' in names) and arg_ok, '%s|has-via-get' % fn.q, rep.where(fn), fn.label(),
                       '%s(x) is decided by the same lookup as %s(x)' % (nm, getter), '%s does not derive its verdict from %s(x): has and get can disagree' % (nm, getter))
        if nm.startswith('get') and len(fn.params) == 1 and fn.params[0]['type'] in ('nix::ndsize_t', 'size_t', 'const size_t', 'const nix::ndsize_t') and nm not in ('getDimension',):
            fl = Flow(sem, fn)
            on = [c for c in fn.calls(name='objectName')]
            rets = [x for x in fn.walk() if x.k == 'return']
            okn = False
            why = 'does not resolve the position through objectName(index)'
            if on:
                a = real_args(on[0])[0]
                if term(a) == ('v', fn.params[0]['lid'], fn.params[0]['name']):
                    # the by-name getter receives the name just resolved
                    for r in rets:
                        src = fl.origins(r.c[0])
                        if any(o[0] == 'call' and o[1] == 'objectName' for o in src) and any(o[0] == 'call' and (o[1] == nm or o[1] in ('getEntity', 'make_shared')) for o in src):
                            okn = True
                    if not okn:
                        why = 'the returned entity is not looked up by the name found at that position'
                else:
                    why = 'objectName is asked for %s, not for the requested index' % a.src()
            n_idx += 1
            rule.check(okn, '%s|index-via-name' % fn.q, rep.where(fn), fn.label(), '%s(i) = lookup by the name of the i-th link' % nm, why)
    if n_has < 6 or n_idx < 8:
        raise AnalysisBroken('R-LOOKUP: found %d has-functions and %d index getters (expected >= 6 and >= 8)' % (n_has, n_idx))
    # enumeration loop (one instantiation is enough: same pattern)
    ge = [f for f in prog.byname.get('getEntities', []) if f.cls == 'nix::base::ImplContainer' and f.body is not None]
    if not ge:
        raise AnalysisBroken('no instantiation of ImplContainer::getEntities')
    bad = []
    for f in ge:
        loops = [x for x in f.body.walk() if x.k == 'for']
        if len(loops) != 1:
            bad.append('%s: loop not found' % f.q)
            continue
        lp = loops[0]
        iv = [x for x in lp.c[0].walk() if x.k == 'var'] if lp.c[0] is not None else []
        if not iv:
            bad.append('no induction variable')
            continue
        v = ('v', iv[0].get('lid'), iv[0].get('name'))
        start = term(iv[0].c[0]) if iv[0].c and iv[0].c[0] is not None else None
        cond = term(lp.c[1]) if lp.c[1] is not None else None
        inc = term(lp.c[2]) if lp.c[2] is not None else None
        fl = Flow(sem, f)
        bound_ok = cond is not None and cond[0] == 'b' and cond[1] == '<' and cond[2] == v
        if bound_ok:
            bo = fl.origins(lp.c[1].c[1])
            bound_ok = any(o[0] == 'param' and o[1] == f.params[1]['name'] for o in bo)
        step_ok = inc in (('u', '++', v),) or (inc is not None and inc[0] == 'op' and inc[1] == '++')
        calls = [c for c in lp.c[3].walk() if c.k == 'call' and c.get('op') == '()' and len(c.c) == 2 and term(c.c[1]) == v]
        push = [c for c in lp.c[3].walk() if c.k == 'call' and (c.callee or {}).get('name') == 'push_back']
        noexit = not any(x.k in ('break', 'return') for x in lp.c[3].walk())
        if not (start == ('k', 0) and bound_ok and step_ok and calls and push and noexit):
            bad.append('start=%s bound=%s step=%s getter(i)=%s append=%s no-early-exit=%s' % (start == ('k', 0), bound_ok, step_ok, bool(calls), bool(push), noexit))
    rule.check(not bad, 'ImplContainer::getEntities|loop', rep.where(ge[0]), 'nix::base::ImplContainer::getEntities',
               '%d instantiation(s): i = 0 .. n-1 step 1, getter(i), append in order, no early exit' % len(ge), '; '.join(sorted(set(bad))[:2]))
    return rule


def run_name_first(prog, rep):
    """name-or-id lookups: a child linked under that very name is always found (names may have the shape of an id);
    the attribute search is only the fall-back"""
    from ..absint import GenericInterp
    rule = rep.rule('R-NAMEFIRST', 'name-or-id lookups answer with the link of that name whenever it exists; the id search is the fall-back', floor=2)
    for q, opener, finder in (('nix::hdf5::H5Group::findGroupByNameOrAttribute', 'openGroup', 'findGroupByAttribute'),
                              ('nix::hdf5::H5Group::findDataByNameOrAttribute', 'openData', 'findDataByAttribute')):
        f = prog.fn(q)
        pn = [p['name'] for p in f.params]
        it = GenericInterp(prog, watch=lambda n: (n.callee or {}).get('name') in (opener, finder))
        res = it.enumerate(f, this='THIS', args=[(p,) for p in pn])
        probs = []
        seen = set()
        for assign, out, log, fields in res:
            if out[0] != 'ret':
                probs.append('outcome %r' % (out,))
                continue
            has = assign.get(('bool', 'hasObject', 'THIS', (pn[1],)))
            uuid = [v for k, v in assign.items() if k[0] == 'bool' and 'looksLikeUUID' in str(k[1])]
            names = [l[0] for l in log]
            if has is None:
                probs.append('a path answers (%s) without asking whether a link named %s exists: an entity whose name has the shape of an id is not found by name, is missing from index access, and its name can be created twice' % (
                    names or 'nothing', pn[1]))
                continue
            if has:
                seen.add('name')
                if names != [opener] or [l for l in log if l[0] == opener][0][2] != (pn[1],):
                    probs.append('the link exists but the answer is %s' % (names or 'nothing'))
            elif uuid and uuid[0]:
                seen.add('id')
                fl = [l for l in log if l[0] == finder]
                if not fl or fl[0][2:4] != ((pn[0],), (pn[1],)):
                    probs.append('id fall-back does not search attribute %s for %s' % (pn[0], pn[1]))
            else:
                seen.add('none')
                if log or not (isinstance(out[1], tuple) and out[1][:2] == ('new', 'boost::optional') and len(out[1]) == 2):
                    probs.append('neither name nor id shape, but the answer is not empty')
        if seen != {'name', 'id', 'none'}:
            probs.append('paths do not cover name / id fall-back / nothing (%s)' % sorted(seen))
        rule.check(not probs, q.split('::')[-1], rep.where(f), f.label(), 'link of that name first, then id-shaped values by attribute, else nothing', '; '.join(sorted(set(probs))[:2]))
    # BlockHDF5::findEntityGroup: whatever string the identity carries (a name, or an id-shaped string that may be a name) is probed as a link first
    f = prog.fn('nix::hdf5::BlockHDF5::findEntityGroup')
    it = GenericInterp(prog, watch=lambda n: (n.callee or {}).get('name') in ('openGroup', 'findGroupByAttribute', 'hasObject'))
    res = it.enumerate(f, this='THIS', args=[('ident',)])
    NAME, ID = ('call', 'name', ('ident',)), ('call', 'id', ('ident',))
    probs = []
    npaths = 0
    for assign, out, log, fields in res:
        if out[0] != 'ret':
            continue
        have_p = [v for k, v in assign.items() if k[0] == 'truthy' and 'groupForObjectType' in repr(k)]
        if not have_p or not have_p[0]:
            continue
        ne = assign.get(('bool', 'empty', NAME))
        ie = assign.get(('bool', 'empty', ID))
        if ne is None and ie is None:
            continue
        if ne is not False and ie is not False:
            continue   # nothing to look up
        npaths += 1
        want = NAME if ne is False else ID
        probed = [l for l in log if l[0] == 'hasObject' and l[-1] == want]
        if not probed:
            probs.append('an identity that carries %s is resolved without probing the link of that name (%s): an entity whose name has the shape of an id is invisible to has/get/duplicate tests' % (
                'a name' if want == NAME else 'only an id-shaped string', [l[0] for l in log] or 'no lookup'))
            continue
        found = [v for k, v in assign.items() if k[0] == 'bool' and k[1] == 'hasObject']
        if found and found[0]:
            og = [l for l in log if l[0] == 'openGroup']
            if not og or og[0][2] != want:
                probs.append('the link exists but %s is opened' % (og[0][2:] if og else 'nothing'))
    if npaths < 4:
        probs.append('only %d abstract lookup paths' % npaths)
    rule.check(not probs, 'BlockHDF5::findEntityGroup', rep.where(f), f.label(), 'the identity string is probed as a link name on every lookup path (%d paths)' % npaths, '; '.join(sorted(set(probs))[:2]))
    return rule


def run_attr_search(prog, rep):
    """attribute searches (entity by id, group member by name) match by exact string equality over all children"""
    rule = rep.rule('R-ATTRSEARCH', 'findGroupByAttribute / findDataByAttribute accept a child iff its attribute equals the value exactly (operator==), visiting every child', floor=2)
    sem = Sem(prog)
    for q in ('nix::hdf5::H5Group::findGroupByAttribute', 'nix::hdf5::H5Group::findDataByAttribute'):
        f = prog.fn(q)
        val = ('v', f.params[1]['lid'], f.params[1]['name'])
        probs = []
        # the statement(s) that accept a child: assignment to the result / push_back of a candidate, inside the loop
        loops = [n for n in f.walk() if n.k == 'for']
        if not loops:
            probs.append('no loop over the children')
        else:
            lp = loops[0]
            cond = term(unwrap(lp.c[1])) if lp.c[1] is not None else None
            if not (cond and cond[0] == 'b' and cond[1] == '<' and 'objectCount' in repr(cond[3])):
                probs.append('the loop does not visit all objectCount() children')
            accepts = [n for n in lp.walk() if (n.k == 'assign' or (n.k == 'call' and (n.get('op') == '=' or (n.callee or {}).get('name') in ('push_back', 'emplace_back')))) and n.id > lp.id]
            accepts = [a for a in accepts if any(x.k == 'ref' and x.decl.get('kind') == 'local' and ('optional' in (x.t or '') or 'vector' in (x.t or '')) for x in (a.c[0].walk() if a.c else []))]
            ok_any = False
            for a in accepts:
                facts = sem.facts_at(f, a.id)
                exact = [t for (t, pol) in facts if pol and isinstance(t, tuple) and len(t) == 4 and t[0] in ('b', 'op') and t[1] == '==' and val in (t[2], t[3])]
                other = [t for (t, pol) in facts if pol and isinstance(t, tuple) and t[0] in ('c', 'm') and val in t and 'has' not in str(t[1])]
                if exact:
                    ok_any = True
                elif other:
                    probs.append('a child is accepted when %s(...) holds instead of attribute == value: names/ids that differ only in case (or match a pattern) resolve to the wrong child' % str(other[0][1]).split('::')[-1])
            if not ok_any and not probs:
                # predicate form: std::find_if(candidates, [value](child) { ...; return attr_value == value; })
                for lam in [n for n in f.walk() if n.k == 'lambda']:
                    for r in [x for x in lam.walk() if x.k == 'return' and x.c and x.c[0] is not None]:
                        rt = term(unwrap(r.c[0]))
                        named = [y for y in r.c[0].walk() if y.k == 'ref' and y.decl.get('name') == f.params[1]['name']]
                        if isinstance(rt, tuple) and len(rt) == 4 and rt[1] == '==' and named:
                            ok_any = True
                        elif named:
                            probs.append('the predicate decides with %s instead of attribute == value' % r.c[0].src(40))
            if not ok_any and not probs:
                probs.append('no acceptance under attribute == value found')
        rule.check(not probs, q.split('::')[-1], rep.where(f), f.label(), 'accepted iff attribute value == requested value', '; '.join(sorted(set(probs))[:2]))
    return rule


def run_identity(prog, rep):
    """nix::Identity is the lookup key handed to the backend: it carries the caller's name / id verbatim"""
    rule = rep.rule('R-IDENT', 'every nix::Identity constructor stores the name / id it is given verbatim (parameter, moved parameter, or the entity\'s own name()/id()); the UUID test is applied to the same string', floor=12)
    n = 0
    for f in sorted(prog.fns('nix::Identity::Identity'), key=lambda f: f.sig):
        if f.body is None:
            continue
        pv = {('v', p['lid'], p['name']) for p in f.params}
        for x in f.walk():      # const copies of a parameter are the parameter
            if x.k == 'var' and x.c and x.c[0] is not None and 'const' in (x.get('type') or '') and term(unwrap(x.c[0])) in pv:
                pv.add(('v', x.get('lid'), x.get('name')))

        def verbatim(t, field):
            if t in pv:
                return True
            if isinstance(t, tuple) and t[0] == 'c' and t[1] == 'std::move' and t[2] in pv:
                return True
            want = {'myName': 'name', 'myId': 'id'}[field]
            if isinstance(t, tuple) and t[0] == 'm' and t[1] == want and (t[2] in pv or (isinstance(t[2], tuple) and t[2][0] == 'op' and t[2][1] == '->' and t[2][2] in pv)):
                return True
            return False
        stores = []
        for x in f.walk():
            if x.k == 'ctorinit' and x.a.get('field') in ('myName', 'myId') and x.a.get('written'):
                vals = [term(unwrap(y)) for y in x.c if y is not None]
                stores.append((x.a.get('field'), vals[0] if vals else None, x))
            elif x.k == 'call' and x.get('op') == '=' and len(x.c) == 2 and term(unwrap(x.c[0])) in (('f', 'myName'), ('f', 'myId')):
                stores.append((term(unwrap(x.c[0]))[1], term(unwrap(x.c[1])), x))
        if not stores:
            raise AnalysisBroken('R-IDENT: constructor %s stores neither name nor id' % f.sig)
        for field, val, x in stores:
            n += 1
            k = len([s for s in stores if s[0] == field and s[2].id < x.id])
            rule.check(verbatim(val, field), 'Identity%s|%s|store%d' % (f.sig, field, k), rep.where(x), f.label(), '%s = %s (verbatim)' % (field, x.src(50)),
                       '%s is set from %s, not from the given string itself: an entity whose name differs from the normalised key is looked up under another name (duplicate checks miss it, a second create re-ids it)' % (field, x.src(60)))
        for c in f.calls(name='looksLikeUUID'):
            n += 1
            a = [term(unwrap(y)) for y in real_args(c) if y is not None]
            rule.check(bool(a) and a[0] in pv, 'Identity%s|uuid-test' % f.sig, rep.where(c), f.label(), 'the UUID test is applied to the given string', 'the UUID test is applied to %s, not to the given string' % c.src(50))
    if n < 12:
        raise AnalysisBroken('R-IDENT: only %d stores found' % n)
    return rule


def run_lookup_via(prog, rep):
    """backend getters that take one text (a name or an id) resolve it through the shared name-first helpers"""
    rule = rep.rule('R-LOOKUP-VIA', 'a backend lookup by one text argument (name or id) goes through findGroupByNameOrAttribute / findDataByNameOrAttribute (name first, R-NAMEFIRST); no such function searches by attribute only', floor=6)
    sem = Sem(prog)
    n = 0
    for f in sorted(prog.funcs.values(), key=lambda f: (f.file, f.line)):
        if f.body is None or not f.q.startswith('nix::hdf5::') or f.cls == 'nix::hdf5::H5Group':
            continue
        sp = [p for p in f.params if 'string' in p['type'] and 'vector' not in p['type']]
        if not sp:
            continue
        fl = None
        for c in f.calls():
            nm = c.callee.get('name')
            if nm not in ('findGroupByAttribute', 'findDataByAttribute', 'findGroupByNameOrAttribute', 'findDataByNameOrAttribute'):
                continue
            a = [x for x in real_args(c) if x is not None]
            fl = fl or Flow(sem, f)
            org = fl.origins(unwrap(a[-1]))
            if not any(o[0] == 'param' and o[1] in [p['name'] for p in sp] for o in org):
                continue
            n += 1
            key = '%s%s|%s' % (f.q, f.sig, nm)
            rule.check(nm.endswith('NameOrAttribute'), key, rep.where(c), f.label(), 'resolved name first, id as fall-back',
                       'the text argument is looked up with %s only: a child whose name has the shape of an id (legal) is not found under its name, index access and every search built on it skip it' % nm)
    if n < 6:
        raise AnalysisBroken('R-LOOKUP-VIA: only %d text lookups found' % n)
    return rule


PARTIAL_COMPARE = ('strncmp', 'strncasecmp', 'strcasecmp', 'stricmp', 'strnicmp', 'iequals', 'starts_with', 'istarts_with', 'ends_with', 'iends_with',
                   'ilexicographical_compare', 'icontains', 'contains', 'wcsncmp')


def run_exact_compare(prog, rep):
    """names, ids and keys are compared as whole, case-sensitive strings everywhere in the library"""
    rule = rep.rule('R-EXACTCMP', 'no library function compares names / ids / keys partially or case-insensitively (strncmp, iequals, starts_with, compare(pos, n, ..)): a name that is a prefix or a case variant of another is a different name', floor=1)
    nexact = 0
    bad = []
    for f in sorted(prog.funcs.values(), key=lambda f: (f.file, f.line)):
        if f.body is None or not f.q.startswith('nix::') or not f.file or prog.rel(f.file).startswith('/'):
            continue
        for c in f.calls():
            nm = (c.callee or {}).get('name') or ''
            q = (c.callee or {}).get('q') or ''
            if c.get('op') in ('==', '!=') and ('string' in repr([x.t for x in c.c if x is not None]) or 'string' in (c.callee.get('sig') or '')):
                nexact += 1
            args = [a for a in real_args(c) if a is not None]
            if nm in PARTIAL_COMPARE and (q.startswith('boost::') or q.startswith('std::') or '::' not in q):
                bad.append((f, c, nm))
            elif nm == 'compare' and 'basic_string' in q and len(args) > 1:
                bad.append((f, c, 'compare(pos, n, ...)'))
    if nexact < 5:
        raise AnalysisBroken('R-EXACTCMP: only %d whole-string comparisons seen (scan broken?)' % nexact)
    if not bad:
        rule.ok('library|whole-string-comparisons', 'src', 'nix::*', '%d whole-string comparisons (operator== / != on std::string), no partial or case-insensitive comparison' % nexact)
    for f, c, nm in bad:
        k = len([x for x in bad if x[0] is f and x[1].id < c.id])
        rule.bad('%s|%s|%d' % (re.sub(r'<.*', '', f.q), nm, k), rep.where(c), f.label(), '%s compares only a part of the text or ignores case (%s): a name / key that is a prefix or a case variant of another one is taken for it' % (nm, c.src(60)))
    return rule
