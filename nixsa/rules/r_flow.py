"""R-LIVE / R-FLOW (C05, C06, C17): index results reach the output; per-dimension conversion,
fall-back and bounds logic decided by abstract interpretation ('one arbitrary iteration' loop abstraction)."""
import re

from ..absint import GenericInterp, Opaque, Unsupported
from ..extract import AnalysisBroken
from ..sem import Sem, Flow, term, unwrap, real_args, LOCAL_KINDS

PM = 'nix::PositionMatch::'
RM = 'nix::RangeMatch::'
CONV = ('positionToIndex', 'indexOf')


def contains(v, x):
    if v == x:
        return True
    if isinstance(v, tuple):
        return any(contains(y, x) for y in v)
    return False


def find(v, pred, out=None):
    if out is None:
        out = []
    if isinstance(v, tuple):
        if pred(v):
            out.append(v)
        for y in v:
            find(y, pred, out)
    return out


def iters_of(v):
    return set(x for x in find(v, lambda t: len(t) == 2 and t[0] == 'iter'))


# ---------------------------------------------------------------- R-LIVE
def reads_after(fn, lid, store):
    """is there a read of the local after the store on some path?"""
    cfg = fn.cfg
    x = store
    while x is not None and cfg.pos.get(x.id) is None:
        x = x.p
    if x is None:
        return True
    ps = cfg.pos[x.id]
    for n in fn.walk():
        if n.k != 'ref' or n.decl.get('lid') != lid:
            continue
        # skip pure element-store bases: v[i] = ..   /  v[i] += ..
        par = n.p
        is_store_base = False
        y = n
        while par is not None and ((par.k == 'call' and par.get('op') == '[]' and unwrap(par.c[0]) is y) or (par.k == 'subscript' and unwrap(par.c[0]) is y)):
            y = par
            par = par.p
        if par is not None and ((par.k == 'assign') or (par.k == 'call' and par.get('op') in ('=', '+=', '-=', '*=', '/='))) and unwrap(par.c[0]) is y and y is not n:
            is_store_base = True
        if is_store_base:
            continue
        z = n
        while z is not None and cfg.pos.get(z.id) is None:
            z = z.p
        if z is None:
            continue
        pz = cfg.pos[z.id]
        if pz[0] == ps[0]:
            if pz[1] > ps[1]:
                return True
            # same block, earlier: only through a cycle
            for s in cfg.blocks[ps[0]].succ:
                if s is not None and cfg.reaches(s, ps[0]):
                    return True
            continue
        if cfg.reaches(ps[0], pz[0]):
            return True
    return False


def run_live(prog, rep, which=('tag', 'mtag', 'slice'), floor=2):
    sem = Sem(prog)
    rule = rep.rule('R-LIVE', 'every index computed by positionToIndex/indexOf flows into an output of the function (no dead store)', floor=floor)
    targets = []
    if 'tag' in which:
        targets += [f for f in prog.fns('nix::util::getOffsetAndCount') if 'const nix::Tag &' in f.sig]
    if 'mtag' in which:
        targets += [f for f in prog.fns('nix::util::getOffsetAndCount') if 'const nix::MultiTag &' in f.sig and 'vector' in f.sig]
    if 'slice' in which:
        targets += [prog.fn('nix::util::dataSlice')]
    n = 0
    for f in targets:
        plids = {p['lid']: p for p in f.params}
        fl = Flow(sem, f)
        # locals that hold a conversion result
        holders = {}
        for v in f.walk():
            if v.k == 'var' and v.c and v.c[0] is not None:
                calls = [c for c in v.c[0].walk() if c.k == 'call' and (c.callee or {}).get('name') in CONV]
                if calls:
                    holders[v.get('lid')] = v
        # second level: locals defined from holders (c = second - first)
        changed = True
        while changed:
            changed = False
            for v in f.walk():
                if v.k == 'var' and v.get('lid') not in holders and v.c and v.c[0] is not None:
                    if any(r.k == 'ref' and r.decl.get('lid') in holders for r in v.c[0].walk()):
                        holders[v.get('lid')] = v
                        changed = True
                if v.k == 'call' and v.get('member') and (v.callee or {}).get('name') in ('push_back', 'emplace_back') and v.c:
                    o = unwrap(v.c[0])
                    if o.k == 'ref' and o.decl.get('kind') in LOCAL_KINDS and o.decl.get('lid') not in holders:
                        if any(r.k == 'ref' and r.decl.get('lid') in holders for a in v.c[1:] if a is not None for r in a.walk()):
                            holders[o.decl.get('lid')] = v
                            changed = True
        for a in f.walk():
            is_asg = a.k == 'assign' or (a.k == 'call' and a.get('op') in ('=', '+=', '-='))
            if not is_asg or len(a.c) != 2:
                continue
            if not any(r.k == 'ref' and r.decl.get('lid') in holders for r in a.c[1].walk()):
                continue
            tgt = unwrap(a.c[0])
            base = tgt
            while base is not None and (base.k in ('subscript', 'member') or (base.k == 'call' and base.get('op') == '[]')):
                base = unwrap(base.c[0])
            if base is None or base.k != 'ref' or base.decl.get('kind') not in LOCAL_KINDS:
                continue
            lid = base.decl.get('lid')
            n += 1
            key = '%s%s|%s<-%s' % (f.q, '(MultiTag)' if 'MultiTag' in f.sig else ('(Tag)' if 'Tag' in f.sig else ''), base.decl.get('name'), a.c[1].src(40))
            if lid in plids and plids[lid]['type'].endswith('&') and not plids[lid]['type'].startswith('const '):
                rule.ok(key, rep.where(a), f.label(), 'stored into the out-parameter %s' % base.decl.get('name'))
                continue
            live = reads_after(f, lid, a)
            rule.check(live, key, rep.where(a), f.label(), 'the stored index is read later (%s is live)' % base.decl.get('name'),
                       'the index is stored into %s, which is never read afterwards: the computed position is lost and the caller gets the default offset' % tgt.src())
    if n < floor:
        raise AnalysisBroken('R-LIVE: only %d index stores found' % n)
    return rule


# ---------------------------------------------------------------- interpretation helpers
def interp_fn(prog, f, watch_names=(), watch_new=(), args=None, loop_fork=True):
    it = GenericInterp(prog, watch=lambda n: ((n.callee or {}).get('name') in watch_names) or (n.k == 'construct' and ((n.callee or {}).get('cls') or '') in watch_new))
    it.loop_once = True
    it.loop_fork = loop_fork
    it.log_terms = True
    it.watch_params = {p['lid'] for p in f.params}
    a = args if args is not None else [(p['name'],) for p in f.params]
    return it.enumerate(f, this=None, args=a)


def conv_calls(log):
    rng = [l for l in log if l[0] == 'positionToIndex' and len(l) == 6]
    sca = [l for l in log if l[0] == 'positionToIndex' and len(l) == 5]
    return rng, sca


def run_tag(prog, rep):
    rule = rep.rule('R-FLOW-TAG', 'getOffsetAndCount(Tag): per-dimension conversion of [p, p+e] at one index, offset=first, count=1+(second-first), point fall-back only for zero extent', floor=6)
    f = [x for x in prog.fns('nix::util::getOffsetAndCount') if 'const nix::Tag &' in x.sig][0]
    res = interp_fn(prog, f, watch_names=('positionToIndex',))
    stats = {'range': 0, 'fallback': 0, 'throw': 0}
    problems = {k: [] for k in ('same-index', 'end=start+extent', 'inclusive-when-no-extent', 'range-branch', 'fallback-branch', 'outputs')}
    for assign, out, log, fields in res:
        rng, sca = conv_calls(log)
        if not rng:
            continue
        c = rng[0]
        its = iters_of(c)
        if len(its) != 1:
            problems['same-index'].append('the conversion call mixes indices %s' % sorted(its))
            continue
        I = list(its)[0]
        subs = find(c, lambda t: len(t) == 4 and t[0] == 'call' and 'operator[]' in str(t[1]))
        if any(t[3] != I for t in subs):
            problems['same-index'].append('a conversion input is read at %r instead of the loop index' % ([t[3] for t in subs if t[3] != I][0],))
        # (a) start = position[I]; end = position[I] + extent[I]
        starts = find(c[1], lambda t: len(t) == 4 and t[0] == 'call' and 'operator[]' in str(t[1]) and t[3] == I)
        plus = find(c[2], lambda t: len(t) == 4 and t[0] == 'bin' and t[1] == '+')
        if not starts or not plus or plus[0][2] != starts[0] or not contains(plus[0][3], I) or "'extent'" not in repr(plus[0][3]):
            problems['end=start+extent'].append('end position is %r for start %r' % (plus[0] if plus else c[2], starts[0] if starts else c[1]))
        # (b) inclusive when there is no extent
        noext = [v for k, v in assign.items() if k[0] == 'cmp' and k[1] == '==' and 0 in k and "'extent'" in repr(k) and "'size'" in repr(k) and "'position'" not in repr(k)]
        if noext and noext[0] is True and c[4] != ('e', RM + 'Inclusive'):
            problems['inclusive-when-no-extent'].append('no extent but match mode passed on is %r' % (c[4],))
        if noext and noext[0] is False and c[4] != ('match',):
            problems['inclusive-when-no-extent'].append('extent present but match mode passed on is %r' % (c[4],))
        stores = [l for l in log if l[0] == 'store']
        R = ('call', 'nix::util::positionToIndex') + c[1:]
        has_range = [v for k, v in assign.items() if k[0] == 'truthy' and contains(k, R)]
        if not has_range:
            problems['range-branch'].append('result of the range conversion is never tested')
            continue
        if has_range[0]:
            stats['range'] += 1
            off = [s for s in stores if s[2] == '=' and s[3][:2] == ('mem', 'first') and contains(s[3], R)]
            cnt = [s for s in stores if s[2] == '+=' and isinstance(s[3], tuple) and s[3][:2] == ('bin', '-') and s[3][2][:2] == ('mem', 'second') and s[3][3][:2] == ('mem', 'first') and contains(s[3], R)]
            if out[0] != 'ret':
                problems['range-branch'].append('valid range but %r' % (out,))
            elif not off or off[0][1][2] != I:
                problems['range-branch'].append('offset[%s] is not set to range.first' % (I,))
            elif not cnt or cnt[0][1][2] != I:
                problems['range-branch'].append('count[%s] is not increased by range.second - range.first' % (I,))
            elif sca:
                problems['range-branch'].append('point fall-back computed although the range is valid')
        else:
            if not sca:
                problems['fallback-branch'].append('no range and no fall-back conversion')
                continue
            q = sca[0]
            if q[3] != ('e', PM + 'GreaterOrEqual') or iters_of(q) != {I} or q[1] != starts[0] if starts else True:
                problems['fallback-branch'].append('fall-back is %r, expected positionToIndex(position[i], unit[i], GreaterOrEqual, dimension[i])' % (q,))
            Q = ('call', 'nix::util::positionToIndex') + q[1:]
            nz = [v for k, v in assign.items() if k[0] == 'cmp' and k[1] == '==' and (0.0 in k or 0 in k) and "'extent'" in repr(k) and contains(k, I)]
            okq = [v for k, v in assign.items() if k[0] == 'truthy' and contains(k, Q)]
            must_throw = (nz and nz[0] is False) or (okq and okq[0] is False)
            if must_throw:
                stats['throw'] += 1
                if not (out[0] == 'throw' and 'OutOfBounds' in str(out[1])):
                    problems['fallback-branch'].append('empty range with non-zero extent / no index must raise OutOfBounds, outcome %r' % (out,))
            else:
                if not nz or not okq:
                    problems['fallback-branch'].append('point fall-back accepted without testing extent == 0 and the index')
                    continue
                stats['fallback'] += 1
                st = [s for s in stores if s[2] == '=' and s[3] == ('deref', Q)]
                if out[0] != 'ret' or not st or st[0][1][2] != I:
                    problems['fallback-branch'].append('point fall-back index is not stored into offset[%s]' % (I,))
        # (e) outputs
        if out[0] == 'ret':
            oa = [l for l in log if l[0] == 'assign' and l[1] == 'offset']
            ca = [l for l in log if l[0] == 'assign' and l[1] == 'count']
            offs = [s for s in stores if s[2] == '=' and s[1][0] == 'elem']
            cnts = [s for s in stores if s[2] == '+=' and s[1][0] == 'elem']
            if not oa or not ca:
                problems['outputs'].append('out-parameters are not assigned')
            else:
                if offs and oa[-1][4][:2] != ('v', offs[0][1][1][1]):
                    problems['outputs'].append('offset out-parameter is not assigned from the container that received the indices')
                if cnts and ca[-1][4][:2] != ('v', cnts[0][1][1][1]):
                    problems['outputs'].append('count out-parameter is not assigned from the container that received the counts')
                if not (isinstance(ca[-1][3], tuple) and ca[-1][3][-1] == 1):
                    problems['outputs'].append('count container is not initialised with 1 per dimension')
    if min(stats.values()) == 0 and not any(problems.values()):
        raise AnalysisBroken('R-FLOW-TAG: abstract paths do not cover all branches: %r' % stats)
    for k, v in problems.items():
        rule.check(not v, 'getOffsetAndCount(Tag)|%s' % k, rep.where(f), f.label(), '%s holds on all %d abstract paths' % (k, len(res)), '; '.join(sorted(set(v))[:3]))
    rep.extra['abstract_paths_tag'] = len(res)
    return rule


def run_mtag(prog, rep):
    rule = rep.rule('R-FLOW-MTAG', 'getOffsetAndCount(MultiTag): row = requested index, bounds guard before reading, per-index offset/count, point fall-back', floor=5)
    f = [x for x in prog.fns('nix::util::getOffsetAndCount') if 'const nix::MultiTag &' in x.sig and 'vector' in x.sig][0]
    res = interp_fn(prog, f, watch_names=('positionToIndex', 'getData', 'push_back'), loop_fork=False)
    problems = {k: [] for k in ('row-selection', 'index-guard', 'range-branch', 'fallback-branch', 'outputs')}
    seen_reads = seen_range = seen_fb = 0
    for assign, out, log, fields in res:
        reads = [l for l in log if l[0] == 'getData']
        stores = [l for l in log if l[0] == 'store']
        if reads:
            seen_reads += 1
            # (vi) first element of the offset used for reading is indices[idx]
            r0 = reads[0]
            terms = [l for l in log if l[0] == 'terms' and l[1] == 'getData']
            offterm = terms[0][-1] if terms else None   # last argument = offset
            # every read of position/extent rows happens at the row stored last *before* that read
            for r in reads:
                at = log.index(r)
                before = [s for s in log[:at] if s[0] == 'store' and s[1][0] == 'elem' and s[1][2] == 0 and offterm is not None and s[1][1][0] == 'var' and ('v', s[1][1][1], s[1][1][2]) == offterm]
                if not before or "'indices'" not in repr(before[-1][3]) or not iters_of(before[-1][3]):
                    # a block read is acceptable only under a test that looks at every requested index (whole-list algorithm)
                    whole = [k for k in assign if "'indices'" in repr(k) and any(a in repr(k) for a in ('adjacent_find', 'is_sorted', 'std::equal', 'all_of', 'mismatch', 'none_of', 'any_of'))]
                    if whole:
                        continue
                    problems['row-selection'].append('positions/extents are read at a row that is not indices[idx] of the current request (%s): the k-th result is not region indices[k]' % (
                        _s(before[-1][3]) if before else 'never set'))
                    break
            row = [s for s in stores if s[1][0] == 'elem' and s[1][2] == 0 and offterm is not None and s[1][1][0] == 'var' and ('v', s[1][1][1], s[1][1][2]) == offterm]
            if not row or "'indices'" not in repr(row[-1][3]) or not iters_of(row[-1][3]):
                problems['row-selection'].append('positions are read at offset %r whose first element is not indices[idx]' % (offterm,))
            if len(terms) >= 2 and terms[1][-2:] != terms[0][-2:]:
                problems['row-selection'].append('extents are not read with the same (count, offset) as positions')
            # bounds guard decided before
            g = [v for k, v in assign.items() if k[0] == 'cmp' and k[1] == '<' and 'max_element' in repr(k) and "'positions'" in repr(k) and 'dataExtent' in repr(k)]
            if not g or g[0] is not True:
                problems['index-guard'].append('positions are read without establishing max(indices) < number of positions')
        rng, sca = conv_calls(log)
        pushed = [l for l in log if l[0] == 'terms' and l[1] == 'push_back' and l[2][0] == 'v' and l[2][2] == 'offsets']
        firsts = [s for s in stores if s[2] == '=' and isinstance(s[3], tuple) and s[3][:2] == ('mem', 'first')]
        if firsts:
            seen_range += 1
            D = firsts[0][3][2]
            cnt = [s for s in stores if s[2] == '+=' and isinstance(s[3], tuple) and s[3][:2] == ('bin', '-') and s[3][2] == ('mem', 'second', D) and s[3][3] == ('mem', 'first', D)]
            opt = D[1] if D[0] == 'deref' else D
            if assign.get(('truthy', opt)) is not True:
                problems['range-branch'].append('range.first is used on a path that did not test that the range exists')
            if not cnt:
                problems['range-branch'].append('count is not increased by range.second - range.first of the same range')
            elif firsts[0][1][2] != cnt[0][1][2]:
                problems['range-branch'].append('offset and count are stored at different dimension indices')
            if pushed and firsts[0][1][1][:2] != ('var', pushed[0][3][1]):
                problems['range-branch'].append('range.first is stored into %s, not into the offset handed to the caller' % firsts[0][1][1][2])
            if sca:
                problems['range-branch'].append('point fall-back computed although the range is valid')
        elif sca:
            q = sca[0]
            Q = ('call', 'nix::util::positionToIndex') + q[1:]
            okq = [v for k, v in assign.items() if k[0] == 'truthy' and contains(k, Q)]
            same = [v for k, v in assign.items() if k[0] == 'cmp' and k[1] == '==' and "'end_positions'" in repr(k) or (k[0] == 'cmp' and k[1] == '==' and repr(k).count('operator[]') >= 4)]
            if q[3] != ('e', PM + 'GreaterOrEqual'):
                problems['fallback-branch'].append('fall-back uses %r instead of GreaterOrEqual' % (q[3],))
            if okq and okq[0] is False:
                if not (out[0] == 'throw' and 'OutOfBounds' in str(out[1])):
                    problems['fallback-branch'].append('no fall-back index but outcome %r' % (out,))
            elif okq:
                seen_fb += 1
                st = [s for s in stores if s[2] == '=' and s[3] == ('deref', Q)]
                if not st:
                    problems['fallback-branch'].append('fall-back index is not stored')
                elif pushed and st[0][1][1][:2] != ('var', pushed[0][3][1]):
                    problems['fallback-branch'].append('fall-back index is stored into %s, not into the offset that is handed to the caller (%s)' % (st[0][1][1][2], pushed[0][3][2]))
        if out[0] == 'ret' and rng:
            pushed = [l for l in log if l[0] == 'terms' and l[1] == 'push_back' and l[2][0] == 'v' and l[2][2] in ('offsets', 'counts')]
            if len(pushed) < 2:
                problems['outputs'].append('offsets/counts are not appended for the requested index')
    if not (seen_reads and seen_range and seen_fb) and not any(problems.values()):
        raise AnalysisBroken('R-FLOW-MTAG: abstract paths do not cover reading rows / range branch / fall-back (%d/%d/%d)' % (seen_reads, seen_range, seen_fb))
    # the optional range examined per index derives from the batched per-dimension conversion
    sem = Sem(prog)
    fl = Flow(sem, f)
    optv = [v for v in f.walk() if v.k == 'var' and 'optional<std::pair' in (v.get('ctype') or '').replace(' ', '') .replace('boost::optional<std::pair', 'optional<std::pair') and v.c and v.c[0] is not None and 'vector' not in (v.get('type') or '')]
    okd = any('positionToIndex' in fl.call_names(v.c[0]) for v in optv)
    if not okd:
        problems['range-branch'].append('the per-index range does not derive from the positionToIndex conversion of the collected positions')
    # the decision to take the point fall-back is "extent row is zero (or absent)": an equality test whose operands
    # derive from the values read from the extents array (not merely from the presence of an extents array)
    fb = [c for c in f.calls(name='positionToIndex') if len(real_args(c)) == 4 and 'vector' not in ((real_args(c)[0].t) or '')]
    if not fb:
        raise AnalysisBroken('R-FLOW-MTAG: the scalar point fall-back conversion is gone')
    for c in fb:
        conds = []
        child = c
        for anc in c.ancestors():
            if anc.k in ('for', 'while', 'rangefor'):
                break
            if anc.k == 'if' and anc.c[2] is not None and child is not anc.c[2]:
                conds.append((anc.c[2], child is anc.c[3]))
            child = anc
        def from_extents(n):
            for o in fl.origins(n):
                if o[0] == 'out' and o[1] == 'getData' and o[2].c and 'extents' in o[2].c[0].src(40):
                    return True
            return False
        def zero_extent_test(n, pol):
            n = unwrap(n)
            if n.k in ('unop', 'call') and n.get('op') == '!' and len(n.c) == 1:
                return zero_extent_test(n.c[0], not pol)
            if n.k == 'binop' and n.get('op') == '||' and pol:
                return zero_extent_test(n.c[0], True) or zero_extent_test(n.c[1], True)
            if n.k == 'binop' and n.get('op') == '&&' and not pol:
                return zero_extent_test(n.c[0], False) or zero_extent_test(n.c[1], False)
            if n.k in ('binop', 'call') and ((n.get('op') == '==' and pol) or (n.get('op') == '!=' and not pol)):
                return from_extents(n)
            return False
        if not any(zero_extent_test(cn, pol) for (cn, pol) in conds):
            problems['fallback-branch'].append('the point fall-back at line %d is not decided by an equality test on the extent values of row i (conditions: %s): '
                                               'a zero extent in a multi tag that has extents would keep offset 0' % (c.get('line') or 0, '; '.join(('' if pol else 'not ') + cn.src(50) for cn, pol in conds) or 'none'))
    for k, v in problems.items():
        rule.check(not v, 'getOffsetAndCount(MultiTag)|%s' % k, rep.where(f), f.label(), '%s holds on all %d abstract paths' % (k, len(res)), '; '.join(sorted(set(v))[:3]))
    rep.extra['abstract_paths_mtag'] = len(res)
    return rule


def run_views(prog, rep, which):
    """every DataView handed out is dominated by the bounds test with the same (array, offset, count)"""
    rule = rep.rule('R-VIEWGUARD', 'a DataView is built only after positionAndExtentInData(array, offset, count) held for the same values', floor=len(which))
    for f in which:
        res = interp_fn(prog, f, watch_names=('getOffsetAndCount',), watch_new=('nix::DataView',))
        bad = []
        nviews = 0
        for assign, out, log, fields in res:
            views = [l for l in log if l[0] == 'new nix::DataView' and len(l) == 4]
            for v in views:
                nviews += 1
                A, C, O = v[1], v[2], v[3]
                if contains(C, 'dataExtent') and not contains(C, ('iter',)) and 'elem' not in repr(C[:1]):
                    # the whole array (count = its own extent, offset zeros): in bounds by construction
                    if isinstance(O, tuple) and O and O[0] == 'new' and O[-1] == 0:
                        continue
                key = ('bool', 'nix::util::positionAndExtentInData', A, O, C)
                if assign.get(key) is not True:
                    swapped = assign.get(('bool', 'nix::util::positionAndExtentInData', A, C, O))
                    bad.append('DataView(%s, count=%s, offset=%s) without the bounds test on exactly these values%s' % (
                        _s(A), _s(C), _s(O), ' (offset and count are swapped between test and view)' if swapped is not None else ''))
        if nviews == 0:
            raise AnalysisBroken('%s: no abstract path constructs a DataView' % f.q)
        rule.check(not bad, '%s%s|view-after-bounds-test' % (f.q, _sigkey(f)), rep.where(f), f.label(), 'all %d view constructions are preceded by the bounds test' % nviews, '; '.join(sorted(set(bad))[:2]))
    return rule


def _s(v):
    return repr(v).replace('nix::', '')[:70]


def _sigkey(f):
    return '(' + ','.join(p['type'].replace('const ', '').replace('nix::', '').replace(' &', '').replace('std::', '') for p in f.params) + ')'


def run_feature_dispatch(prog, rep, multi):
    rule = rep.rule('R-FEATURE', 'featureData follows the link type: tagged -> taggedData, indexed -> slice i of the first dimension, untagged -> whole array', floor=3)
    if not multi:
        f = [x for x in prog.fns('nix::util::featureData') if 'const nix::Tag &' in x.sig and 'const nix::Feature &' in x.sig][0]
    else:
        f = [x for x in prog.fns('nix::util::featureData') if 'const nix::MultiTag &' in x.sig and 'const nix::Feature &' in x.sig and 'vector' in x.sig][0]
    from ..tables import enumerators
    for e in enumerators(prog, 'nix::LinkType'):
        kind = e.split('::')[-1]

        def conc(interp, n, env, e=e):
            if n.k == 'call' and (n.callee or {}).get('name') == 'linkType':
                return ('e', e)
            return NotImplemented
        it = GenericInterp(prog, concrete=conc, watch=lambda n: ((n.callee or {}).get('name') in ('taggedData',)) or (n.k == 'construct' and ((n.callee or {}).get('cls') or '') == 'nix::DataView'))
        it.loop_once = True
        it.loop_fork = False
        it.log_terms = True
        res = it.enumerate(f, this=None, args=[(p['name'],) for p in f.params])
        probs = []
        nres = 0
        for assign, out, log, fields in res:
            none = [v for k, v in assign.items() if (k[0] == 'cmp' and 'none' in repr(k) and "'data'" in repr(k))]
            if none and none[0] is True:
                if out[0] != 'throw':
                    probs.append('feature without data does not raise')
                continue
            if out[0] != 'ret':
                continue
            if any(k[0] == 'bool' and k[1] == 'empty' and v is True and 'position_indices' in repr(k) for k, v in assign.items()) or \
                    any(k[0] == 'cmp' and 'position_indices' in repr(k) and "'size'" in repr(k) and ((k[1] == '==' and v) or (k[1] == '<' and k[3] == 1 and v)) for k, v in assign.items() if not any(l[0] == 'new nix::DataView' for l in log) and not any(l[0] == 'taggedData' for l in log)):
                continue   # nothing requested: nothing returned
            nres += 1
            td = [l for l in log if l[0] == 'taggedData']
            views = [l for l in log if l[0] == 'new nix::DataView' and len(l) == 4]
            if multi and kind != 'Tagged':
                # an index beyond the number of positions is refused whatever the feature array looks like (tagged features: refused inside taggedData)
                bound = [(k, v) for k, v in assign.items() if k[0] == 'cmp' and 'max_element' in repr(k) and 'position_indices' in repr(k) and "'positions'" in repr(k)]
                inb = [v for k, v in bound if (k[1] == '<' and 'max_element' in repr(k[2]) and v) or (k[1] == '<' and 'max_element' in repr(k[3]) and not v and False)]
                if not bound or not (bound[0][1] is True and bound[0][0][1] == '<' and 'max_element' in repr(bound[0][0][2])):
                    probs.append('%s feature data is returned without establishing max(position indices) < number of positions: an index beyond the positions yields data when the feature array has more rows' % kind)
            stores = [l for l in log if l[0] == 'store']
            if kind == 'Tagged':
                if not td:
                    probs.append('tagged feature is not cut with taggedData')
                elif not contains(td[0], ('call', 'data', ('feature',))):
                    probs.append('taggedData is not applied to the feature data')
                continue
            if td:
                probs.append('%s feature is cut like a tagged one' % kind)
                continue
            if not views:
                probs.append('%s feature: no view is returned' % kind)
                continue
            v = views[0]
            if kind == 'Indexed' and multi:
                st0 = [s for s in stores if s[1][0] == 'elem' and s[1][2] == 0]
                off = [s for s in st0 if 'position_indices' in repr(s[3])]
                one = [s for s in st0 if s[3] == 1]
                okb = assign.get(('bool', 'nix::util::positionAndExtentInData', v[1], v[3], v[2])) is True
                if not off or not one:
                    probs.append('indexed feature: offset[0] is not the position index or count[0] is not 1')
                if not okb:
                    probs.append('indexed feature slice is not bounds-checked')
            else:
                whole = contains(v[2], 'dataExtent') and isinstance(v[3], tuple) and v[3][-1] == 0 and not [s for s in stores if s[1][0] == 'elem']
                if not whole:
                    probs.append('%s feature does not return the whole array: count %s offset %s' % (kind, _s(v[2]), _s(v[3])))
        if nres == 0 and not probs:
            raise AnalysisBroken('R-FEATURE: no returning path for link type %s' % kind)
        rule.check(not probs, '%s|%s' % ('featureData(MultiTag)' if multi else 'featureData(Tag)', kind), rep.where(f), f.label(), '%s case as specified (%d paths)' % (kind, len(res)), '; '.join(sorted(set(probs))[:2]))
    return rule


def run_forward(prog, rep, which=('Tag', 'MultiTag'), mode='RangeMatch', rid='R-FORWARD', floor=12, backend=False):
    """a function that is given a RangeMatch mode hands exactly that mode to every callee that takes one"""
    rule = rep.rule(rid, 'every function passes its %s argument on to each callee that takes a %s (no defaulted or constant mode in between)' % (mode, mode), floor=floor)
    n = 0
    for f in sorted(prog.funcs.values(), key=lambda f: (f.file, f.line)):
        if f.body is None or (f.q.startswith('nix::hdf5::') and not backend) or f.q.startswith('std::') or f.q.startswith('boost::'):
            continue
        listmode = mode.startswith('list:')
        mkey = mode[5:] if listmode else mode
        mp = [p for p in f.params if mkey in p['type'] and (('vector' in p['type']) == listmode)]
        if len(mp) != 1:
            continue
        if which and not any(w in f.sig or w in f.q for w in which):
            continue
        mv = ('v', mp[0]['lid'], mp[0]['name'])
        for c in f.calls():
            sig = split_sig_types(c.callee.get('sig') or '()')
            idx = [i for i, t in enumerate(sig) if mkey in t and (('vector' in t) == listmode)]
            if not idx or not ((c.callee.get('q') or '').startswith('nix::') or prog.resolve_call(c)):
                continue
            args = real_args(c)
            j = idx[0]
            n += 1
            key = '%s%s|%s@%s' % (f.q, _sigkey(f), c.callee.get('name'), '%s' % len([x for x in f.calls() if x.id < c.id and x.callee.get('name') == c.callee.get('name')]))
            if j >= len(args) or args[j] is None:
                rule.bad(key, rep.where(c), f.label(), 'the callee\'s RangeMatch parameter is not supplied')
                continue
            a = unwrap(args[j])
            if a.k == 'defarg':
                rule.bad(key, rep.where(c), f.label(), 'calls %s without the mode it was given: the callee falls back to its default (%s) whatever the caller asked for' % (c.callee.get('name'), a.src(40)))
            elif a.k == 'cond' and len(a.c) == 3 and mv in (term(unwrap(a.c[1])), term(unwrap(a.c[2]))) and mv in _flat_terms(term(unwrap(a.c[0]))) \
                    and isinstance(term(unwrap(a.c[0])), tuple) and term(unwrap(a.c[0]))[1] in ('==', '!='):
                # sentinel idiom: (param == Sentinel ? configured default : param)
                rule.ok(key, rep.where(c), f.label(), 'forwards %s unless it is the sentinel tested in %s' % (mp[0]['name'], a.c[0].src(40)))
            elif term(a) != mv:
                rule.bad(key, rep.where(c), f.label(), 'passes %s as the mode instead of its own parameter %s' % (a.src(40), mp[0]['name']))
            else:
                rule.ok(key, rep.where(c), f.label(), 'forwards %s' % mp[0]['name'])
    if n < floor:
        raise AnalysisBroken('%s: only %d mode-forwarding call sites found' % (rid, n))
    return rule


def _flat_terms(t):
    out = []

    def w(x):
        if isinstance(x, tuple):
            out.append(x)
            for y in x:
                w(y)
    w(t)
    return out


def split_sig_types(sig):
    from ..sem import split_sig
    return split_sig(sig)


def run_parallel(prog, rep):
    """per-dimension containers handed to one call are read at the same dimension index"""
    rule = rep.rule('R-PARALLEL', 'a call that takes elements of several per-dimension containers (positions, units, dimensions) reads all of them at the same index', floor=4)
    n = 0
    for f in sorted(prog.funcs.values(), key=lambda f: (f.file, f.line)):
        if f.body is None or not f.q.startswith('nix::util::') or not (f.file or '').endswith('dataAccess.cpp'):
            continue
        seen = {}
        for c in f.calls():
            if not (c.callee.get('q') or '').startswith('nix::') or c.get('op'):
                continue
            subs = []
            for a in real_args(c):
                if a is None:
                    continue
                x = unwrap(a)
                # outermost container subscript: X[i] or X[i][j] -> (X, i)
                chain = []
                while x is not None and ((x.k == 'call' and x.get('op') == '[]') or x.k == 'subscript'):
                    chain.append(x)
                    x = unwrap(x.c[0])
                if not chain or x is None or x.k != 'ref':
                    continue
                first = chain[-1]
                idx = term(unwrap(first.c[1]))
                if idx[0] != 'v':
                    continue
                subs.append((x.decl.get('name'), idx, first))
            if len(subs) < 2:
                continue
            n += 1
            names = sorted(set(s[0] for s in subs))
            idxs = set(s[1] for s in subs)
            key = '%s%s|%s(%s)' % (re.sub(r'<.*', '', f.q), _sigkey(f)[:50], c.callee.get('name'), ','.join(names))
            k2 = key
            i = 1
            while k2 in seen:
                i += 1
                k2 = '%s#%d' % (key, i)
            seen[k2] = True
            if len(idxs) == 1:
                rule.ok(k2, rep.where(c), f.label(), 'all read at %s' % list(idxs)[0][2])
            else:
                rule.bad(k2, rep.where(c), f.label(), 'per-dimension arguments are read at different indices: %s - the element of one dimension is combined with the unit/descriptor of another' % ', '.join(
                    '%s[%s]' % (s[0], s[1][2]) for s in subs))
    if n < 4:
        raise AnalysisBroken('R-PARALLEL: only %d multi-container calls found' % n)
    return rule


ORDER_CHANGING = ('erase', 'remove', 'remove_if', 'unique', 'sort', 'stable_sort', 'reverse', 'rotate', 'insert', 'emplace', 'swap', 'partition', 'stable_partition', 'shuffle', 'pop_front')


def run_aligned(prog, rep, floor=6):
    """per-dimension containers (entry i belongs to dimension i) are only ever extended at the end: removing, inserting or
    reordering entries shifts every later entry to another dimension"""
    rule = rep.rule('R-ALIGNED', 'per-dimension containers in the data access functions (positions, extents, units: entry i belongs to dimension i) are never shortened in the middle, reordered or inserted into; they only grow at the end', floor=floor)
    n = 0
    for f in sorted(prog.funcs.values(), key=lambda f: (f.file, f.line)):
        if f.body is None or not f.q.startswith('nix::util::') or not (f.file or '').endswith('dataAccess.cpp'):
            continue
        # locals / parameters of vector type that are read at a loop index in a call to nix:: code
        per_dim = {}
        for c in f.calls():
            if not (c.callee.get('q') or '').startswith('nix::') or c.get('op'):
                continue
            for a in real_args(c):
                if a is None:
                    continue
                for x in a.walk():
                    if (x.k == 'call' and x.get('op') == '[]') or x.k == 'subscript':
                        b = unwrap(x.c[0])
                        if b is not None and b.k == 'ref' and b.decl.get('kind') in ('local', 'param') and 'vector' in (b.decl.get('type') or b.t or ''):
                            per_dim[b.decl.get('lid')] = b.decl.get('name')
        if not per_dim:
            continue
        for lid, name in sorted(per_dim.items(), key=lambda kv: kv[1]):
            n += 1
            bad = []
            for c in f.calls():
                nm = c.callee.get('name')
                if nm not in ORDER_CHANGING:
                    continue
                touches = [x for x in c.walk() if x.k == 'ref' and x.decl.get('lid') == lid]
                if touches:
                    bad.append((nm, c))
            key = '%s%s|%s' % (f.q, _sigkey(f), name)
            if bad:
                rule.bad(key, rep.where(bad[0][1]), f.label(), '%s is changed by %s (%s): entries behind the changed place no longer belong to the dimension they are used for' % (name, bad[0][0], bad[0][1].src(60)))
            else:
                rule.ok(key, rep.where(f), f.label(), '%s only grows at the end' % name)
    if n < floor:
        raise AnalysisBroken('R-ALIGNED: only %d per-dimension containers found' % n)
    return rule


# ---------------------------------------------------------------- R-OUTPAIR
def run_outpair(prog, rep, floor=1):
    """R-OUTPAIR (C05j): a function that answers through several reference out-parameters sets them together: in every if / else-if
    chain, each arm that writes one of the out-parameters writes all the out-parameters any arm writes.  An arm that leaves one of
    them alone hands the caller the value of a previous call (callers reuse one local pair across a loop over dimensions)."""
    sem = Sem(prog)
    rule = rep.rule('R-OUTPAIR', 'within each if/else-if chain of a function with several reference out-parameters, every arm that writes one of them writes all of them (no arm leaves a stale value from the previous call)', floor=floor)
    n = 0
    for f in sorted(prog.funcs.values(), key=lambda f: (f.file or '', f.line or 0)):
        if f.body is None or not (f.file or '').endswith('src/util/dataAccess.cpp'):
            continue
        outs = [p for p in f.params if p['type'].endswith('&') and not p['type'].endswith('&&') and not p['type'].startswith('const ')]
        if len(outs) < 2:
            continue
        olids = {p['lid']: p['name'] for p in outs}
        mods = sem.mods(f)
        modnodes = {lid: [m.id for m in mods.get(lid, [])] for lid in olids}

        def written(region):
            ids = set(x.id for x in region.walk())
            return frozenset(olids[lid] for lid, ms in modnodes.items() if any(i in ids for i in ms))

        seen = set()
        for node in f.walk():
            if node.k != 'if' or node.id in seen:
                continue
            # collect the chain: then-arms of if / else if ... plus a final else
            arms = []
            cur = node
            while cur is not None and cur.k == 'if':
                seen.add(cur.id)
                if len(cur.c) > 3 and cur.c[3] is not None:
                    arms.append(cur.c[3])
                els = cur.c[4] if len(cur.c) > 4 else None
                if els is not None and els.k == 'if':
                    cur = els
                else:
                    if els is not None:
                        arms.append(els)
                    cur = None
            ws = [(a, written(a)) for a in arms]
            nonempty = [w for a, w in ws if w]
            if len(nonempty) < 2:
                continue
            n += 1
            union = frozenset().union(*nonempty)
            bad = [(a, w) for a, w in ws if w and w != union]
            key = '%s|chain@%s' % (f.q + ('(MultiTag)' if 'MultiTag' in f.sig else '(Tag)' if 'nix::Tag' in f.sig else ''), len([x for x in seen if x < node.id]))
            if bad:
                a, w = bad[0]
                rule.bad(key, rep.where(a), f.label(), 'this arm writes only %s of the out-parameters %s its sibling arms write: %s keeps the value of the previous call '
                         '(the caller reuses the same locals for every dimension)' % (sorted(w), sorted(union), sorted(union - w)))
            else:
                rule.ok(key, rep.where(node), f.label(), 'all %d writing arms write %s' % (len(nonempty), sorted(union)))
    if n < floor or not any(i.key.startswith('R-OUTPAIR|nix::util::getMaxExtent') or i.key.startswith('nix::util::getMaxExtent') for i in rule.instances):
        raise AnalysisBroken('R-OUTPAIR: the confirmed instance (getMaxExtent: pos/ext per dimension type) was not found (%d chains)' % n)
    return rule
