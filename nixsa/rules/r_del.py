"""R-DEL delete-vs-unlink (C04)."""
import re

from ..extract import AnalysisBroken
from ..sem import Sem, Flow, term, unwrap, real_args

RAL = 'nix::hdf5::H5Group::removeAllLinks'

# interface methods that delete an entity (role table; overriders are found from the program)
ENTITY_DELETE = [
    ('nix::base::IFile', 'deleteBlock', None),
    ('nix::base::IFile', 'deleteSection', 'sections'),
    ('nix::base::IBlock', 'removeEntity', 'sources?'),   # child loop only for kind Source
    ('nix::base::IBlock', 'deleteSource', 'sources'),
    ('nix::base::ISection', 'deleteSection', 'sections'),
    ('nix::base::ISource', 'deleteSource', 'sources'),
]


def overriders_of(prog, cls, name):
    rec = prog.records.get(cls)
    if not rec:
        raise AnalysisBroken('interface %s vanished' % cls)
    out = []
    for m in rec['methods']:
        if m['name'] == name and m.get('virtual'):
            out += prog.overriders(m['usr'])
    return out


def run(prog, rep):
    sem = Sem(prog)
    rule = rep.rule('R-DEL', 'entity deletion removes all links (children first); holder unlink never deletes the target', floor=24)
    ral = prog.fn(RAL)
    deleters = []
    for cls, name, child in ENTITY_DELETE:
        ovs = [f for f in overriders_of(prog, cls, name) if f.q.startswith('nix::hdf5::')]
        if not ovs:
            raise AnalysisBroken('no backend implementation of %s::%s' % (cls, name))
        for f in ovs:
            deleters.append((f, child))
    del_usrs = set(f.usr for f, c in deleters)
    for f, child in deleters:
        fl = Flow(sem, f)
        calls = [c for c in f.calls() if c.callee.get('q') == RAL]
        rets = [x for x in f.walk() if x.k == 'return']
        key = '%s%s' % (f.q, f.sig)
        # (a) the verdict derives from removeAllLinks
        derives = all(('removeAllLinks' in fl.call_names(r.c[0])) or term(r.c[0]) == ('k', False) for r in rets if r.c and r.c[0] is not None)
        rule.check(bool(calls) and derives, key + '|all-links', rep.where(calls[0] if calls else f), f.label(),
                   'returns the verdict of removeAllLinks on the owning container',
                   'deletion does not go through H5Group::removeAllLinks: other hard links to the entity (references, features, group members, metadata) would survive')
        direct = [c for c in f.calls() if c.callee.get('q') in ('nix::hdf5::H5Group::removeGroup', 'nix::hdf5::LocID::deleteLink') or (c.callee.get('name') or '') in ('H5Gunlink', 'H5Ldelete')]
        rule.check(not direct, key + '|no-single-unlink', rep.where(direct[0] if direct else f), f.label(),
                   'no single-link removal in an entity deletion', 'entity deletion uses a single-link removal (%s)' % (direct[0].src(60) if direct else ''))
        # (b) recursive child deletion dominating removeAllLinks
        if child:
            kind = child.rstrip('?')
            delname = 'deleteSection' if kind == 'sections' else 'deleteSource'
            loops = [x for x in f.body.walk() if x.k == 'rangefor']
            good = None
            for lp in loops:
                src = fl.call_names(lp.c[1]) if lp.c[1] is not None else set()
                if kind not in src:
                    continue
                inner = [c for c in lp.c[7].walk() if c.k == 'call' and (c.callee or {}).get('name') == delname]
                if not inner:
                    continue
                # the recursion goes through the public delete (which reaches this very role again)
                lv = [y for y in lp.c[6].walk() if y.k == 'var'] if lp.c[6] is not None else []
                arg_ok = lv and any(("('v', %d" % lv[0].get('lid')) in repr(term(a)) for a in real_args(inner[0]))
                if not arg_ok:
                    continue
                good = lp
                break
            okdom = False
            if good is not None and calls:
                # the loop (its range initialisation) dominates the removeAllLinks call, which is outside the loop
                cfg = f.cfg
                anchor = None
                for y in good.c[1].walk():
                    if cfg.pos.get(y.id) is not None:
                        anchor = y
                        break
                tgt = calls[0]
                inside = any(a is good for a in tgt.ancestors())
                okdom = anchor is not None and cfg.dominates(anchor.id, tgt.id) and not inside
                if child.endswith('?'):
                    # only required for kind Source: the loop must be guarded by type == Source, and
                    # then "dominates" is relative to that branch: check the loop is on every path
                    # where the kind is Source: accept a loop guarded by ident.type() == ObjectType::Source
                    guards = sem.facts_at(f, anchor.id) if anchor is not None else set()
                    is_src = any(pol and 'nix::ObjectType::Source' in repr(t) and "'=='" in repr(t) for (t, pol) in guards)
                    okdom = anchor is not None and not inside and is_src and cfg.reaches(cfg.pos[anchor.id][0], cfg.pos[listed_id(f, tgt)][0])
            rule.check(good is not None and okdom, key + '|children-first', rep.where(good if good is not None else f), f.label(),
                       'every child of the victim is deleted (recursively) before the victim is unlinked',
                       'no loop over the victim\'s %s() calling %s(child) before removeAllLinks: the subtree would stay reachable / dangling' % (kind, delname))
    # who may call removeAllLinks
    for (caller, c) in prog.callers().get(ral.usr, []):
        rule.check(caller.usr in del_usrs, 'caller|%s' % caller.q, rep.where(c), caller.label(), 'removeAllLinks is called from an entity-deletion role',
                   'removeAllLinks is called from %s, which is not an entity-deletion role: the target would be deleted everywhere' % caller.q)
    # holder unlink roles: every backend function that removes a single group link
    holders = []
    for f in sorted(prog.funcs.values(), key=lambda f: (f.file, f.line)):
        if not f.q.startswith('nix::hdf5::') or f.body is None or f.usr in del_usrs:
            continue
        if f.q.startswith('nix::hdf5::H5Group::') or f.q.startswith('nix::hdf5::optGroup'):
            continue
        if any(c.callee.get('q') == 'nix::hdf5::H5Group::removeGroup' for c in f.calls()):
            holders.append(f)
    if len(holders) < 11:
        raise AnalysisBroken('R-DEL: only %d holder-unlink sites found (11 confirmed by hand)' % len(holders))
    for f in holders:
        reach = prog.reachable(f)
        bad = ral.usr in reach
        rule.check(not bad, '%s%s|holder-unlink' % (f.q, f.sig), rep.where(f), f.label(), 'removes only its own link; cannot reach removeAllLinks',
                   'a holder-side unlink reaches removeAllLinks (%s): unlinking would delete the target for every holder' % (' -> '.join(prog.path_to(f, ral.usr) or [])))
    # removeAllLinks loop
    whiles = [x for x in ral.body.walk() if x.k == 'while']
    okl = False
    why = 'no while loop'
    if len(whiles) == 1:
        w = whiles[0]
        ct = term(w.c[0])
        if ct[0] == 'u' and ct[1] == '!' and ct[2][:2] == ('m', 'empty'):
            v = ct[2][2]
            body = w.c[1]
            dl = [c for c in body.walk() if c.k == 'call' and (c.callee or {}).get('name') == 'deleteLink' and term(real_args(c)[0]) == v]
            upd = [a for a in body.walk() if ((a.k == 'call' and a.get('op') == '=') or a.k == 'assign') and term(a.c[0]) == v]
            if dl and upd:
                rhs = term(upd[0].c[1])
                requery = rhs[:2] == ('m', 'name')
                order = dl[0].l <= upd[0].l and f_order(ral, dl[0], upd[0])
                init_ok = False
                vv = sem.local_vars(ral).get(v[1])
                if vv is not None and vv.c and vv.c[0] is not None:
                    init_ok = term(vv.c[0])[:2] == ('m', 'name') and term(vv.c[0])[2] == rhs[2]
                okl = requery and order and init_ok and not any(x.k in ('break', 'return') for x in body.walk())
                why = 'requery=%s order=%s init=%s' % (requery, order, init_ok)
            else:
                why = 'loop body lacks deleteLink(name) / re-query of the name'
        else:
            why = 'loop condition is not !name.empty()'
    rule.check(okl, 'removeAllLinks|loop', rep.where(ral), ral.q, 'loops deleteLink(current path) and re-queries the object name until none is left', why)
    # validity = link count > 0
    for q in ('nix::hdf5::EntityHDF5::isValidEntity', 'nix::hdf5::PropertyHDF5::isValidEntity'):
        f = prog.fn(q)
        rets = [x for x in f.walk() if x.k == 'return']
        okv = False
        if len(rets) == 1:
            t = term(rets[0].c[0])
            okv = t[0] == 'b' and ((t[1] == '>' and t[3] == ('k', 0)) or (t[1] == '>=' and t[3] == ('k', 1)) or (t[1] == '!=' and t[3] == ('k', 0))) and t[2][:2] == ('m', 'referenceCount')
        rule.check(okv, '%s|link-count' % q, rep.where(f), f.q, 'valid iff the object still has a link (referenceCount() > 0)')
    # link-dereferencing getters re-check block membership
    for q in ('nix::hdf5::MultiTagHDF5::positions', 'nix::hdf5::MultiTagHDF5::extents', 'nix::hdf5::FeatureHDF5::data'):
        fs = [f for f in prog.fns(q) if f.is_const and not f.params]
        if len(fs) != 1:
            raise AnalysisBroken('anchor vanished: getter %s' % q)
        f = fs[0]
        fl = Flow(sem, f)
        member = [c for c in f.calls() if (c.callee.get('cls') or '') == 'nix::base::IBlock' and c.callee.get('name') in ('hasEntity', 'getEntity')]
        thr = [t for t in f.walk() if t.k == 'throw']
        okm = False
        if member and thr:
            # the throw decision depends on the membership test
            for t in thr:
                guards = [g for g in sem.facts_at(f, t.id)]
                dep = set()
                for (gt, pol) in guards:
                    # find the condition nodes again to compute origins
                    pass
                conds = []
                for anc in t.ancestors():
                    if anc.k == 'if':
                        conds.append(anc.c[2])
                names = set()
                for cnd in conds:
                    names |= fl.call_names(cnd)
                if names & {'hasEntity', 'getEntity'}:
                    okm = True
        rule.check(okm, '%s|membership' % q, rep.where(f), f.label(), 'a link whose target is no longer in the block raises instead of being returned',
                   'getter returns the link target without re-checking block membership')
    return rule


def listed_id(f, n):
    cfg = f.cfg
    x = n
    while x is not None and cfg.pos.get(x.id) is None:
        x = x.p
    return x.id if x is not None else None


def f_order(fn, a, b):
    """a is evaluated before b on the straight-line path (same block order or dominance)"""
    cfg = fn.cfg
    ia, ib = listed_id(fn, a), listed_id(fn, b)
    if ia is None or ib is None:
        return False
    return cfg.dominates(ia, ib)


def run_by_handle(prog, rep):
    """a front-end delete/remove that is given an entity HANDLE identifies the entity by its id (or hands the entity on), never by its
    name: names are only unique below one parent, a handle may come from anywhere"""
    from ..sem import Sem, Flow, term, unwrap, real_args
    sem = Sem(prog)
    rule = rep.rule('R-BYHANDLE', 'front-end delete/remove overloads that take an entity handle resolve it by id (or pass the entity), not by name', floor=10)
    ENT = ('DataArray', 'DataFrame', 'Tag', 'MultiTag', 'Source', 'Section', 'Block', 'Feature', 'Property', 'Group')
    n = 0
    for f in sorted(prog.funcs.values(), key=lambda f: (f.file, f.line)):
        if f.body is None or not f.q.startswith('nix::') or f.q.startswith('nix::hdf5::') or f.q.startswith('nix::base::') or f.q.startswith('nix::util::'):
            continue
        if not re.match(r'^(delete|remove)', f.name or ''):
            continue
        if len(f.params) != 1:
            continue
        pt = f.params[0]['type'].replace('const ', '').replace(' &', '').replace('nix::', '').strip()
        if pt not in ENT:
            continue
        pname = f.params[0]['name']
        fl = Flow(sem, f)
        bcalls = [c for c in f.calls() if c.get('member') and (c.callee.get('cls') or '').startswith('nix::base::I') and re.match(r'^(delete|remove)', c.callee.get('name') or '')]
        if not bcalls:
            continue
        n += 1
        c = bcalls[0]
        a = real_args(c)[0] if real_args(c) else None
        key = '%s::%s(%s)' % (f.cls, f.name, pt)
        if a is None:
            rule.bad(key, rep.where(c), f.label(), 'the backend call gets no argument')
            continue
        acc = set()
        whole = False
        for x in a.walk():
            if x.k == 'call' and x.get('member') and x.c and not real_args(x):
                o = unwrap(x.c[0])
                if o.k == 'ref' and o.decl.get('name') == pname:
                    acc.add(x.callee.get('name'))
        t = term(unwrap(a))
        if t == ('v', f.params[0]['lid'], pname) or (isinstance(t, tuple) and t[0] in ('new', 'cast') and ('v', f.params[0]['lid'], pname) in t):
            whole = True
        ok = whole or acc == {'id'} or ('id' in acc and 'name' not in acc)
        rule.check(ok, key, rep.where(c), f.label(), 'backend %s receives %s' % (c.callee.get('name'), 'the entity' if whole else pname + '.id()'),
                   'the handle is resolved by %s(): a handle of a same-named entity below ANOTHER parent makes this call delete/unlink the entity of that name below this parent (and report success), while the entity the caller chose stays' % ('/'.join(sorted(acc)) or a.src(30)))
    if n < 10:
        raise AnalysisBroken('R-BYHANDLE: only %d by-handle delete/remove overloads found' % n)
    return rule


def run_break_cycles(prog, rep):
    """an entity whose own sub-tree can hold a hard link back to it (alias range dimension: <array>/dimensions/1 links the
    array) must lose that sub-tree before it is unlinked, otherwise the object keeps itself alive: handles stay valid, the
    file keeps the data"""
    rule = rep.rule('R-DEL-CYCLE', 'BlockHDF5::removeEntity removes the dimension descriptors of a DataArray before it unlinks the array (a descriptor can link back to the array)', floor=1)
    sem = Sem(prog)
    f = prog.fn('nix::hdf5::BlockHDF5::removeEntity')
    ral = [c for c in f.calls() if (c.callee or {}).get('name') == 'removeAllLinks']
    dd = [c for c in f.calls() if (c.callee or {}).get('name') == 'deleteDimensions']
    if not ral:
        raise AnalysisBroken('R-DEL-CYCLE: removeAllLinks not found in BlockHDF5::removeEntity')
    # where the back link is made: the alias constructor of RangeDimensionHDF5 links the array into the dimension group
    back = [c for g in prog.fns('nix::hdf5::RangeDimensionHDF5::RangeDimensionHDF5') if g.body is not None for c in g.calls() if (c.callee or {}).get('name') in ('createLink',)]
    if not back:
        rule.ok('BlockHDF5::removeEntity|no-back-link', rep.where(f), f.label(), 'no dimension constructor links the array into its own sub-tree any more', nontrivial=False)
        return rule
    ok = False
    why = 'no deleteDimensions() call before removeAllLinks'
    for c in dd:
        if c.id > ral[0].id:
            continue
        facts = sem.facts_at(f, c.id)
        typed = any("'nix::ObjectType::DataArray'" in repr(t) and ((isinstance(t, tuple) and t[1] == '==' and pol) or (isinstance(t, tuple) and t[1] == '!=' and not pol)) for t, pol in facts)
        if typed:
            ok = True
        else:
            why = 'deleteDimensions() is not under ident.type() == ObjectType::DataArray'
    rule.check(ok, 'BlockHDF5::removeEntity|dimensions-first', rep.where(ral[0]), f.label(), 'for a DataArray the dimension descriptors go first (%d back-link site(s) in RangeDimensionHDF5)' % len(back),
               '%s: an array with an alias range dimension links to itself from <array>/dimensions/1; unlinked from the block it keeps itself alive - its handle stays valid and the data stays in the file' % why)
    return rule


def run_section_selflink(prog, rep):
    """deleteSection: the victim's own 'link' (which may point to the victim itself) is dropped before the victim is unlinked"""
    rule = rep.rule('R-DEL-SELFLINK', 'FileHDF5::deleteSection and SectionHDF5::deleteSection drop the victim\'s own section link before removeAllLinks (a section may be linked to itself)', floor=2)
    n = 0
    for q in ('nix::hdf5::FileHDF5::deleteSection', 'nix::hdf5::SectionHDF5::deleteSection'):
        for f in prog.fns(q):
            if f.body is None or not f.params or 'string' not in f.params[0]['type']:
                continue
            n += 1
            ral = [c for c in f.calls() if (c.callee or {}).get('name') == 'removeAllLinks']
            unl = [c for c in f.calls() if (c.callee or {}).get('name') == 'link' and [a for a in real_args(c) if a is not None and 'none' in a.src(20)]]
            victim = None
            if ral:
                a = [x for x in real_args(ral[0]) if x is not None]
                refs = [y for y in a[0].walk() if y.k == 'ref' and y.decl.get('kind') == 'local'] if a else []
                victim = refs[0].decl.get('lid') if refs else None
            ok = bool(ral) and any(c.id < ral[0].id and any(y.k == 'ref' and y.decl.get('lid') == victim for y in c.walk()) for c in unl)
            rule.check(ok, q.split('::', 2)[-1], rep.where(ral[0] if ral else f), f.label(), 'victim.link(none) precedes removeAllLinks(victim.name())',
                       'the victim is unlinked while it may still hold a section link to itself: such a section keeps itself alive, its handles stay valid and the group stays in the file')
    if n < 2:
        raise AnalysisBroken('R-DEL-SELFLINK: deleteSection implementations not found')
    return rule


ENTITY_HANDLES = ('nix::DataArray', 'nix::DataFrame', 'nix::Tag', 'nix::MultiTag', 'nix::Source', 'nix::Section', 'nix::Block', 'nix::Group', 'nix::Feature', 'nix::Property')


def run_backend_by_handle(prog, rep):
    """backend functions that are given an entity handle identify the entity by the handle itself or by its id, never by its name
    (names are unique only within one parent: a handle of another block with the same name would be taken for the local entity)"""
    rule = rep.rule('R-BYHANDLE-BACK', 'backend functions that receive an entity handle look the entity up by the handle itself or by handle.id(), never by handle.name()', floor=3)
    n = 0
    for f in sorted(prog.funcs.values(), key=lambda f: (f.file, f.line)):
        if f.body is None or not f.q.startswith('nix::hdf5::'):
            continue
        hp = [p['name'] for p in f.params if p['type'].replace('const ', '').replace(' &', '').strip() in ENTITY_HANDLES]
        if not hp:
            continue
        k = 0
        for c in f.calls():
            if not ((c.callee or {}).get('cls') or '').startswith('nix::') or c.get('op') or (c.callee or {}).get('name') in ('name', 'id'):
                continue
            for a in real_args(c):
                if a is None:
                    continue
                for x in a.walk():
                    if x.k == 'call' and x.get('member') and (x.callee or {}).get('name') in ('name', 'id') and x.c and unwrap(x.c[0]) is not None and unwrap(x.c[0]).k == 'ref' and unwrap(x.c[0]).decl.get('name') in hp:
                        n += 1
                        k += 1
                        rule.check(x.callee.get('name') == 'id', '%s%s|%s|%d' % (f.q, f.sig[:50], (c.callee or {}).get('name'), k), rep.where(c), f.label(), 'identified by %s' % x.src(30),
                                   '%s is given %s: an entity of another parent that carries the same name is taken for the local one (linked, tested or deleted in its place)' % ((c.callee or {}).get('name'), x.src(30)))
                    elif x.k == 'ref' and x.decl.get('name') in hp and unwrap(a).id == x.id:
                        n += 1
    if n < 3:
        raise AnalysisBroken('R-BYHANDLE-BACK: only %d handle uses found' % n)
    return rule
