"""R-ERR storage error discipline (C09, C11, C16): the result of every file-mutating
HDF5 C call is consumed by the repository's idiom on every path (HErr/HTri/H5Object
wrapper that is .check()ed / .isError()ed, validity test of the raw id, or returned)."""
import re

from ..extract import AnalysisBroken
from ..sem import term, unwrap

MUTATING = re.compile(r'^(H5Dwrite|H5Dset_extent|H5Dcreate\d?|H5Gcreate\d?|H5Gunlink|H5Gmove\d?|H5Lcreate_(hard|soft)|H5Ldelete|'
                      r'H5Lmove|H5Awrite|H5Acreate\d?|H5Adelete|H5Arename|H5Fflush|H5Fopen|H5Fcreate|H5Ocopy|H5Olink)$')
CONSUMERS = ('check', 'isError', 'result', 'operator bool')
WRAPPERS = ('nix::hdf5::HErr', 'nix::hdf5::HTri')


def is_h5object(prog, cls):
    seen = set()
    st = [cls]
    while st:
        c = st.pop()
        if c in seen or c is None:
            continue
        seen.add(c)
        if c == 'nix::hdf5::H5Object':
            return True
        r = prog.records.get(c)
        if r:
            st += [b.get('q') for b in r['bases']]
    return False


def throw_free_postdom(fn, def_id, use_id):
    """every normal path from def to the function exit passes use"""
    cfg = fn.cfg
    pd = cfg.pos.get(def_id)
    pu = cfg.pos.get(use_id)
    if pd is None or pu is None:
        return False
    if pd[0] == pu[0]:
        return pu[1] >= pd[1]
    dead = set()
    for b in cfg.blocks.values():
        if any(fn.nodes.get(e) is not None and fn.nodes[e].k == 'throw' for e in b.elems) or b.noreturn:
            dead.add(b.id)
    return not cfg.reaches(pd[0], cfg.exit, avoid=dead | {pu[0]})


def listed(fn, n):
    """closest node (self or ancestor) that is an element of the CFG"""
    cfg = fn.cfg
    x = n
    while x is not None and cfg.pos.get(x.id) is None:
        x = x.p
    return x


def classify(prog, fn, call):
    """-> (status, detail) with status in consumed / dropped / unchecked"""
    n = call
    p = n.p
    holder = None
    wrapped = False
    # climb through wrapper constructions
    while p is not None and p.k in ('construct', 'cast'):
        if p.k == 'construct':
            cls = (p.callee or {}).get('cls')
            if cls in WRAPPERS or is_h5object(prog, cls):
                wrapped = True
        n = p
        p = n.p
    if p is None:
        return 'dropped', 'result discarded'
    if p.k in ('compound', 'for', 'while', 'do', 'case', 'default', 'label') or (p.k == 'if' and n in p.c[3:]):
        return 'dropped', 'result discarded (expression statement)'
    if p.k == 'return':
        return 'consumed', 'returned to the caller'
    if p.k in ('binop', 'unop', 'cond') or (p.k == 'if' and n is p.c[2]):
        return 'consumed', 'tested in %s' % p.src(60)
    defn = None
    if p.k == 'var':
        holder = ('v', p.get('lid'), p.get('name'))
        defn = p
    elif p.k == 'assign':
        holder = term(p.c[0])
        defn = p
    elif p.k == 'call' and p.get('op') == '=':
        holder = term(p.c[0])
        defn = p
    elif p.k == 'ctorinit':
        holder = ('f', p.get('field'))
        defn = p
    elif p.k == 'call':
        # passed straight into another call (e.g. res = HErr(...).check()) : member call on the temporary
        if p.get('member') and p.c and unwrap(p.c[0]) is n and (p.callee or {}).get('name') in CONSUMERS:
            return 'consumed', 'checked on the temporary'
        return 'consumed', 'passed to %s' % ((p.callee or {}).get('q'))
    else:
        return 'unchecked', 'unrecognised context %s' % p.k
    d = listed(fn, defn)
    if d is None:
        return 'unchecked', 'definition not in CFG'
    # find consumers of the holder
    for m in fn.walk():
        if m.k == 'call' and m.get('member') and m.c and (m.callee or {}).get('name') in CONSUMERS and term(m.c[0]) == holder:
            u = listed(fn, m)
            if u is not None and throw_free_postdom(fn, d.id, u.id):
                return 'consumed', '%s.%s()' % (holder[-1], m.callee.get('name'))
        if m.k == 'call' and (m.callee or {}).get('name') == 'H5Iis_valid' and m.c and term(m.c[0]) == holder:
            u = listed(fn, m)
            if u is not None and throw_free_postdom(fn, d.id, u.id):
                return 'consumed', 'H5Iis_valid(%s)' % holder[-1]
        if m.k == 'binop' and m.get('op') in ('<', '<=', '>', '>=', '==', '!=') and (term(m.c[0]) == holder or term(m.c[1]) == holder):
            u = listed(fn, m)
            if u is not None and throw_free_postdom(fn, d.id, u.id):
                return 'consumed', 'compared: %s' % m.src(50)
        if m.k == 'return' and m.c and m.c[0] is not None and term(m.c[0]) == holder and wrapped:
            pass
    return 'unchecked', 'stored in %s but not checked on every path' % (holder[-1] if isinstance(holder, tuple) else holder)


def run(prog, rep):
    rule = rep.rule('R-ERR', 'result of every file-mutating HDF5 call is checked (HErr/HTri/H5Object .check, id validity) on every path', floor=13)
    sites = 0
    for fn in sorted(prog.funcs.values(), key=lambda f: (f.file, f.line)):
        if fn.body is None:
            continue
        for call in fn.calls():
            cal = call.callee
            nm = cal.get('name') or ''
            if cal.get('cls') or not MUTATING.match(nm):
                continue
            sites += 1
            st, detail = classify(prog, fn, call)
            key = '%s|%s' % (fn.q, nm)
            if st == 'consumed':
                rule.ok(key, rep.where(call), fn.label(), '%s: %s' % (nm, detail))
                continue
            # tabled exception: a function nobody calls
            if not prog.callers().get(fn.usr):
                rule.ok(key, rep.where(call), fn.label(), '%s result %s, tabled: %s has zero callers in the library (exception lapses when a caller appears)' % (nm, detail, fn.q), nontrivial=False)
                continue
            callers = sorted(set(c[0].q for c in prog.callers().get(fn.usr, [])))
            rule.bad(key, rep.where(call), fn.label(), '%s: %s; a failure (e.g. on a ReadOnly file) is silently ignored; reached from %s' % (nm, detail, ', '.join(callers[:8])))
    if sites < 13:
        raise AnalysisBroken('R-ERR: only %d mutating HDF5 call sites found (13 confirmed by hand)' % sites)
    return rule


EXISTENCE = ('H5Lexists', 'H5Aexists', 'H5Oexists_by_name')


def run_exists(prog, rep):
    """existence queries on a location id turn an HDF5 error (invalid id after close, broken path) into an exception: their tri-state
    result is .check()ed, not merely read with result()"""
    rule = rep.rule('R-ERR-EXISTS', 'the tri-state result of H5Lexists / H5Aexists is check()ed: an error (stale handle after close) raises instead of reading as "absent"', floor=2)
    n = 0
    for f in sorted(prog.funcs.values(), key=lambda f: (f.file, f.line)):
        if f.body is None or not f.q.startswith('nix::hdf5::'):
            continue
        for c in f.calls():
            if c.callee.get('name') not in EXISTENCE or c.callee.get('cls'):
                continue
            n += 1
            # holder variable
            holder = None
            p = c.p
            while p is not None and p.k not in ('var', 'return', 'compound', 'if'):
                p = p.p
            checks = []
            if p is not None and p.k == 'var':
                lid = p.get('lid')
                for m in f.calls():
                    if m.get('member') and m.c and unwrap(m.c[0]).k == 'ref' and unwrap(m.c[0]).decl.get('lid') == lid:
                        checks.append(m.callee.get('name'))
            ok = 'check' in checks
            rule.check(ok, '%s|%s' % (f.q, c.callee.get('name')), rep.where(c), f.label(), 'result is check()ed (%s)' % checks,
                       'the result of %s is only read with %s: an error return (negative, e.g. the handle of a closed file) reads as "does not exist" - queries through handles that outlived close() '
                       'return empty answers instead of throwing' % (c.callee.get('name'), checks or 'nothing'))
    if n < 2:
        raise AnalysisBroken('R-ERR-EXISTS: existence queries vanished (%d)' % n)
    return rule


# catch handlers of the backend; each confirmed by reading
BACKEND_CATCHES = {
    'nix::hdf5::FileHDF5::createHeader': 'rethrows a fixed H5Exception after a failed header write (the handler ends in a throw)',
}


def run_no_swallow(prog, rep):
    """no backend function swallows an exception: a handler in nix::hdf5 code ends in a throw on every path (a failed HDF5 call,
    e.g. a mutation of a ReadOnly file, must reach the caller as an exception)"""
    rule = rep.rule('R-NOSWALLOW', 'every catch handler in the HDF5 backend rethrows (ends in a throw on every path): a failed HDF5 call is never turned into a normal return', floor=1)
    n = 0
    for f in sorted(prog.funcs.values(), key=lambda f: (f.file, f.line)):
        if f.body is None or not f.q.startswith('nix::hdf5::'):
            continue
        k = 0
        for x in f.walk():
            if x.k != 'catch':
                continue
            n += 1
            k += 1
            body = [c for c in x.c if c is not None and c.k == 'compound']
            stm = [c for c in (body[-1].c if body else []) if c is not None]

            def ends_in_throw(s):
                if s is None:
                    return False
                if s.k == 'throw':
                    return True
                if s.k in ('exprstmt', 'cleanup', 'paren') or (s.k not in ('if', 'compound') and any(y.k == 'throw' for y in s.c if y is not None) and len([y for y in s.c if y is not None]) == 1):
                    return any(ends_in_throw(y) for y in s.c if y is not None)
                if s.k == 'compound':
                    ss = [y for y in s.c if y is not None]
                    return bool(ss) and ends_in_throw(ss[-1])
                if s.k == 'if':
                    return ends_in_throw(s.c[3]) and ends_in_throw(s.c[4])
                return False
            ok = bool(stm) and ends_in_throw(stm[-1])
            rule.check(ok, '%s|catch%d' % (re.sub(r'<.*', '', f.q), k), rep.where(x), f.label(), 'the handler ends in a throw',
                       'the handler for %s can end without throwing: the failure of the guarded HDF5 calls (for instance on a ReadOnly file) becomes a normal return value' % (x.get('ctype') or '...'))
    if n < 1:
        raise AnalysisBroken('R-NOSWALLOW: no catch handler found in the backend (positive example vanished)')
    return rule
