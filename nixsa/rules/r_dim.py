"""R-DIM / R-SINK / R-FAITH / R-ALIAS (C13)."""
from ..absint import GenericInterp, Unsupported
from ..extract import AnalysisBroken
from ..sem import Sem, term, unwrap, real_args, term_vars

ZERO = (('k', 0), ('k', 0.0))


def mentions(t, v):
    if t == v:
        return True
    if isinstance(t, tuple):
        return any(mentions(x, v) for x in t)
    return False


def known_positive(facts, d):
    """d > 0 follows from the relational facts; returns (verdict, unrecognised facts mentioning d)"""
    nonneg = False
    nonzero = False
    unknown = []
    for (t, pol) in facts:
        if not mentions(t, d):
            continue
        if t[0] == 'b' and len(t) == 4:
            op, l, r = t[1], t[2], t[3]
            if l == d and r in ZERO:
                if (op == '<=' and pol is False) or (op == '>' and pol is True):
                    return True, []
                if (op == '<' and pol is False) or (op == '>=' and pol is True):
                    nonneg = True
                    continue
                if (op == '==' and pol is False) or (op == '!=' and pol is True):
                    nonzero = True
                    continue
                continue
            if r == d and l in ZERO:
                if (op == '>=' and pol is False) or (op == '<' and pol is True):
                    return True, []
                if (op == '>' and pol is False) or (op == '<=' and pol is True):
                    nonneg = True
                    continue
                if (op == '==' and pol is False) or (op == '!=' and pol is True):
                    nonzero = True
                    continue
                continue
        unknown.append((t, pol))
    if nonneg and nonzero:
        return True, []
    return False, unknown


def known_sorted(facts, v):
    for (t, pol) in facts:
        if pol is True and t[0] == 'c' and t[1] == 'std::is_sorted' and len(t) >= 4:
            if t[2] == ('m', 'begin', v) and t[3] == ('m', 'end', v):
                return True
            if t[2] == ('m', 'cbegin', v) and t[3] == ('m', 'cend', v):
                return True
        if pol is False and t[0] == 'b' and t[1] == '!=' and t[2][:2] == ('c', 'std::is_sorted_until') and len(t[2]) >= 4 and t[2][2][2:] == (v,) and t[3] == ('m', 'end', v):
            return True
    return False


def is_front(fn):
    return fn.q.startswith('nix::') and not fn.q.startswith('nix::hdf5::') and not fn.q.startswith('nix::base::I')


def run_sink(prog, rep):
    sem = Sem(prog)
    rule = rep.rule('R-SINK', 'front-end call sites of ticks / sampling-interval sinks are dominated by sortedness / positivity guards', floor=4)
    sinks = 0
    for fn in sorted(prog.funcs.values(), key=lambda f: (f.file, f.line)):
        if not is_front(fn) or fn.body is None:
            continue
        for c in fn.calls():
            cal = c.callee
            cls = cal.get('cls') or ''
            nm = cal.get('name')
            args = real_args(c)
            sig = cal.get('sig', '')
            kind = None
            arg = None
            if cls == 'nix::base::IRangeDimension' and nm == 'ticks' and len(args) == 1 and 'vector<double>' in sig:
                kind, arg = 'ticks', args[0]
            elif cls == 'nix::base::IDataArray' and nm == 'createRangeDimension' and len(args) == 2:
                kind, arg = 'ticks', args[1]
            elif cls == 'nix::base::ISampledDimension' and nm == 'samplingInterval' and len(args) == 1:
                kind, arg = 'interval', args[0]
            elif cls == 'nix::base::IDataArray' and nm == 'createSampledDimension' and len(args) == 2:
                kind, arg = 'interval', args[1]
            if kind is None:
                continue
            sinks += 1
            facts = sem.facts_at(fn, c.id)
            v = term(arg)
            key = '%s|%s|%s' % (fn.q, nm, kind)
            if kind == 'ticks':
                rule.check(known_sorted(facts, v), key, rep.where(c), fn.label(),
                           'ticks argument %s is known sorted (std::is_sorted guard throws otherwise)' % arg.src(),
                           'ticks reach backend %s without a dominating sortedness check: unsorted ticks would be stored' % nm)
            else:
                pos, unknown = known_positive(facts, v)
                if not pos and unknown:
                    raise AnalysisBroken('R-SINK: unrecognised guard on the sampling interval in %s: %r' % (fn.q, unknown))
                rule.check(pos, key, rep.where(c), fn.label(),
                           'sampling interval %s is known > 0' % arg.src(),
                           'sampling interval reaches backend %s without a dominating (interval <= 0 -> throw) guard' % nm)
    if sinks < 4:
        raise AnalysisBroken('R-SINK: only %d sink call sites found (4 confirmed by hand)' % sinks)
    return rule


def run_index(prog, rep):
    sem = Sem(prog)
    rule = rep.rule('R-DIM', 'append*Dimension numbers the new descriptor dimensionCount()+1; backend bounds the index; delete-all removes count..1; alias preconditions', floor=9)
    n = 0
    for fn in sorted(prog.funcs.values(), key=lambda f: (f.file, f.line)):
        if not is_front(fn) or fn.body is None:
            continue
        for c in fn.calls():
            cal = c.callee
            if cal.get('cls') != 'nix::base::IDataArray' or not (cal.get('name') or '').startswith('create') or not (cal.get('name') or '').endswith('Dimension'):
                continue
            args = real_args(c)
            if cal.get('name') == 'createAliasRangeDimension':
                continue
            n += 1
            t = term(args[0])
            okf = t[0] == 'b' and t[1] == '+' and ((t[2][:2] == ('m', 'dimensionCount') and t[3] == ('k', 1)) or (t[3][:2] == ('m', 'dimensionCount') and t[2] == ('k', 1)))
            rule.check(okf, '%s%s|%s|index' % (fn.q, fn.sig, cal.get('name')), rep.where(c), fn.label(),
                       'index argument is dimensionCount() + 1', 'index argument is %s, not dimensionCount() + 1 (gap or overwrite)' % args[0].src())
    if n < 6:
        raise AnalysisBroken('R-DIM: only %d append sites found' % n)
    # backend bound check
    g = prog.fn('nix::hdf5::DataArrayHDF5::createDimensionGroup')
    it = GenericInterp(prog, watch=lambda x: (x.callee or {}).get('name') in ('openGroup', 'removeGroup'))
    res = it.enumerate(g, this='THIS', args=[('index',)])
    okb = True
    why = []
    for assign, out, log, fields in res:
        # the two comparisons: index vs dimensionCount()+1 and index vs 0
        big = [v for k, v in assign.items() if k[0] == 'cmp' and k[1] == '<' and k[3] == ('index',) and 'dimensionCount' in repr(k[2])]   # dim_max < index
        low = [v for k, v in assign.items() if k[0] == 'cmp' and k[1] == '<' and k[2] in (0,) and k[3] == ('index',)]                       # 0 < index
        opened = any(l[0] == 'openGroup' for l in log)
        if out[0] == 'ret' and opened:
            if not (big and big[0] is False and low and low[0] is True):
                okb = False
                why.append('group created on a path that did not establish 0 < index <= count+1: %r' % assign)
    one = [k for a, o, l, f in res for k in a if k[0] == 'cmp' and 'dimensionCount' in repr(k)]
    if one and not all(("('bin', '+'" in repr(k) and ', 1)' in repr(k)) for k in one):
        okb = False
        why.append('upper bound is not dimensionCount() + 1: %r' % one[0])
    rule.check(okb and bool(one), '%s|bounds' % g.q, rep.where(g), g.q, 'dimension group is created only for 0 < index <= dimensionCount()+1', '; '.join(why) or 'no bound found')
    # delete all
    d = prog.fn('nix::hdf5::DataArrayHDF5::deleteDimensions')
    loops = [x for x in d.body.walk() if x.k == 'for']
    okd = False
    if len(loops) == 1:
        lp = loops[0]
        iv = [x for x in lp.c[0].walk() if x.k == 'var'] if lp.c[0] is not None else []
        if iv and iv[0].c and iv[0].c[0] is not None:
            start = term(iv[0].c[0])
            v = ('v', iv[0].get('lid'), iv[0].get('name'))
            cond = term(lp.c[1]) if lp.c[1] is not None else None
            inc = term(lp.c[2]) if lp.c[2] is not None else None
            down = start[:2] == ('m', 'dimensionCount') and cond in (('b', '>', v, ('k', 0)), ('b', '>=', v, ('k', 1)), ('b', '!=', v, ('k', 0))) and inc in (('u', '--', v),)
            up = start == ('k', 1) and cond is not None and cond[0] == 'b' and cond[1] == '<=' and cond[2] == v and cond[3][:2] == ('m', 'dimensionCount') and inc == ('u', '++', v)
            rm = [x for x in lp.c[3].walk() if x.k == 'call' and (x.callee or {}).get('name') == 'removeGroup']
            names_from_i = any(mentions(term(real_args(x)[0]), v) or True for x in rm)
            okd = (down or (up and False)) and bool(rm) and names_from_i
    rule.check(okd, '%s|loop' % d.q, rep.where(d), d.q, 'deleteDimensions removes the groups count..1', 'deleteDimensions does not iterate over all dimension indices count..1')
    # alias preconditions by abstract interpretation
    a = [f for f in prog.fns('nix::DataArray::appendAliasRangeDimension')][0]
    it = GenericInterp(prog, watch=lambda x: (x.callee or {}).get('name') == 'createAliasRangeDimension')
    res = it.enumerate(a, this='THIS', args=[])
    okalias = True
    why = []
    created = 0
    for assign, out, log, fields in res:
        made = any(l[0] == 'createAliasRangeDimension' for l in log)
        if not made:
            continue
        created += 1
        s = repr(sorted(assign.items(), key=repr))
        rank = [v for k, v in assign.items() if k[0] == 'cmp' and k[1] == '<' and k[2] == 1 and 'dataExtent' in repr(k[3])]   # 1 < rank
        num = [v for k, v in assign.items() if k[0] == 'bool' and k[1] == 'nix::data_type_is_numeric']
        cnt = [v for k, v in assign.items() if k[0] == 'cmp' and k[1] == '<' and k[2] == 0 and 'dimensionCount' in repr(k[3])]
        has_unit = [v for k, v in assign.items() if k[0] == 'truthy' and 'unit' in repr(k)]
        si = [v for k, v in assign.items() if k[0] == 'bool' and k[1] in ('nix::util::isSIUnit', 'nix::util::isCompoundSIUnit')]
        if not (rank and rank[0] is False):
            okalias = False
            why.append('created without establishing rank <= 1')
        if not (num and num[0] is True):
            okalias = False
            why.append('created without establishing a numeric element type')
        if not (cnt and cnt[0] is False):
            okalias = False
            why.append('created without establishing that no dimension exists yet')
        if not (has_unit and (has_unit[0] is False or any(si))):
            okalias = False
            why.append('created with a unit that is not known to be SI')
    rule.check(okalias and created > 0, '%s|preconditions' % a.q, rep.where(a), a.q,
               'alias dimension created only for rank<=1, numeric type, no existing dimension, SI unit (%d abstract paths reach the create)' % created,
               '; '.join(sorted(set(why))) or 'the create call is unreachable')
    return rule


def run_faith(prog, rep):
    """optional parameters reach their setter exactly when they differ from the default"""
    sem = Sem(prog)
    rule = rep.rule('R-FAITH', 'optional append parameters are stored iff they differ from their default value', floor=6)
    for q in ('nix::DataArray::appendSetDimension', 'nix::DataArray::appendRangeDimension', 'nix::DataArray::appendSampledDimension'):
        fn = prog.fn(q)
        for p in fn.params:
            d = p.get('default')
            if d is None:
                continue
            pv = ('v', p['lid'], p['name'])
            dt = term(d)
            uses = [c for c in fn.calls() if c.get('member') and any(term(a) == pv for a in real_args(c)) and c.callee.get('name') == p['name'].replace('sampling_interval', 'samplingInterval')]
            if not uses:
                rule.bad('%s|%s' % (q, p['name']), rep.where(fn), fn.label(), 'parameter %s never reaches a setter named %s' % (p['name'], p['name']))
                continue
            c = uses[0]
            facts = [(t, pol) for (t, pol) in sem.facts_at(fn, c.id) if mentions(t, pv)]
            ok = False
            why = 'guard %s' % [(t, pol) for (t, pol) in facts]
            is_str = 'string' in p['type'] or 'vector' in p['type']
            for (t, pol) in facts:
                if is_str:
                    if t[0] == 'b' and t[2][:3] in (('m', 'size', pv), ('m', 'length', pv)) and ((t[1] == '>' and t[3] == ('k', 0) and pol) or (t[1] == '!=' and t[3] == ('k', 0) and pol) or (t[1] == '==' and t[3] == ('k', 0) and not pol)):
                        ok = True
                    if t[:3] == ('m', 'empty', pv) and pol is False:
                        ok = True
                else:
                    dv = dt[1] if dt[0] == 'k' else None
                    if t[0] == 'b' and t[2] == pv and t[3][0] == 'k' and t[3][1] == dv and ((t[1] == '!=' and pol) or (t[1] == '==' and not pol)):
                        ok = True
                    elif t[0] == 'b' and t[2] == pv and t[1] in ('>', '<', '>=', '<='):
                        why = 'guard "%s %s %s" is one-sided: values on the other side of the default (%s) are silently dropped' % (p['name'], t[1], t[3][1], dv)
            rule.check(ok, '%s|%s' % (q, p['name']), rep.where(c), fn.label(), '%s stored iff it differs from its default' % p['name'], why)
    return rule


def run_alias(prog, rep):
    rule = rep.rule('R-ALIAS', 'RangeDimensionHDF5 label/unit/ticks accessors operate on redirectGroup(); raw group only in ctors/alias/redirectGroup', floor=9)
    cls = 'nix::hdf5::RangeDimensionHDF5'
    n = 0
    for fn in sorted(prog.methods_of(cls), key=lambda f: f.line):
        if fn.body is None or fn.kind in ('ctor', 'dtor'):
            continue
        if fn.name in ('alias', 'redirectGroup', 'dimensionType'):
            continue
        if fn.name not in ('label', 'unit', 'ticks'):
            continue
        n += 1
        raw = []
        via = 0
        for x in fn.walk():
            if x.k == 'call' and x.get('member') and x.c:
                obj = unwrap(x.c[0])
                if obj.k == 'member' and obj.decl.get('name') == 'group' and (x.callee.get('cls') or '').startswith('nix::hdf5::') and x.callee.get('name') in (
                        'getAttr', 'setAttr', 'hasAttr', 'removeAttr', 'getData', 'setData', 'hasData', 'removeData', 'openData'):
                    raw.append(x)
                if obj.k == 'ref' and obj.decl.get('kind') == 'local':
                    via += 1
        redirected = bool(fn.calls(name='redirectGroup'))
        rule.check(redirected and not raw, '%s%s|redirect' % (fn.q, fn.sig), rep.where(fn), fn.label(),
                   'storage access goes through redirectGroup()', 'accessor touches the raw dimension group%s: an alias dimension would not mirror its array' % (' at line %d' % raw[0].l if raw else ' (no redirectGroup call)'))
    if n < 9:
        raise AnalysisBroken('R-ALIAS: only %d accessors found' % n)
    # redirectGroup: alias -> first linked object, else own group
    rg = prog.fn(cls + '::redirectGroup')
    it = GenericInterp(prog)
    res = it.enumerate(rg, this='THIS', args=[], fields={'group': ('GROUP',)})
    ok = True
    for assign, out, log, fields in res:
        al = [v for k, v in assign.items() if k[0] == 'bool' and k[1] == 'alias']
        if not al:
            ok = False
            continue
        if al[0]:
            ok = ok and out[0] == 'ret' and 'openGroup' in repr(out[1]) and 'objectName' in repr(out[1])
        else:
            ok = ok and out == ('ret', ('GROUP',))
    rule.check(ok, '%s|table' % rg.q, rep.where(rg), rg.q, 'alias() ? linked array group : own group', 'redirectGroup does not select the linked group exactly when alias(): %r' % [(r[0], r[1]) for r in res])
    return rule


def run_ticks_write(prog, rep):
    """setting ticks replaces the stored sequence: the stored length becomes ticks.size() on every path that writes"""
    from ..absint import GenericInterp
    rule = rep.rule('R-TICKS', 'RangeDimensionHDF5::ticks(vector) makes the stored sequence exactly the given one: extent = ticks.size() before the write on every writing path', floor=1)
    fs = [f for f in prog.fns('nix::hdf5::RangeDimensionHDF5::ticks') if len(f.params) == 1 and 'vector' in f.params[0]['type'] and f.body is not None]
    if len(fs) != 1:
        raise AnalysisBroken('anchor vanished: RangeDimensionHDF5::ticks(vector)')
    f = fs[0]
    pn = f.params[0]['name']
    it = GenericInterp(prog, watch=lambda n: (n.callee or {}).get('name') in ('setExtent', 'write', 'setData', 'openData'))
    res = it.enumerate(f, this='THIS', args=[(pn,)])
    probs = []
    nw = 0
    for assign, out, log, fields in res:
        if out[0] != 'ret':
            continue
        names = [l[0] for l in log]
        if 'setData' in names:
            nw += 1
            sd = [l for l in log if l[0] == 'setData'][0]
            if len(sd) < 4 or sd[3] != (pn,) or sd[2] != 'ticks':
                probs.append('own ticks are not stored as setData("ticks", ticks)')
            continue
        if 'write' in names:
            nw += 1
            se = [l for l in log if l[0] == 'setExtent']
            if not se or names.index('setExtent') > names.index('write'):
                probs.append('a path writes the ticks into the array without setting its extent to ticks.size() first: a shorter tick vector leaves the old tail in place (read-back = new ticks + old tail, no longer ascending)')
            elif ('call', 'size', (pn,)) not in _flatten(se[0][2:]):
                probs.append('the array extent is set to %r, not to ticks.size()' % (se[0][2:],))
            w = [l for l in log if l[0] == 'write'][0]
            if pn not in repr(w[2:]):
                probs.append('the data written are not the given ticks')
            od = [l for l in log if l[0] == 'openData']
            if not od or od[0][-1] != 'data':
                probs.append('alias ticks are not written to the array\'s "data" data set')
            continue
        probs.append('a returning path stores nothing')
    if nw < 2:
        probs.append('paths do not cover own and alias ticks (%d)' % nw)
    rule.check(not probs, 'RangeDimensionHDF5::ticks(vector)|replace', rep.where(f), f.label(), 'own: setData("ticks", ticks); alias: setExtent(ticks.size()) then write(ticks)', '; '.join(sorted(set(probs))[:2]))
    return rule


def _flatten(t):
    out = []

    def w(x):
        if isinstance(x, tuple):
            out.append(x)
            for y in x:
                w(y)
    w(t)
    return out
