"""R-MBT mutate-before-throw (C08): a two-state (clean/dirty) typestate analysis run from every public
mutating API root through the closed-world call graph over each function's CFG.  Reported: an explicit
argument-rejecting throw that is reachable after a file-mutating event of the same API call and whose guard
is not refuted by facts established earlier (validator summaries / throw-guards, propagated through calls)."""
import json
import os
import re

from ..extract import AnalysisBroken, VERIF
from ..sem import Sem, term, unwrap, real_args, term_vars, split_sig
from .r_err import MUTATING

STORAGE_EXC = re.compile(r'(H5Exception|H5Error|MissingAttr)')
# classes whose throws are storage failures / internal consistency of the file, not argument rejections
HELPER_CLASSES = ('nix::hdf5::HErr', 'nix::hdf5::HTri', 'nix::hdf5::H5Object')
# functions whose (possible) writes are deliberately not "mutating events" (DESIGN 2, R-MBT)
NOT_EVENTS = {
    'nix::hdf5::optGroup::operator()': 'creates at most an empty container group: invisible through every getter (counts, has- and index queries treat a missing and an empty container alike)',
    'nix::hdf5::EntityHDF5::setUpdatedAt': 'timestamp refresh',
    'nix::hdf5::EntityHDF5::forceUpdatedAt': 'timestamp refresh',
    'nix::hdf5::PropertyHDF5::setUpdatedAt': 'timestamp refresh',
    'nix::hdf5::PropertyHDF5::forceUpdatedAt': 'timestamp refresh',
    'nix::hdf5::FileHDF5::setUpdatedAt': 'timestamp refresh',
    'nix::hdf5::FileHDF5::forceUpdatedAt': 'timestamp refresh',
}
TABLE = os.path.join(VERIF, 'nixsa', 'rules', 'mbt_table.json')


def replace_term(t, old, new):
    if t == old:
        return new
    if isinstance(t, tuple):
        return tuple(replace_term(x, old, new) for x in t)
    return t


class MBT(object):
    def __init__(self, prog):
        self.prog = prog
        self.sem = Sem(prog)
        self.memo = {}
        self.stack = []
        self.facts_cache = {}
        self.mut_summary = {}
        self.reports = {}
        self.collect = [[]]

    # ---- does a function (transitively) mutate?
    def mutates(self, fn, seen=None):
        if fn.usr in self.mut_summary:
            return self.mut_summary[fn.usr]
        if fn.q in NOT_EVENTS or self.const_api(fn):
            self.mut_summary[fn.usr] = False
            return False
        if seen is None:
            seen = set()
        if fn.usr in seen:
            return False
        seen.add(fn.usr)
        res = False
        for n, t in self.prog.callees(fn):
            if self.mutates(t, seen):
                res = True
                break
        if not res:
            for n in fn.walk():
                if n.k == 'call' and n.callee and not n.callee.get('cls') and MUTATING.match(n.callee.get('name') or ''):
                    res = True
                    break
        self.mut_summary[fn.usr] = res
        return res

    H5X = ('nix::hdf5::H5Group', 'nix::hdf5::LocID', 'nix::hdf5::DataSet', 'nix::hdf5::Attribute', 'nix::hdf5::H5Object', 'nix::hdf5::DataSpace',
           'nix::hdf5::optGroup', 'nix::hdf5::PList')

    def const_api(self, fn):
        """const member functions of the entity classes (front end and *HDF5 back end) are queries: they are trusted
        not to change the observable file state (the h5x wrapper layer is NOT covered: its const methods do write)"""
        if fn.kind != 'method' or not fn.is_const or not fn.cls:
            return False
        if fn.cls in self.H5X or fn.cls.startswith('nix::hdf5::h5x'):
            return False
        return fn.q.startswith('nix::')

    def facts(self, fn, node_id):
        key = (fn.usr, node_id)
        if key not in self.facts_cache:
            self.facts_cache[key] = self.sem.facts_at(fn, node_id)
        return self.facts_cache[key]

    def translate(self, fn, call, tgt, facts):
        """facts over fn's values -> facts over tgt's parameters"""
        args = real_args(call)
        mapping = []
        for i, p in enumerate(tgt.params):
            if i < len(args) and args[i] is not None:
                mapping.append((term(args[i]), ('v', p['lid'], p['name'])))
        plids = set(p['lid'] for p in tgt.params)
        out = set()
        for i, p in enumerate(tgt.params):
            a = args[i] if i < len(args) else None
            if a is None and isinstance(p.get('default'), object) and p.get('default') is not None and not isinstance(p.get('default'), dict):
                a = p['default']
            if a is not None:
                ta = term(a)
                if ta[0] == 'k' and isinstance(ta[1], bool):
                    out.add((('v', p['lid'], p['name']), ta[1]))
                elif ta[0] == 'v' and p['type'] in ('bool', 'const bool'):
                    for (t, pol) in facts:
                        if t == ta:
                            out.add((('v', p['lid'], p['name']), pol))
        for (t, pol) in facts:
            t2 = t
            for old, new in mapping:
                t2 = replace_term(t2, old, new)
            vs = term_vars(t2)
            if vs and vs <= plids:
                out.add((t2, pol))
        return frozenset(out)

    def analyze(self, fn, dirty_in, inc, chain, first_mut):
        """returns dirty_out (may) ; reports go to self.reports"""
        key = (fn.usr, dirty_in, inc, first_mut if dirty_in else None)
        if key in self.memo:
            res, recs = self.memo[key]
            self.collect[-1].extend(recs)
            return res
        if len(chain) > 14 or fn.usr in [c.usr for c in chain]:
            return dirty_in or self.mutates(fn)
        self.memo[key] = (dirty_in or self.mutates(fn), [])   # provisional (recursion)
        cfg = fn.cfg
        if cfg is None or fn.body is None:
            return self.memo[key][0]
        chain = chain + [fn]
        self.collect.append([])
        reach = cfg.reachable()
        order = sorted(reach, reverse=True)
        din = {b: None for b in reach}
        din[cfg.entry] = (dirty_in, first_mut)
        changed = True
        dout = {}
        rounds = 0
        while changed and rounds < 6:
            changed = False
            rounds += 1
            for b in order:
                B = cfg.blocks[b]
                preds = [dout[p] for p in B.pred if p in dout]
                if b == cfg.entry:
                    state = (dirty_in, first_mut)
                elif preds:
                    d = any(p[0] for p in preds)
                    fm = next((p[1] for p in preds if p[0]), None)
                    state = (d, fm)
                else:
                    continue
                dirty, fm = state
                seen_e = set()
                for eid in B.elems:
                    if eid in seen_e:
                        continue   # wrappers (implicit casts, temporaries) share the id of the expression they wrap
                    seen_e.add(eid)
                    n = fn.nodes.get(eid)
                    if n is None:
                        continue
                    if n.k == 'throw':
                        if dirty:
                            self.report(fn, n, fm, chain, inc)
                        continue
                    if n.k == 'lambda' and n.c and n.c[0] is not None:
                        # the body runs when the algorithm it is handed to runs: approximated as 'here', in tree order
                        for x in n.c[0].walk():
                            if x.k == 'throw' and dirty:
                                self.report(fn, x, fm, chain, inc)
                            elif x.k in ('call', 'construct') and x.callee:
                                if not x.callee.get('cls') and MUTATING.match(x.callee.get('name') or ''):
                                    if not dirty:
                                        dirty, fm = True, (fn.q, x.callee.get('name'), x.l)
                                    continue
                                for t in self.prog.resolve_call(x):
                                    if t.q in NOT_EVENTS or (not dirty and not self.mutates(t)):
                                        continue
                                    d2 = self.analyze(t, dirty, frozenset(), chain, fm)
                                    if d2 and not dirty:
                                        dirty, fm = True, (t.q, 'via call', x.l)
                        continue
                    if n.k in ('call', 'construct') and n.callee:
                        cal = n.callee
                        nm = cal.get('name') or ''
                        if inc and any((t, not pol) in inc for (t, pol) in self.facts(fn, n.id)):
                            continue   # this call site is unreachable under the facts the caller established
                        if not cal.get('cls') and MUTATING.match(nm):
                            if not dirty:
                                dirty, fm = True, (fn.q, nm, n.l)
                            continue
                        tgts = self.prog.resolve_call(n)
                        for t in tgts:
                            if t.q in NOT_EVENTS:
                                continue
                            if not dirty and not self.mutates(t):
                                continue   # cannot become dirty inside and is clean on entry: nothing to report
                            local = self.facts(fn, n.id) | inc
                            tinc = self.translate(fn, n, t, local)
                            d2 = self.analyze(t, dirty, tinc, chain, fm)
                            if d2 and not dirty:
                                dirty, fm = True, (t.q, 'via call', n.l)
                new = (dirty, fm)
                if dout.get(b) != new:
                    if b in dout and dout[b][0] and not new[0]:
                        new = dout[b]
                    if dout.get(b) != new:
                        dout[b] = new
                        changed = True
        ex = cfg.blocks[cfg.exit]
        res = False
        for p in ex.pred:
            if p in dout and dout[p][0]:
                B = cfg.blocks[p]
                if any(fn.nodes.get(e) is not None and fn.nodes[e].k == 'throw' for e in B.elems):
                    continue
                res = True
        recs = self.collect.pop()
        # keep one record per (throw site) in this frame
        uniq = {}
        for r in recs:
            uniq.setdefault((r[0].usr, r[1].id, r[1].l), r)
        recs = list(uniq.values())
        self.collect[-1].extend(recs)
        self.memo[key] = (res or dirty_in, recs)
        return self.memo[key][0]

    def report(self, fn, thr, fm, chain, inc):
        ext = thr.get('extype') or 'rethrow'
        if STORAGE_EXC.search(ext):
            return
        if fn.cls in HELPER_CLASSES or fn.q.startswith('nix::hdf5::check::'):
            return
        if not thr.c or thr.c[0] is None:
            return   # 'throw;' re-throw
        # refutation: a guard of the throw contradicts a fact established before the call
        guards = self.facts(fn, thr.id)
        for (t, pol) in guards:
            if (t, not pol) in inc:
                return
        self.collect[-1].append((fn, thr, fm, [c.q for c in chain], ext))

    def run_root(self, root):
        self.collect = [[]]
        self.analyze(root, False, frozenset(), [], None)
        rootq = re.sub(r'<[^<>]*(<[^<>]*>)?[^<>]*>', '', root.q)
        for (fn, thr, fm, chain, ext) in self.collect[0]:
            fnq = re.sub(r'<[^<>]*(<[^<>]*>)?[^<>]*>', '', fn.q)
            key = (fnq, ext.replace('nix::', '').replace('std::', ''), rootq)
            r = self.reports.setdefault(key, {'thr': thr, 'fn': fn, 'fms': set(), 'chain': chain})
            if fm:
                r['fms'].add(fm[0])


def load_table():
    if not os.path.exists(TABLE):
        return {}
    out = {}
    for e in json.load(open(TABLE))['discharged']:
        out.setdefault((e['throw_in'], e['exception']), []).append(e)
    return out


def check_requirement(prog, sem, rq):
    """structural obligation a tabled discharge depends on; returns (ok, explanation)"""
    fns = [f for f in prog.fns(rq['in']) if rq.get('sig', '') in f.sig and f.body is not None]
    if not fns:
        return False, 'function %s not found' % rq['in']
    for f in fns:
        cfg = f.cfg
        if rq['kind'] == 'fact_at_call':
            calls = f.calls(name=rq['call'])
            if not calls:
                return False, '%s no longer calls %s' % (f.q, rq['call'])
            for c in calls:
                facts = sem.facts_at(f, c.id)
                if not any(pol is rq['polarity'] and rq['contains'] in repr(t) for (t, pol) in facts):
                    return False, 'in %s the call %s (line %d) is not dominated by a check on %s (%s)' % (f.q, rq['call'], c.l, rq['contains'], rq['polarity'])
        elif rq['kind'] == 'call_before':
            firsts = f.calls(name=rq['first'])
            thens = f.calls(name=rq['then'])
            if not firsts or not thens:
                return False, '%s: %s or %s not called' % (f.q, rq['first'], rq['then'])
            for t in thens:
                if not any(_dom(f, a, t) for a in firsts):
                    return False, 'in %s no call of %s dominates %s (line %d)' % (f.q, rq['first'], rq['then'], t.l)
        elif rq['kind'] == 'loop_guard_before':
            loops = [x for x in f.body.walk() if x.k in ('rangefor', 'for')]
            good = []
            for lp in loops:
                thr = [x for x in lp.walk() if x.k == 'throw' and rq['throws'] in (x.get('extype') or '')]
                over_param = any(r.k == 'ref' and r.decl.get('kind') == 'param' for r in (lp.c[1].walk() if lp.k == 'rangefor' and lp.c[1] is not None else (lp.c[1].walk() if lp.c[1] is not None else [])))
                if thr and over_param:
                    good.append(lp)
            thens = f.calls(name=rq['before'])
            if not good or not thens:
                return False, 'in %s no validating loop over the argument precedes %s' % (f.q, rq['before'])
            for t in thens:
                if not any(_dom_stmt(f, lp, t) for lp in good):
                    return False, 'in %s the validating loop does not dominate %s (line %d)' % (f.q, rq['before'], t.l)
            if rq.get('same_key_as'):
                # the validating loop must test the element under the same key (accessor) the later call is given
                from ..sem import Flow
                flw = Flow(Sem(prog), f)

                def accessors(node):
                    out = set()
                    for o in flw.origins(node):
                        x = o[2] if o[0] == 'call' and len(o) > 2 else None
                        if x is not None and x.k == 'call' and x.get('member') and x.c and not real_args(x):
                            o = unwrap(x.c[0])
                            if o.k == 'ref' and o.decl.get('kind') in ('local', 'param') and (x.callee or {}).get('cls', '').startswith('nix::') and not (x.callee or {}).get('cls', '').startswith('nix::hdf5'):
                                out.add(x.callee.get('name'))
                    return out
                later = set()
                for c in f.calls(name=rq['same_key_as']):
                    for a in real_args(c):
                        later |= accessors(a)
                guard = set()
                for lp in good:
                    for i in lp.walk():
                        if i.k == 'if' and i.c[2] is not None and i.c[3] is not None and any(x.k == 'throw' for x in i.c[3].walk()):
                            # only the tests that ask the library whether the element exists (has* / find* of a nix:: class);
                            # a local bookkeeping test (set insert for duplicates) says nothing about the later call
                            asks = [c for c in i.c[2].walk() if c.k == 'call' and ((c.callee or {}).get('cls') or '').startswith('nix::') and
                                    re.match(r'^(has|find|get)', (c.callee or {}).get('name') or '') and real_args(c)]
                            if asks:
                                guard |= accessors(i.c[2])
                if not later:
                    return False, 'in %s no call of %s receives a key of the argument elements' % (f.q, rq['same_key_as'])
                if not later <= guard:
                    return False, 'in %s the validating loop tests the elements by %s() but %s is later given %s(): an element that passes the test under one key can still be rejected under the other, after the old state was removed' % (
                        f.q, '/'.join(sorted(guard)) or '?', rq['same_key_as'], '/'.join(sorted(later)))
    return True, ''


def _listed(f, n):
    x = n
    while x is not None and f.cfg.pos.get(x.id) is None:
        x = x.p
    return x


def _dom(f, a, b):
    la, lb = _listed(f, a), _listed(f, b)
    return la is not None and lb is not None and f.cfg.dominates(la.id, lb.id)


def _dom_stmt(f, loop, b):
    """the loop statement (its range/condition evaluation) dominates b and b is outside the loop"""
    if any(a is loop for a in b.ancestors()):
        return False
    for y in loop.walk():
        if f.cfg.pos.get(y.id) is not None:
            lb = _listed(f, b)
            return lb is not None and f.cfg.dominates(y.id, lb.id)
    return False


def is_root(prog, f):
    if not f.q.startswith('nix::') or f.q.startswith('nix::hdf5::') or f.q.startswith('nix::base::I') or f.q.startswith('nix::valid::'):
        return False
    if f.body is None or f.cfg is None:
        return False
    if f.kind in ('ctor', 'dtor', 'conv'):
        return False
    if f.access not in (None, 'public'):
        return False
    if f.kind == 'method' and f.is_const:
        return False
    if f.q.startswith('nix::util::') and f.kind != 'func':
        return False
    return True


def run(prog, rep, val_ok=True, only=None, floor=40):
    """only: regular expression on the root's qualified name (a per-property slice of the same analysis)"""
    rule = rep.rule('R-MBT', 'no argument-rejecting throw is reachable after a file-mutating event of the same API call (typestate over the call graph)', floor=floor)
    m = MBT(prog)
    roots = [f for f in sorted(prog.funcs.values(), key=lambda f: (f.file, f.line)) if is_root(prog, f) and m.mutates(f)]
    if only is not None:
        roots = [r for r in roots if re.search(only, r.q)]
    if len(roots) < (60 if only is None else 4):
        raise AnalysisBroken('R-MBT: only %d public mutating roots found' % len(roots))
    for r in roots:
        m.run_root(r)
    table = load_table()
    req_cache = {}
    clean_roots = set(re.sub(r'<[^<>]*(<[^<>]*>)?[^<>]*>', '', r.q) for r in roots)
    for key in sorted(m.reports):
        rp = m.reports[key]
        fn, thr = rp['fn'], rp['thr']
        k = '%s|%s|root:%s' % key
        clean_roots.discard(key[2])
        entry = None
        for e in table.get((key[0], key[1]), []):
            if e.get('roots') and key[2] not in e['roots']:
                continue
            if key[2] in e.get('except_roots', []):
                continue
            entry = e
            break
        detail = 'throw %s in %s (%s:%d) is reachable after a mutating event (%s) of the API call %s; chain: %s' % (
            key[1], key[0].replace('nix::', ''), prog.rel(fn.file), thr.l, ', '.join(sorted(x.replace('nix::', '') for x in rp['fms']))[:160],
            key[2].replace('nix::', ''), ' -> '.join(c.replace('nix::', '') for c in rp['chain'][:8]))
        if entry is not None and entry.get('requires'):
            failed = []
            for rq in entry['requires']:
                rk = json.dumps(rq, sort_keys=True)
                if rk not in req_cache:
                    req_cache[rk] = check_requirement(prog, m.sem, rq)
                if not req_cache[rk][0]:
                    failed.append(req_cache[rk][1])
            if failed:
                rule.bad(k, rep.where(thr), fn.label(), 'the tabled discharge no longer applies (%s): %s' % ('; '.join(failed), detail))
                continue
        if entry is not None:
            if entry.get('requires_val') and not val_ok:
                rule.bad(k, rep.where(thr), fn.label(), 'tabled discharge lapses because R-VAL does not hold: ' + detail)
            else:
                rule.ok(k, rep.where(thr), fn.label(), 'discharged (tabled): %s' % entry['reason'], nontrivial=True)
        else:
            rule.bad(k, rep.where(thr), fn.label(), detail)
    for q in sorted(clean_roots):
        rule.ok('root|%s' % q, 'root', q, 'no explicit rejection reachable after a mutating event', nontrivial=True)
    rep.extra['mbt_roots'] = len(roots)
    rep.extra['mbt_pairs'] = len(m.reports)
    rep.extra['mbt_functions_analysed'] = len(set(k[0] for k in m.memo))
    return rule


def run_replace_dups(prog, rep):
    """BaseTagHDF5::references(vector): the new list is checked for an array named twice before the old references are removed
    (linking the same array twice is refused by libhdf5 - after the removal)"""
    from ..sem import Sem, term, unwrap, real_args
    rule = rep.rule('R-REPLACE-DUP', 'BaseTagHDF5::references(vector) refuses a list that names an array twice before it removes anything', floor=1)
    fs = [f for f in prog.fns('nix::hdf5::BaseTagHDF5::references') if f.body is not None and f.params and 'vector' in f.params[0]['type']]
    if len(fs) != 1:
        raise AnalysisBroken('R-REPLACE-DUP: BaseTagHDF5::references(vector) not found')
    f = fs[0]
    rem = [c for c in f.calls() if (c.callee or {}).get('name') == 'removeReference']
    if not rem:
        raise AnalysisBroken('R-REPLACE-DUP: the removal loop was not found')
    ok = False
    for i in f.walk():
        if i.k == 'if' and i.id < rem[0].id and i.c[2] is not None and i.c[3] is not None and any(x.k == 'throw' for x in i.c[3].walk()):
            cs = i.c[2]
            ins = [c for c in cs.walk() if c.k == 'call' and (c.callee or {}).get('name') in ('insert', 'count', 'find', 'emplace') and 'set' in ((c.callee or {}).get('cls') or '')]
            if ins and any(a.k in ('rangefor', 'for') for a in i.ancestors()):
                ok = True
    rule.check(ok, 'BaseTagHDF5::references|no-duplicates', rep.where(rem[0]), f.label(), 'a repeated id in the new list throws before the removal loop',
               'the old references are removed before anything tests the new list for an array named twice: the second link fails in libhdf5 and the call throws with the old references gone')
    return rule
