"""R-VER (C10): FormatVersion gates and ordering decided on the sign domain.

Two abstract versions A (receiver) and B (argument); the abstract state is the sign
vector s[i] = sign(A_i - B_i) in {-1,0,+1}^3.  The interpreter refuses any use of a
component other than a relational comparison with the same-index component of a version
(that refusal is the pre-pass that makes the 27 sign vectors exhaustive for all int
triples)."""
import itertools

from ..absint import Interp, Unsupported
from ..extract import AnalysisBroken
from ..sem import term, unwrap

CLS = 'nix::FormatVersion'


class CrossIndex(Exception):
    """a component of one version is compared with a different component of the other"""
    def __init__(self, node):
        Exception.__init__(self, node.src(40))
        self.node = node


class MagnitudeDependent(Exception):
    """the comparison is not a function of the component order alone"""

    def __init__(self, coeffs, signs, node):
        Exception.__init__(self, 'magnitude dependent')
        self.coeffs = coeffs
        self.signs = signs
        self.node = node

    def witness(self):
        pos = [i for i in sorted(self.coeffs) if self.coeffs[i] * self.signs[i] > 0]
        neg = [i for i in sorted(self.coeffs) if self.coeffs[i] * self.signs[i] < 0]
        i, j = pos[0], neg[0]
        d = [0, 0, 0]
        d[i] = abs(self.coeffs[j]) * (1 if self.signs[i] > 0 else -1)
        d[j] = abs(self.coeffs[i]) * (1 if self.signs[j] > 0 else -1)
        return tuple(d)


def _lin(v):
    if isinstance(v, tuple) and v and v[0] == 'comp':
        return {(v[1], v[2]): 1}, 0
    if isinstance(v, tuple) and v and v[0] == 'lin':
        return dict(v[1]), v[2]
    if isinstance(v, int) and not isinstance(v, bool):
        return {}, v
    return None


def _mklin(m, k):
    m = {kk: c for kk, c in m.items() if c != 0}
    return ('lin', tuple(sorted(m.items())), k)


class VerInterp(Interp):
    def __init__(self, prog, fieldidx, signs):
        Interp.__init__(self, prog, inline=lambda fn: fn.cls == CLS)
        self.fieldidx = fieldidx
        self.signs = signs

    def member(self, base, name, n, env):
        if isinstance(base, tuple) and base[0] == 'obj' and name in self.fieldidx:
            return ('comp', base[1], self.fieldidx[name])
        raise Unsupported('member %s of %r at %s' % (name, base, n.loc()))

    def binop(self, op, l, r, n):
        ll, rl = _lin(l), _lin(r)
        is_lin = (isinstance(l, tuple) and l and l[0] == 'lin') or (isinstance(r, tuple) and r and r[0] == 'lin')
        if ll is not None and rl is not None and (ll[0] or rl[0]) and op in ('+', '-', '*'):
            # linear forms over components (e.g. a packed version number)
            if op == '*':
                if ll[0] and rl[0]:
                    raise Unsupported('product of two version components at %s' % n.loc())
                (m, k), c = (ll, rl[1]) if ll[0] else (rl, ll[1])
                return _mklin({kk: cc * c for kk, cc in m.items()}, k * c)
            sg = 1 if op == '+' else -1
            m = dict(ll[0])
            for kk, cc in rl[0].items():
                m[kk] = m.get(kk, 0) + sg * cc
            return _mklin(m, ll[1] + sg * rl[1])
        if is_lin and ll is not None and rl is not None and op in ('<', '<=', '>', '>=', '==', '!='):
            m = dict(ll[0])
            for kk, cc in rl[0].items():
                m[kk] = m.get(kk, 0) - cc
            k = ll[1] - rl[1]
            coeffs = {}
            for i in range(3):
                ca, cb = m.get(('A', i), 0), m.get(('B', i), 0)
                if ca != -cb:
                    raise Unsupported('linear comparison that is not a function of component differences at %s' % n.loc())
                coeffs[i] = ca
            if k != 0 or any(kk[1] not in (0, 1, 2) for kk in m):
                raise Unsupported('linear comparison with a constant offset at %s' % n.loc())
            terms = [coeffs[i] * self.signs[i] for i in range(3) if coeffs[i] * self.signs[i] != 0]
            if terms and not (all(t > 0 for t in terms) or all(t < 0 for t in terms)):
                raise MagnitudeDependent(coeffs, self.signs, n)
            sgn = 0 if not terms else (1 if terms[0] > 0 else -1)
            return {'<': sgn < 0, '<=': sgn <= 0, '>': sgn > 0, '>=': sgn >= 0, '==': sgn == 0, '!=': sgn != 0}[op]
        lc = isinstance(l, tuple) and l and l[0] == 'comp'
        rc = isinstance(r, tuple) and r and r[0] == 'comp'
        if lc or rc:
            if not (lc and rc):
                raise Unsupported('version component compared with a non-component at %s (%s): the sign domain is not exhaustive' % (n.loc(), n.src()))
            if l[2] != r[2]:
                raise CrossIndex(n)
            if op not in ('<', '<=', '>', '>=', '==', '!='):
                raise Unsupported('arithmetic on a version component at %s (%s): the sign domain is not exhaustive' % (n.loc(), n.src()))
            if l[1] == r[1]:
                s = 0
            else:
                s = self.signs[l[2]] if l[1] == 'A' else -self.signs[l[2]]
            return {'<': s < 0, '<=': s <= 0, '>': s > 0, '>=': s >= 0, '==': s == 0, '!=': s != 0}[op]
        return Interp.binop(self, op, l, r, n)


class ConcreteVerInterp(Interp):
    """fallback when a gate leaves the comparison-only fragment (arithmetic on components, versions built on the fly):
    the source is interpreted on concrete int triples.  It can only refute (a concrete pair with the wrong verdict is a
    counterexample for the real code, int overflow aside - the grid keeps away from overflowing sums); it proves nothing."""

    def __init__(self, prog, fieldidx, vals):
        Interp.__init__(self, prog, inline=lambda fn: fn.cls == CLS)
        self.fieldidx = fieldidx
        self.vals = vals

    def _triple(self, base):
        if isinstance(base, tuple) and base and base[0] == 'obj' and base[1] in self.vals:
            return self.vals[base[1]]
        x = base
        while isinstance(x, tuple) and len(x) == 2 and x[0] == 'list' and isinstance(x[1], tuple) and x[1] and x[1][0] == 'list':
            x = x[1]
        if isinstance(x, tuple) and x and x[0] == 'list' and len(x) == 4 and all(isinstance(v, int) and not isinstance(v, bool) for v in x[1:]):
            return tuple(x[1:])
        return None

    def member(self, base, name, n, env):
        t = self._triple(base)
        if t is not None and name in self.fieldidx:
            return t[self.fieldidx[name]]
        raise Unsupported('member %s of %r at %s' % (name, base, n.loc()))


def concrete_grid():
    big = 2 ** 31 - 1
    out = []
    for a in ((1, 2, 0), (5, 7, 9), (0, 0, 0)):
        comps = [sorted(set([a[i] + d for d in (-2, -1, 0, 1, 2)] + [-1, 0, 1, -(2 ** 31) + 2, big - 2])) for i in range(3)]
        for b in itertools.product(*comps):
            out.append((a, b))
    return out


def refute_concretely(prog, idx, fn, spec, only_signs=None):
    """first concrete (A, B) on the grid for which the interpreted source disagrees with the specification"""
    sgn = lambda x: (x > 0) - (x < 0)
    for a, b in concrete_grid():
        signs = tuple(sgn(a[i] - b[i]) for i in range(3))
        if only_signs is not None and signs != only_signs:
            continue
        it = ConcreteVerInterp(prog, idx, {'A': a, 'B': b})
        try:
            res = it.enumerate(fn, this=('obj', 'A'), args=[('obj', 'B')])
        except Unsupported:
            return None
        if len(res) != 1 or res[0][1][0] != 'ret':
            return None
        got = res[0][1][1]
        if got is not spec(signs):
            return a, b, got, spec(signs)
    return None


def field_indices(prog, rule, rep):
    """vx/vy/vz -> component index, from the vector constructor (v[i] stored into field)"""
    ctor = [f for f in prog.fns(CLS + '::FormatVersion') if 'std::vector<int>' in f.sig]
    if len(ctor) != 1:
        raise AnalysisBroken('anchor vanished: FormatVersion(const std::vector<int>&)')
    ctor = ctor[0]
    idx = {}
    for n in ctor.walk():
        if n.k == 'assign':
            t = term(n.c[0])
            v = term(n.c[1])
            if t[0] == 'f' and v[0] == 'op' and v[1] == '[]' and v[3][0] == 'k':
                idx[t[1]] = v[3][1]
    for init in ctor.inits:
        if init.get('what') == 'member' and init.c and init.c[0] is not None:
            v = term(init.c[0])
            if v[0] == 'op' and v[1] == '[]' and v[3][0] == 'k':
                idx[init.get('field')] = v[3][1]
    if sorted(idx.values()) != [0, 1, 2]:
        raise AnalysisBroken('cannot derive the component order of FormatVersion from its constructor: %r' % idx)
    # accessors x(), y(), z() must return components 0,1,2
    for nm, want in (('x', 0), ('y', 1), ('z', 2)):
        f = prog.fn('%s::%s' % (CLS, nm))
        rets = [n for n in f.walk() if n.k == 'return']
        got = None
        if len(rets) == 1:
            t = term(rets[0].c[0])
            if t[0] == 'f':
                got = idx.get(t[1])
        rule.check(got == want, '%s::%s|component' % (CLS, nm), rep.where(f), f.q,
                   '%s() returns component %d (as stored from the version vector)' % (nm, want),
                   '%s() returns component %r, expected %d' % (nm, got, want))
    return idx


def lex_first(signs):
    for s in signs:
        if s != 0:
            return s
    return 0


def run(prog, rep):
    rule = rep.rule('R-VER', 'FormatVersion gates/operators equal their specification on all 27 sign vectors', floor=27 * 8)
    idx = field_indices(prog, rule, rep)
    if any(i.status != 'ok' for i in rule.instances):
        return rule  # the accessors do not denote the components: nothing further can be interpreted soundly
    spec = {
        'canWrite': lambda s: s == (0, 0, 0),
        'canRead': lambda s: s[0] == 0 and s[1] >= 0,
        'operator==': lambda s: s == (0, 0, 0),
        'operator!=': lambda s: s != (0, 0, 0),
        'operator<': lambda s: lex_first(s) < 0,
        'operator>': lambda s: lex_first(s) > 0,
        'operator<=': lambda s: lex_first(s) <= 0,
        'operator>=': lambda s: lex_first(s) >= 0,
    }
    n_eval = 0
    for name in sorted(spec):
        fn = prog.fn('%s::%s' % (CLS, name))
        for signs in itertools.product((-1, 0, 1), repeat=3):
            it = VerInterp(prog, idx, signs)
            want = spec[name](signs)
            try:
                res = it.enumerate(fn, this=('obj', 'A'), args=[('obj', 'B')])
            except MagnitudeDependent as md:
                n_eval += 1
                d = md.witness()
                rule.bad('%s::%s|signs=%s' % (CLS, name, ','.join('%+d' % s for s in signs)), rep.where(md.node), fn.q,
                         '%s(A,B) is decided by comparing a weighted sum of the components (%s): for component differences A-B = %s the weighted '
                         'difference is 0 although the components differ, so the result depends on magnitudes and cannot equal the '
                         'component-wise specification (%s) for all versions with sign(A-B) = %s' % (name, md.node.src(60), d, want, signs))
                continue
            except CrossIndex as ci:
                n_eval += 1
                rule.bad('%s::%s|signs=%s' % (CLS, name, ','.join('%+d' % s for s in signs)), rep.where(ci.node), fn.q,
                         '%s(A,B) compares different components with each other (%s): no lexicographic / component-wise specification does that, e.g. the '
                         'patch component of A is tested against the minor component of B' % (name, ci.node.src(40)))
                continue
            except Unsupported as un:
                # outside the comparison-only fragment: no proof possible; look for a concrete counterexample instead
                w = refute_concretely(prog, idx, fn, spec[name], only_signs=signs)
                if w is None:
                    w0 = refute_concretely(prog, idx, fn, spec[name])
                    if w0 is None:
                        raise AnalysisBroken('R-VER: %s leaves the comparison-only fragment (%s) and no concrete counterexample was found on the grid: neither proved nor refuted' % (fn.q, un))
                    continue   # reported under the sign vector of its witness
                n_eval += 1
                a, b, got, wanted = w
                rule.bad('%s::%s|signs=%s' % (CLS, name, ','.join('%+d' % s for s in signs)), rep.where(fn), fn.q,
                         '%s is not decided by component comparisons alone (%s); interpreted on concrete versions: library/receiver A=%s, argument B=%s gives %r, '
                         'the specification says %s' % (name, str(un)[:120], '.'.join(map(str, a)), '.'.join(map(str, b)), got, wanted))
                continue
            if len(res) != 1:
                raise AnalysisBroken('%s is not a function of the sign vector alone' % fn.q)
            out = res[0][1]
            n_eval += 1
            got = out[1] if out[0] == 'ret' else out
            rule.check(got is want, '%s::%s|signs=%s' % (CLS, name, ','.join('%+d' % s for s in signs)), rep.where(fn), fn.q,
                       '%s(A,B) = %s for sign(A-B) = %s' % (name, want, signs),
                       '%s(A,B) = %r but the specification says %s for sign(A-B) = %s' % (name, got, want, signs))
    # trichotomy and consistency, from the interpreted results
    tri = rep.rule('R-VER-ORD', 'exactly one of <, ==, > holds for every sign vector (interpreted, not assumed)', floor=27)
    fns = {nm: prog.fn('%s::%s' % (CLS, nm)) for nm in ('operator<', 'operator==', 'operator>')}
    for signs in itertools.product((-1, 0, 1), repeat=3):
        vals = []
        for nm in ('operator<', 'operator==', 'operator>'):
            it = VerInterp(prog, idx, signs)
            try:
                out = it.enumerate(fns[nm], this=('obj', 'A'), args=[('obj', 'B')])[0][1]
                vals.append(out[1] if out[0] == 'ret' else None)
            except MagnitudeDependent:
                vals.append('magnitude-dependent')
            except CrossIndex:
                vals.append('cross-index')
        tri.check(vals.count(True) == 1 and vals.count(False) == 2, 'trichotomy|signs=%s' % ','.join('%+d' % s for s in signs),
                  rep.where(fns['operator<']), CLS, '(<,==,>) = %s' % (vals,), '(<,==,>) = %s is not exactly-one-true' % (vals,))
    rep.extra['abstract_evaluations'] = n_eval + 81
    return rule


_INT_TYPES = {'bool': (1, False), 'char': (8, True), 'signed char': (8, True), 'unsigned char': (8, False),
              'short': (16, True), 'unsigned short': (16, False), 'int': (32, True), 'unsigned int': (32, False),
              'long': (64, True), 'unsigned long': (64, False), 'long long': (64, True), 'unsigned long long': (64, False)}


def _holds(dst, src):
    """every value of integer type src is representable in dst"""
    if dst not in _INT_TYPES or src not in _INT_TYPES:
        return None
    (dw, ds), (sw, ss) = _INT_TYPES[dst], _INT_TYPES[src]
    if ds == ss:
        return dw >= sw
    return ds and dw > sw


def run_width(prog, rep):
    """the three components are kept at the width they are given in and handed out at: the 27 sign vectors of R-VER
    are exhaustive only if a component is the number that was read from the file"""
    rule = rep.rule('R-VER-WIDTH', 'FormatVersion stores and returns each component without an integer conversion that loses values (the sign-vector argument of R-VER assumes the stored component is the number read from the file)', floor=6)
    rec = prog.records.get('nix::FormatVersion')
    if not rec or len(rec['fields']) != 3:
        raise AnalysisBroken('R-VER-WIDTH: nix::FormatVersion does not have three component fields')
    n = 0
    for f in sorted(prog.methods_of('nix::FormatVersion'), key=lambda f: (f.file, f.line)):
        if f.body is None:
            continue
        for c in f.walk():
            if c.k != 'cast' or c.get('ck') != 'IntegralCast' or not c.c or c.c[0] is None:
                continue
            src = (unwrap(c.c[0]).get('ctype') or unwrap(c.c[0]).t or '').replace('const ', '').strip()
            src = {'std::vector<int>::const_reference': 'int', 'std::vector::const_reference': 'int', 'std::vector<int>::value_type': 'int', 'size_t': 'unsigned long', 'std::size_t': 'unsigned long'}.get(src, src)
            dst = (c.get('toc') or '').replace('const ', '').strip()
            h = _holds(dst, src)
            if h is None or isinstance(unwrap(c.c[0]).get('v'), int):
                continue
            n += 1
            k = len([x for x in f.walk() if x.k == 'cast' and x.id < c.id])
            rule.check(h, '%s%s|conversion%d' % (f.q, f.sig, k), rep.where(c), f.label(), '%s -> %s keeps every value' % (src, dst),
                       'a component is converted from %s to %s (%s): versions whose component does not fit are stored as a different number, so the gate answers for another version than the one in the file' % (src, dst, c.src(40)))
    fts = sorted(set((x.get('ctype') or x['type']) for x in rec['fields']))
    acc = [m for m in rec['methods'] if m['name'] in ('x', 'y', 'z', 'operator[]')]
    for m in acc:
        n += 1
        rule.check(all(_holds(m['ret'], t) for t in fts), 'FormatVersion::%s|return-type' % m['name'], rep.where_rec(rec) if hasattr(rep, 'where_rec') else '%s:%s' % (prog.rel(rec['file']), rec['line']), 'nix::FormatVersion',
                   'returns %s for components stored as %s' % (m['ret'], fts), 'accessor returns %s, components are stored as %s' % (m['ret'], fts))
    for fld in rec['fields']:
        n += 1
        t = fld.get('ctype') or fld['type']
        rule.check(bool(_holds(t, 'int')), 'FormatVersion::%s|field-type' % fld['name'], '%s:%s' % (prog.rel(rec['file']), rec['line']), 'nix::FormatVersion',
                   'stored as %s: holds every int read from the version attribute' % t,
                   'stored as %s, but the version attribute is read into int: a component outside the range of %s is stored as a different number' % (t, t))
    if n < 6:
        raise AnalysisBroken('R-VER-WIDTH: only %d obligations' % n)
    return rule
