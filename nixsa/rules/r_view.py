"""R-VIEW / R-SLICE (C17, C16): DataView window translation and bounds, NDSize comparison semantics,
dataSlice logic, subscripts on caller-owned vectors."""
import re
from ..absint import GenericInterp, Opaque, Unsupported
from ..extract import AnalysisBroken
from ..sem import Sem, Flow, term, unwrap, real_args, LOCAL_KINDS
from .r_flow import interp_fn, contains, find, iters_of, conv_calls, PM, RM

DV = 'nix::DataView'


def run_view(prog, rep):
    rule = rep.rule('R-VIEW', 'DataView: window-relative requests are bounds-checked against the window and translated by the window origin', floor=5)
    # --- transform_coordinates
    tc = prog.fn(DV + '::transform_coordinates')
    it = GenericInterp(prog)
    res = it.enumerate(tc, this='THIS', args=[('cnt',), ('off',)], fields={'offset': ('W_offset',), 'count': ('W_count',), 'array': ('W_array',)})
    probs = []
    nret = 0
    for assign, out, log, fields in res:
        hasoff = [v for k, v in assign.items() if k[0] == 'truthy' and k[1] == ('off',)]
        if not hasoff:
            bo = [v for k, v in assign.items() if k[0] == 'bool' and k[1] in ('empty',) and ('off',) in k]
            hasoff = [not bo[0]] if bo else []
        if not hasoff:
            probs.append('path does not distinguish an empty from a given offset')
            continue
        def exceeds(req, lim):
            """truth of 'some component of req exceeds lim' on this path, from the component-wise NDSize comparisons:
            req > lim  ==  !(req nd<= lim);  !(lim >= req) == lim nd< req is the stronger 'all components' form and is NOT accepted"""
            v = assign.get(('cmp', 'nd<=', req, lim))
            return None if v is None else (not v)
        if hasoff[0]:
            over = exceeds(('bin', '+', ('cnt',), ('off',)), ('W_count',))
            if over is None:
                over = exceeds(('bin', '+', ('off',), ('cnt',)), ('W_count',))
            want = ('bin', '+', ('W_offset',), ('off',))
            want2 = ('bin', '+', ('off',), ('W_offset',))
            if over is None and any(k[:2] == ('cmp', 'nd<') and k[2] == ('W_count',) for k in assign):
                probs.append('the request is tested with count < cnt + off, which for NDSize holds only if EVERY component is exceeded: a request that leaves the window in one dimension only is accepted')
                continue
        else:
            over = exceeds(('cnt',), ('W_count',))
            want = want2 = ('W_offset',)
            if over is None and any(k[:2] == ('cmp', 'nd<') and k[2] == ('W_count',) for k in assign):
                probs.append('the request is tested with count < cnt, which for NDSize holds only if EVERY component is exceeded')
                continue
        if over is None and hasoff[0]:
            # accepted equivalent idiom on unsigned extents: off > count || cnt > count - off
            guard = exceeds(('off',), ('W_count',))
            room = exceeds(('cnt',), ('bin', '-', ('W_count',), ('off',)))
            if guard is True:
                over = True
            elif guard is False and room is not None:
                over = room
            elif room is not None:
                probs.append('the request is compared with count - off although off <= count is not established on this path: the unsigned '
                             'subtraction wraps for a request that starts behind the window, which is then accepted')
                continue
        if over is None:
            probs.append('request (%s) is not compared with the window extent (accepted idioms: cnt + off > count; off > count || cnt > count - off)' % ('cnt + off' if hasoff[0] else 'cnt'))
            continue
        if over:
            if not (out[0] == 'throw' and 'OutOfBounds' in str(out[1])):
                probs.append('request exceeding the window gives %r instead of OutOfBounds' % (out,))
        else:
            nret += 1
            if out[0] != 'ret' or out[1] not in (want, want2):
                probs.append('in-window request is translated to %r, expected window origin%s' % (out, ' + off' if hasoff[0] else ''))
    rule.check(not probs and nret >= 2, DV + '::transform_coordinates|spec', rep.where(tc), tc.q, 'window check and translation on all %d abstract paths' % len(res), '; '.join(sorted(set(probs))))
    # --- ioRead / ioWrite
    for nm, sink in (('ioRead', 'getData'), ('ioWrite', 'setData')):
        f = prog.fn('%s::%s' % (DV, nm))
        it = GenericInterp(prog, watch=lambda n: (n.callee or {}).get('name') in ('getData', 'setData', 'transform_coordinates'))
        res = it.enumerate(f, this='THIS', args=[(p['name'],) for p in f.params], fields={'offset': ('W_offset',), 'count': ('W_count',), 'array': ('W_array',)})
        probs = []
        for assign, out, log, fields in res:
            s = [l for l in log if l[0] == sink]
            t = [l for l in log if l[0] == 'transform_coordinates']
            if out[0] != 'ret':
                continue
            if len(s) != 1 or len(t) != 1:
                probs.append('expected one transform_coordinates and one %s, saw %s' % (sink, [l[0] for l in log]))
                continue
            T = ('call', 'transform_coordinates', 'THIS') + t[0][2:]
            if s[0][1] != ('W_array',):
                probs.append('%s is not applied to the viewed array' % sink)
            if s[0][-1] != T:
                probs.append('the offset handed to the array is %r, not the translated coordinate' % (s[0][-1],))
            if s[0][-2] != t[0][2]:
                probs.append('the count handed to the array differs from the count that was checked')
            if t[0][3] != ('offset',):
                probs.append('the request offset passed to the window check is %r' % (t[0][3],))
            given = [v for k, v in assign.items() if k[0] == 'truthy' and k[1] == ('count',)]
            if given and not given[0] and t[0][2] != ('W_count',):
                probs.append('an empty count is not replaced by the window extent')
            if given and given[0] and t[0][2] != ('count',):
                probs.append('the requested count is not the one checked')
        rule.check(not probs, '%s::%s|translated' % (DV, nm), rep.where(f), f.q, 'array access uses transform_coordinates(count, offset) (%d paths)' % len(res), '; '.join(sorted(set(probs))))
    # --- constructor
    ctor = [c for c in prog.fns(DV + '::DataView') if len(c.params) == 3]
    if len(ctor) != 1:
        raise AnalysisBroken('anchor vanished: DataView(DataArray, NDSize, NDSize)')
    ctor = ctor[0]
    it = GenericInterp(prog)
    res = it.enumerate(ctor, this='THIS', args=[('da',), ('count',), ('offset',)])
    probs = []
    nok = 0
    for assign, out, log, fields in res:
        if out[0] != 'ret':
            continue
        nok += 1
        fo, fc = fields.get('offset'), fields.get('count')
        if not contains(fo, ('offset',)) or not contains(fc, ('count',)):
            probs.append('members are initialised crosswise: offset <- %r, count <- %r' % (fo, fc))
        ranks = [(k, v) for k, v in assign.items() if k[0] == 'cmp' and k[1] == '==' and repr(k).count("'size'") >= 2]
        r_off = [v for k, v in ranks if contains(k, ('offset',))]
        r_cnt = [v for k, v in ranks if contains(k, ('count',))]
        if not r_off or r_off[0] is not True:
            probs.append('view created without rank(offset) == rank(data)')
        if not r_cnt or r_cnt[0] is not True:
            probs.append('view created without rank(count) == rank(data)')
        # offset + count > extent  ==  !(offset + count nd<= extent): a returning path must have decided 'all components within'
        within = [v for k, v in assign.items() if k[0] == 'cmp' and k[1] == 'nd<=' and 'dataExtent' in repr(k[3]) and isinstance(k[2], tuple) and k[2][:2] == ('bin', '+') and contains(k[2], ('offset',)) and contains(k[2], ('count',))]
        weak = [k for k in assign if k[0] == 'cmp' and k[1] == 'nd<' and 'dataExtent' in repr(k[2])]
        if not within or within[0] is not True:
            if weak:
                probs.append('the view is refused only if extent < offset + count, which for NDSize means EVERY component is exceeded: a window that leaves the data in one dimension only is created')
            else:
                probs.append('view created without establishing !(offset + count > data extent)')
    rule.check(not probs and nok >= 1, DV + '::DataView|guards', rep.where(ctor), ctor.q, 'normal completion implies rank checks and offset+count within the data (%d paths)' % len(res), '; '.join(sorted(set(probs))))
    rule.check(term_is_field(prog.fn(DV + '::dataExtent', '()'), 'count'), DV + '::dataExtent|window', rep.where(ctor), DV + '::dataExtent', 'the extent of a view is its window size')
    return rule


def term_is_field(f, name):
    rets = [x for x in f.walk() if x.k == 'return']
    return len(rets) == 1 and term(rets[0].c[0]) == ('f', name)


def run_ndsize(prog, rep):
    """element-wise comparison semantics the bounds guards rely on"""
    rule = rep.rule('R-NDSIZE', 'NDSize: a <= b is false iff some element of a exceeds b; > is !(<=), >= is !(<); operator[] is bounds-checked', floor=5)

    def inst(name):
        fs = [f for f in prog.fns('nix::' + name) if f.params and 'NDSizeBase<unsigned long long>' in f.params[0]['ctype'] and len(f.params) == 2]
        if not fs:
            fs = [f for f in prog.fns('nix::' + name) if f.params and 'NDSizeBase' in f.params[0]['type'] and len(f.params) == 2]
        if not fs:
            raise AnalysisBroken('no instantiation of nix::%s for NDSize' % name)
        return fs[0]
    for name, strict in (('operator<=', False), ('operator<', True)):
        f = inst(name)
        it = GenericInterp(prog)
        it.loop_once = True
        res = it.enumerate(f, this=None, args=[('lhs',), ('rhs',)])
        probs = []
        seen_false = seen_true = 0
        for assign, out, log, fields in res:
            if out[0] == 'throw':
                continue
            el = [(k, v) for k, v in assign.items() if k[0] == 'cmp' and k[1] == '<' and find(k, lambda t: len(t) == 2 and t[0] == 'iter')]
            if out[1] is False:
                seen_false += 1
                # some element comparison decided 'violates'
                if not strict:
                    bad = [v for k, v in el if contains(k[2], ('rhs',)) and contains(k[3], ('lhs',)) and v is True]      # rhs[i] < lhs[i]
                else:
                    bad = [v for k, v in el if contains(k[2], ('lhs',)) and contains(k[3], ('rhs',)) and v is False]     # !(lhs[i] < rhs[i])
                if not bad:
                    probs.append('returns false without an element of lhs %s rhs' % ('>' if not strict else '>='))
            elif out[1] is True:
                seen_true += 1
                if not strict:
                    bad = [v for k, v in el if contains(k[2], ('rhs',)) and contains(k[3], ('lhs',)) and v is True]
                else:
                    bad = [v for k, v in el if contains(k[2], ('lhs',)) and contains(k[3], ('rhs',)) and v is False]
                if bad:
                    probs.append('returns true although an examined element violates the relation')
        rule.check(not probs and seen_false and seen_true, 'NDSize::%s|elementwise' % name, rep.where(f), f.q, 'false iff some element violates (%d abstract paths)' % len(res), '; '.join(sorted(set(probs))) or 'paths do not cover both verdicts')
    for name, base in (('operator>', 'operator<='), ('operator>=', 'operator<')):
        f = inst(name)
        rets = [x for x in f.walk() if x.k == 'return']
        t = term(rets[0].c[0]) if len(rets) == 1 else None
        okn = t is not None and t[0] == 'u' and t[1] == '!' and t[2][0] == 'op' and t[2][1] == base.replace('operator', '') and t[2][2][0] == 'v' and t[2][2][2] == f.params[0]['name'] and t[2][3][2] == f.params[1]['name']
        rule.check(okn, 'NDSize::%s|negation' % name, rep.where(f), f.q, '%s(a,b) is !(a %s b)' % (name, base.replace('operator', '')),
                   '%s is no longer the negation of %s on the same operands: every "request > window" bounds guard changes meaning' % (name, base))
    # operator[] guard
    subs = [f for f in prog.byname.get('operator[]', []) if f.cls == 'nix::NDSizeBase' and f.body is not None]
    if not subs:
        raise AnalysisBroken('no instantiation of NDSizeBase::operator[]')
    sem = Sem(prog)
    bad = []
    for f in subs:
        for r in [x for x in f.walk() if x.k == 'return']:
            facts = sem.facts_at(f, r.id)
            p0 = ('v', f.params[0]['lid'], f.params[0]['name'])
            ok = any((t[0] == 'b' and pol is False and t[1] in ('>', '>=') and contains_t(t[2], p0) and "'rank'" in repr(t[3])) or
                     (t[0] == 'b' and pol is True and t[1] in ('<', '<=') and contains_t(t[2], p0) and "'rank'" in repr(t[3])) for (t, pol) in facts)
            if not ok:
                bad.append('%s%s' % (f.q, f.sig))
    rule.check(not bad, 'NDSize::operator[]|guard', rep.where(subs[0]), 'nix::NDSizeBase::operator[]', '%d instantiation(s): the raw element access is dominated by index < rank (throws otherwise)' % len(subs), 'unchecked element access in %s' % sorted(set(bad))[:2])
    return rule


def contains_t(t, x):
    if t == x:
        return True
    if isinstance(t, tuple):
        return any(contains_t(y, x) for y in t)
    return False


def run_slice(prog, rep):
    rule = rep.rule('R-SLICE', 'dataSlice: start>end rejected, conversion on the padded vectors at one index, offset/count from the range, point fall-back, bounds test before the view', floor=6)
    f = prog.fn('nix::util::dataSlice')
    res = interp_fn(prog, f, watch_names=('positionToIndex', 'fillPositionsExtentsAndUnits', 'getDimension'), watch_new=('nix::DataView',), loop_fork=False)
    probs = {k: [] for k in ('start>end', 'conversion-inputs', 'range-branch', 'fallback-branch', 'view-guard', 'padding')}
    seen = {'range': 0, 'fallback': 0, 'view': 0}
    for assign, out, log, fields in res:
        rng, sca = conv_calls(log)
        stores = [l for l in log if l[0] == 'store']
        views = [l for l in log if l[0] == 'new nix::DataView' and len(l) == 4]
        if rng:
            c = rng[0]
            its = iters_of(c)
            terms = [l for l in log if l[0] == 'terms' and l[1] == 'positionToIndex' and len(l) == 7]
            if len(its) != 1:
                probs['conversion-inputs'].append('the conversion mixes indices %s' % sorted(its))
            if terms:
                names = repr(terms[0][2:5])
                # all three come from the padded copies (locals), never from the caller's vectors (parameters)
                for i, t in enumerate(terms[0][2:5]):
                    vs = find(t, lambda x: len(x) == 3 and x[0] == 'v')
                    for v in vs:
                        if v[2] in [p['name'] for p in f.params] and v[2] not in ('match',):
                            probs['conversion-inputs'].append('argument %d of the conversion indexes the caller\'s vector "%s" (length not related to the number of dimensions) instead of the padded copy' % (i, v[2]))
            I = list(its)[0] if its else None
            # start > end test on the same elements decided before
            gt = [(k, v) for k, v in assign.items() if k[0] == 'cmp' and k[1] == '<' and I is not None and contains(k, I) and not contains(k, 'nix::util::positionToIndex') and 'operator[]' in repr(k[2]) and 'operator[]' in repr(k[3])]
            # (whether the test covers the converted elements is decided on the syntax-level facts below)
            # dimension i+1
            gd = [l for l in log if l[0] == 'getDimension']
            if gd and I is not None and gd[0][-1] not in (('bin', '+', I, 1), ('bin', '+', 1, I)):
                probs['conversion-inputs'].append('dimension descriptor fetched at %r for data index %r' % (gd[0][-1], I))
            R = ('call', 'nix::util::positionToIndex') + c[1:]
            tr = [v for k, v in assign.items() if k[0] == 'truthy' and contains(k, R)]
            if tr and tr[0]:
                seen['range'] += 1
                off = [s for s in stores if s[2] == '=' and isinstance(s[3], tuple) and s[3][:2] == ('mem', 'first') and contains(s[3], R)]
                cnt = [s for s in stores if s[2] == '+=' and isinstance(s[3], tuple) and s[3][:2] == ('bin', '-') and s[3][2][:2] == ('mem', 'second') and s[3][3][:2] == ('mem', 'first')]
                if not off or not cnt or off[0][1][2] != I or cnt[0][1][2] != I:
                    probs['range-branch'].append('offset[i]/count[i] are not set from range.first / range.second - range.first')
            elif tr and sca:
                q = sca[0]
                Q = ('call', 'nix::util::positionToIndex') + q[1:]
                okq = [v for k, v in assign.items() if k[0] == 'truthy' and contains(k, Q)]
                ext = [v for k, v in assign.items() if k[0] == 'cmp' and k[1] == '<' and 'epsilon' in repr(k)]
                if q[3] != ('e', PM + 'GreaterOrEqual'):
                    probs['fallback-branch'].append('fall-back uses %r' % (q[3],))
                must_throw = (okq and okq[0] is False) or (ext and ext[0] is True)
                if must_throw:
                    if not (out[0] == 'throw' and 'OutOfBounds' in str(out[1])):
                        probs['fallback-branch'].append('empty range must raise OutOfBounds, outcome %r' % (out,))
                elif okq:
                    seen['fallback'] += 1
                    st = [s for s in stores if s[2] == '=' and s[3] == ('deref', Q)]
                    if not st or st[0][1][2] != I:
                        probs['fallback-branch'].append('fall-back index is not stored into offset[i]')
        for v in views:
            seen['view'] += 1
            if assign.get(('bool', 'nix::util::positionAndExtentInData', v[1], v[3], v[2])) is not True:
                probs['view-guard'].append('view built without positionAndExtentInData(array, offset, count) on the same values')
        if out[0] == 'throw' and 'invalid_argument' in str(out[1]):
            pass
    # start > end leads to invalid_argument: some path throws it under the comparison
    thrown = [a for a, o, l, fl in res if o[0] == 'throw' and 'invalid_argument' in str(o[1]) and any(k[0] == 'cmp' and k[1] == '<' and v is True and 'operator[]' in repr(k[2]) and 'operator[]' in repr(k[3]) for k, v in a.items())]
    if not thrown:
        probs['start>end'].append('no path raises invalid_argument for start[i] > end[i]')
    # padding: fillPositionsExtentsAndUnits called when fewer entries than dimensions
    pads = [a for a, o, l, fl in res if any(x[0] == 'fillPositionsExtentsAndUnits' for x in l)]
    nopads = [a for a, o, l, fl in res if not any(x[0] == 'fillPositionsExtentsAndUnits' for x in l) and any(x[0] == 'positionToIndex' for x in l)]
    for a in nopads:
        less = [v for k, v in a.items() if k[0] == 'cmp' and k[1] == '<' and "'size'" in repr(k[2]) and 'dimensionCount' in repr(k[3])]
        if any(less):
            probs['padding'].append('conversion runs without filling in missing start/end/unit entries')
    if not pads:
        probs['padding'].append('missing entries are never filled in')
    # the start > end test is made on the very elements that are converted (the padded copies at the loop's index), and they are
    # not changed in between: decided on the syntax-level facts that hold at the conversion call
    sem_ = Sem(prog)
    conv = [c for c in f.calls() if (c.callee or {}).get('name') == 'positionToIndex' and 'vector' in ((c.callee or {}).get('sig') or '').split(',')[0]]
    if not conv:
        raise AnalysisBroken('R-SLICE: range conversion call not found in dataSlice')

    def elem(t):
        while isinstance(t, tuple) and t and t[0] in ('new', 'list', 'cast'):
            t = t[-1]
        return t
    a_ = real_args(conv[0])
    es, ee = elem(term(unwrap(a_[0]))), elem(term(unwrap(a_[1])))
    facts = sem_.facts_at(f, conv[0].id)
    okf = any((t[0] == 'b' and t[1] == '>' and pol is False and t[2] == es and t[3] == ee) or (t[0] == 'b' and t[1] == '<' and pol is False and t[2] == ee and t[3] == es) or
              (t[0] == 'b' and t[1] == '<=' and pol is True and t[2] == es and t[3] == ee) or (t[0] == 'b' and t[1] == '>=' and pol is True and t[2] == ee and t[3] == es) for (t, pol) in facts if isinstance(t, tuple) and len(t) == 4)
    if not okf and isinstance(es, tuple) and isinstance(ee, tuple) and es[:2] == ('op', '[]') and ee[:2] == ('op', '[]'):
        # validate-all-first form: an earlier loop over all entries of the same (already padded) vectors that throws for start > end
        fills = [c for c in f.calls() if (c.callee or {}).get('name') == 'fillPositionsExtentsAndUnits']
        for x in f.walk():
            if x.k != 'if' or x.id > conv[0].id or (fills and x.id < fills[-1].id) or len(x.c) < 4 or x.c[2] is None:
                continue
            t = term(unwrap(x.c[2]))
            if not (isinstance(t, tuple) and len(t) == 4 and t[0] == 'b' and t[1] == '>' and isinstance(t[2], tuple) and isinstance(t[3], tuple) and
                    t[2][:3] == es[:3] and t[3][:3] == ee[:3] and t[2][3] == t[3][3]):
                continue
            loops = [a for a in x.ancestors() if a.k == 'for']
            throws = x.c[3] is not None and any(y.k == 'throw' for y in x.c[3].walk())
            whole = loops and loops[0].c[1] is not None and ('size' in loops[0].c[1].src(60) or 'dim_count' in loops[0].c[1].src(60)) and es[2][2] in loops[0].c[1].src(60) + 'dim_count'
            later_mod = any(m.id > x.id and m.id < conv[0].id for lid in (es[2][1], ee[2][1]) for m in sem_.mods(f).get(lid, []))
            if loops and throws and whole and not later_mod:
                okf = True
    if not okf:
        probs['start>end'].append('the conversion of (%s, %s) is reached without !(start > end) established on these very elements: entries filled in for unspecified dimensions are not covered by the test' % (a_[0].src(20), a_[1].src(20)))
    if not all(seen.values()):
        raise AnalysisBroken('R-SLICE: abstract paths do not cover %s' % [k for k, v in seen.items() if not v])
    for k, v in probs.items():
        rule.check(not v, 'dataSlice|%s' % k, rep.where(f), f.label(), '%s holds on all %d abstract paths' % (k, len(res)), '; '.join(sorted(set(v))[:3]))
    return rule


def run_fill(prog, rep):
    """fillPositionsExtentsAndUnits pushes a value for every index >= the given size, for every dimension kind"""
    sem = Sem(prog)
    rule = rep.rule('R-FILL', 'unspecified dimensions are filled in for every descriptor kind (start, end and unit each guarded by i >= size)', floor=3)
    f = prog.fn('nix::util::fillPositionsExtentsAndUnits')
    pv = {p['name']: ('v', p['lid'], p['name']) for p in f.params}
    for pn in ('starts', 'ends', 'units'):
        pushes = [c for c in f.calls(name='push_back') if c.c and term(c.c[0]) == pv.get(pn)]
        kinds = set()
        bad = []
        for c in pushes:
            facts = sem.facts_at(f, c.id)
            g = [t for (t, pol) in facts if pol and t[0] == 'b' and t[1] == '>=' and t[3] == ('m', 'size', pv[pn])]
            if not g:
                bad.append('push at line %d is not guarded by i >= %s.size()' % (c.l, pn))
            for (t, pol) in facts:
                if pol and t[0] == 'b' and t[1] == '==' and t[3][0] == 'e' and 'DimensionType' in t[3][1]:
                    kinds.add(t[3][1].split('::')[-1])
                if pol and t[0] == 'b' and t[1] == '||':
                    for e in find_enum(t):
                        kinds.add(e)
        need = {'Sample', 'Range', 'Set', 'DataFrame'} if pn != 'units' else set()
        delegated = None
        if pn != 'units' and pushes and not (need <= kinds):
            # accepted alternative: the values come from maximumExtents(array)[i] = (first position, last position) for every kind
            fl = Flow(sem, f)
            vals = []
            for c in pushes:
                a = real_args(c)[0]
                if 'maximumExtents' in fl.call_names(a):
                    gets = [x for x in a.walk() if x.k == 'call' and (x.callee or {}).get('name') == 'get']
                    plus = [x for x in a.walk() if (x.k == 'binop' or x.k == 'call') and x.get('op') == '+']
                    which = sorted(set(re.sub(r'\D', '', str((x.callee.get('targs') or ['?'])[0])) for x in gets))
                    vals.append((which, bool(plus)))
            if vals:
                want = ['0'] if pn == 'starts' else ['1']
                if all(w == want and not pl for w, pl in vals):
                    delegated = True
                else:
                    delegated = False
                    bad.append('%s are padded with %s of maximumExtents(array)[i]: its second value is the position of the last element, not a length, so the padded end must be get<1> alone (adding the first position shifts or truncates slices on axes that do not start at 0)' % (
                        pn, ' + '.join('get<%s>' % x for w, pl in vals for x in w)))
        if pn == 'units':
            okk = bool(pushes)
        elif delegated is not None:
            okk = delegated
        else:
            okk = need <= kinds
        rule.check(not bad and okk, 'fillPositionsExtentsAndUnits|%s' % pn, rep.where(f), f.label(), '%s filled for every kind, only where missing' % pn,
                   '; '.join(bad) or 'no value is filled in for descriptor kinds %s' % sorted(need - kinds))
    return rule


def find_enum(t):
    out = []
    if isinstance(t, tuple):
        if len(t) == 2 and t[0] == 'e' and 'DimensionType' in str(t[1]):
            out.append(t[1].split('::')[-1])
        for x in t:
            out += find_enum(x)
    return out


def run_param_subscripts(prog, rep, files=('src/util/dataAccess.cpp', 'src/Dimensions.cpp')):
    """R-SUB (quick tier): unchecked operator[] on a std::vector *parameter* must be bounded by that
    container: the governing bound is its own size(), min(sizes), a size-equality throw-guard, an explicit
    i < v.size(), or a throw-guard comparing the index with the size."""
    sem = Sem(prog)
    rule = rep.rule('R-SUB', 'subscripts on caller-owned vectors are bounded by that vector\'s own size', floor=10)
    n = 0
    for f in sorted(prog.funcs.values(), key=lambda f: (f.file, f.line)):
        if prog.rel(f.file) not in files or f.body is None:
            continue
        vec_params = {p['lid']: p for p in f.params if 'std::vector' in p['ctype'] or 'vector<' in p['type']}
        if not vec_params:
            continue
        fl = None
        for c in f.walk():
            if not (c.k == 'call' and c.get('op') == '[]' and len(c.c) == 2):
                continue
            base = unwrap(c.c[0])
            if base.k != 'ref' or base.decl.get('lid') not in vec_params:
                continue
            idx = c.c[1]
            it = term(idx)
            v = ('v', base.decl['lid'], base.decl['name'])
            n += 1
            key = '%s%s|%s[%s]' % (f.q, _sk(f), base.decl['name'], idx.src(20))
            facts = sem.facts_at(f, c.id)
            ok = None
            why = ''
            if it[0] == 'k':
                # constant index: needs size > k
                okc = any(pol and t[0] == 'b' and ((t[1] == '>' and t[2] == ('m', 'size', v)) or (t[1] == '>=' and t[2] == ('m', 'size', v))) for (t, pol) in facts) or \
                    any((not pol) and t[0] == 'b' and t[1] in ('<', '==') and t[2] == ('m', 'size', v) for (t, pol) in facts) or \
                    any((not pol) and t[:3] == ('m', 'empty', v) for (t, pol) in facts)
                ok = okc
                why = 'constant index without a size test'
            else:
                bounds = []
                for (t, pol) in facts:
                    if t[0] == 'b' and t[2] == it and ((t[1] == '<' and pol) or (t[1] == '>=' and not pol)):
                        bounds.append(t[3])
                    if t[0] == 'b' and t[3] == it and ((t[1] == '>' and pol) or (t[1] == '<=' and not pol)):
                        bounds.append(t[2])
                if fl is None:
                    fl = Flow(sem, f)
                for b in bounds:
                    bb = b
                    if bb[0] == 'v':
                        vv = sem.local_vars(f).get(bb[1])
                        if vv is not None and vv.c and vv.c[0] is not None and not sem.mods(f).get(bb[1]):
                            bb = term(vv.c[0])
                    if bb == ('m', 'size', v):
                        ok = True
                        break
                    if bb[0] == 'c' and bb[1] in ('std::min',) and ('m', 'size', v) in bb:
                        ok = True
                        break
                    # the function itself resizes the vector to the loop bound (when it differs)
                    for rz in f.calls(name='resize'):
                        if rz.c and term(rz.c[0]) == v and len(rz.c) >= 2 and term(rz.c[1]) == b:
                            anc = rz.p
                            guard_ok = True
                            while anc is not None and anc.k != 'if':
                                anc = anc.p if anc.k in ('compound',) else None
                            if anc is not None:
                                ct = term(anc.c[2])
                                guard_ok = ct[0] == 'b' and ct[1] == '!=' and {ct[2], ct[3]} == {('m', 'size', v), b}
                                first = [y for y in anc.c[2].walk() if f.cfg.pos.get(y.id) is not None]
                                guard_ok = guard_ok and bool(first) and f.cfg.dominates(first[0].id, c.id if f.cfg.pos.get(c.id) else c.p.id)
                            if guard_ok:
                                ok = True
                    if ok:
                        break
                    if bb[0] == 'cast' and contains_t(bb, ('m', 'size', v)):
                        ok = True
                        break
                    # size equality guard: bound is other.size() and sizes are known equal
                    if bb[:2] == ('m', 'size'):
                        other = bb[2]
                        eq = any((t[0] == 'b' and t[1] == '!=' and pol is False and {t[2], t[3]} == {('m', 'size', v), ('m', 'size', other)}) or
                                 (t[0] == 'b' and t[1] == '==' and pol is True and {t[2], t[3]} == {('m', 'size', v), ('m', 'size', other)}) for (t, pol) in facts)
                        if eq:
                            ok = True
                            break
                if ok is None:
                    ok = False
                    why = 'index %s is bounded by %s, which is not related to %s.size()' % (idx.src(20), [repr(b)[:60] for b in bounds] or 'nothing', base.decl['name'])
            rule.check(ok, key, rep.where(c), f.label(), 'index bounded by the vector\'s own size', 'unchecked %s[%s] on a caller-owned vector: %s' % (base.decl['name'], idx.src(20), why))
    if n < 10:
        raise AnalysisBroken('R-SUB: only %d parameter-vector subscripts found' % n)
    return rule


def _sk(f):
    return '(' + ','.join(p['type'].replace('const ', '').replace('nix::', '').replace(' &', '').replace('std::', '')[:18] for p in f.params) + ')'


def run_indata(prog, rep):
    """the bounds predicate every view relies on: (offset, count) is inside the data iff rank agrees and offset[i]+count[i]-1 < extent[i] for ALL i"""
    rule = rep.rule('R-INDATA', 'positionAndExtentInData(data, offset, count) holds iff ranks agree and offset+count-1 < extent in every dimension', floor=2)
    sem = Sem(prog)
    f = prog.fn('nix::util::positionInData')
    lv = {v.get('name'): v for v in sem.local_vars(f).values()}
    dn, pn = f.params[0]['name'], f.params[1]['name']
    probs = []
    ext = [v for v in lv.values() if v.c and v.c[0] is not None and term(unwrap(v.c[0]))[:2] == ('m', 'dataExtent') and term(unwrap(v.c[0]))[2][2] == dn]
    if not ext:
        probs.append('the extent compared with is not data.dataExtent()')
    else:
        E = ('v', ext[0].get('lid'), ext[0].get('name'))
        P = ('v', f.params[1]['lid'], pn)
        loops = [n for n in f.walk() if n.k == 'for']
        if len(loops) != 1:
            probs.append('expected one loop over the dimensions')
        else:
            lp = loops[0]
            iv = [v for v in lp.c[0].walk() if v.k == 'var'] if lp.c[0] is not None else []
            I = ('v', iv[0].get('lid'), iv[0].get('name')) if iv else None
            cond = term(unwrap(lp.c[1])) if lp.c[1] is not None else None
            if not iv or term(unwrap(iv[0].c[0])) != ('k', 0) or not (cond and cond[0] == 'b' and cond[1] == '<' and cond[2] == I and cond[3] in (('m', 'size', E), ('m', 'size', P))):
                probs.append('the loop does not visit every dimension 0..rank-1')
            want = ('b', '<', ('op', '[]', P, I), ('op', '[]', E, I))
            acc = [n for n in lp.walk() if n.k == 'assign' and n.get('op') == '&=' and term(unwrap(n.c[1])) == want]
            early = [i for i in lp.walk() if i.k == 'if' and i.c[3] is not None and any(r.k == 'return' and r.c and term(unwrap(r.c[0])) == ('k', False) for r in i.c[3].walk())
                     and term(unwrap(i.c[2])) in (('b', '>=', want[2], want[3]), ('u', '!', want), ('b', '<=', want[3], want[2]))]
            if not acc and not early:
                other = [n.src(60) for n in lp.walk() if n.k == 'assign']
                probs.append('a dimension with position[i] >= extent[i] does not make the result false for good (%s)' % (other[:1] or 'no accumulation'))
            if acc:
                V = term(unwrap(acc[0].c[0]))
                vv = sem.local_vars(f).get(V[1]) if V[0] == 'v' else None
                rets = [r for r in f.walk() if r.k == 'return' and r.id > lp.id]
                if vv is None or term(unwrap(vv.c[0])) != ('k', True) or not rets or term(unwrap(rets[-1].c[0])) != V:
                    probs.append('the accumulated verdict is not initialised true and returned')
        facts_rank = [i for i in f.walk() if i.k == 'if' and 'size' in i.c[2].src(60) and any(r.k == 'return' and term(unwrap(r.c[0])) == ('k', False) for r in (i.c[3].walk() if i.c[3] is not None else []))]
        if not facts_rank:
            probs.append('a rank mismatch does not give false')
    rule.check(not probs, 'positionInData', rep.where(f), f.label(), 'false on rank mismatch; true iff position[i] < extent[i] for all i', '; '.join(probs))
    g = prog.fn('nix::util::positionAndExtentInData')
    probs = []
    gp = [p['name'] for p in g.params]
    lvg = list(sem.local_vars(g).values())
    sums = [v for v in lvg if v.c and v.c[0] is not None and term(unwrap(v.c[0]))[:2] == ('op', '+') and set(x[2] for x in term(unwrap(v.c[0]))[2:4] if x[0] == 'v') == {gp[1], gp[2]}]
    if not sums:
        probs.append('the last element is not computed from position + count')
    else:
        S = ('v', sums[0].get('lid'), sums[0].get('name'))
        dec = [c for c in g.walk() if c.k == 'call' and c.get('op') == '-=' and term(c) == ('op', '-=', S, ('k', 1))]
        rets = [r for r in g.walk() if r.k == 'return']
        call = [c for c in g.calls(name='positionInData')]
        if not dec:
            probs.append('position + count is not reduced by one (the last element of the block is position + count - 1)')
        if not call or [term(unwrap(a)) for a in real_args(call[0])] != [('v', g.params[0]['lid'], gp[0]), S] or (dec and not dec[0].id < call[0].id):
            probs.append('the last element is not tested with positionInData(data, position + count - 1)')
        if not rets or not call or not any(x is call[0] for x in rets[-1].walk()):
            probs.append('the verdict of positionInData is not what is returned')
    rule.check(not probs, 'positionAndExtentInData', rep.where(g), g.label(), 'positionInData(data, position + count - 1)', '; '.join(probs))
    return rule
