"""R-IDX, R-NARROW, R-BUF, NDArray bounds (C16; R-BUF also C01/C15)."""
import re

from ..extract import AnalysisBroken
from ..sem import Sem, Flow, term, unwrap, real_args

SIZE_T = ('size_t', 'nix::ndsize_t', 'ndsize_t', 'unsigned long', 'unsigned long long', 'hsize_t', 'std::size_t', 'NDSize::value_type',
          'nix::NDSize::const_reference', 'NDSize::const_reference')


def run_idx(prog, rep):
    sem = Sem(prog)
    rule = rep.rule('R-IDX', 'front-end index getters are guarded by index >= count of the same kind (or reach only index-safe backend code)', floor=20)
    BACKEND_SAFE = {
        'getDimension': 'backend looks the index up by name (numToStr) under a tested optional and returns null for an absent index',
        'getProperty': 'backend resolves the index through objectName() of a tested optional group',
        'getSource': 'backend resolves the index through objectName() of a tested optional group',
    }
    seen = set()
    for f in sorted(prog.funcs.values(), key=lambda f: (f.file, f.line)):
        if not f.q.startswith('nix::') or f.q.startswith('nix::hdf5::') or f.q.startswith('nix::base::I') or f.body is None or not f.name.startswith('get'):
            continue
        ip = [p for p in f.params if p['type'].replace('const ', '') in ('size_t', 'nix::ndsize_t', 'ndsize_t') and p['name'] in ('index', 'id', 'i')]
        if not ip:
            continue
        iv = ('v', ip[0]['lid'], ip[0]['name'])
        for c in f.calls():
            if not (c.callee.get('cls') or '').startswith('nix::base::I') or not any(term(a) == iv for a in real_args(c)):
                continue
            key = '%s|%s' % (re.sub(r'<.*?>', '', f.q), c.callee.get('name'))
            if key in seen:
                continue
            seen.add(key)
            facts = sem.facts_at(f, c.id)
            g = [t for (t, pol) in facts if t[0] == 'b' and t[2] == iv and ((t[1] == '>=' and pol is False) or (t[1] == '<' and pol is True))]
            kind = f.name[3:]
            if g:
                cnt = repr(g[0][3])
                want = kind[0].lower() + kind[1:] + 'Count'
                same_kind = ("'%s'" % want) in cnt or ('entityCount' in cnt and ('ObjectType::%s\'' % kind) in cnt)
                rule.check(same_kind, key, rep.where(c), f.label(), 'guarded by index >= %s' % want,
                           'index is compared with %s, which is not the count of %s entities' % (cnt[:80], kind))
                continue
            nm = c.callee.get('name')
            if nm in BACKEND_SAFE:
                # the backend implementations must test their optional container before using the index
                okb = True
                why = []
                for t in prog.resolve_call(c):
                    if not t.q.startswith('nix::hdf5::') or t.body is None:
                        continue
                    for d in t.walk():
                        if d.k == 'call' and d.get('op') in ('->', '*') and len(d.c) == 1 and 'boost::optional' in ((d.callee or {}).get('cls') or ''):
                            pt = term(d.c[0])
                            fs = sem.facts_at(t, d.id)
                            if not any(pol and (tt == pt or (tt[:2] == ('m', 'operator bool') and tt[2] == pt)) for (tt, pol) in fs):
                                okb = False
                                why.append('%s dereferences %s untested' % (t.q, d.c[0].src(20)))
                rule.check(okb, key, rep.where(c), f.label(), 'unguarded in front, backend is index-safe: ' + BACKEND_SAFE[nm], '; '.join(why))
            else:
                sib = 'its siblings guard with index >= count and throw OutOfBounds'
                rule.bad(key, rep.where(c), f.label(), 'index is forwarded to backend %s without a bounds guard (%s)' % (nm, sib))
    if len(seen) < 20:
        raise AnalysisBroken('R-IDX: only %d index getters found' % len(seen))
    return rule


def run_narrow(prog, rep):
    rule = rep.rule('R-NARROW', 'extents/sizes are never cast to an element-dependent or narrower type (outside the tabled rank/column casts)', floor=2)
    TABLE = {
        ('nix::hdf5::H5Group::createData', 'int'): 'rank of the chunk vector (H5Pset_chunk takes int); ranks are tiny',
        ('nix::hdf5::DataSpace::create', 'int'): 'rank of the dims vector (H5Screate_simple takes int); ranks are tiny',
        ('nix::hdf5::DataFrameHDF5::writeRow', 'unsigned int'): 'loop index bounded by the number of columns',
    }
    n = 0
    for f in sorted(prog.funcs.values(), key=lambda f: (f.file, f.line)):
        if f.body is None:
            continue
        for c in f.walk():
            if c.k != 'cast' or not c.c or c.c[0] is None:
                continue
            src = unwrap(c.c[0])
            st = (src.t or '').replace('const ', '')
            if st not in SIZE_T and 'size_type' not in st:
                continue
            to_w = c.get('to') or ''
            to_c = (c.get('toc') or '').replace('const ', '')
            if to_c.endswith('&'):
                continue
            fq = re.sub(r'<.*', '', f.q)
            if re.match(r'^(T\d*|[A-Z]|TENT|TOBJ)$', to_w):
                n += 1
                rule.bad('%s|cast-to-%s' % (fq, to_w), rep.where(c), f.label(), 'a size/extent (%s) is cast to the template parameter %s: for a narrow element type (int8_t, uint8_t, int16_t) extents above its range are mangled' % (src.src(30), to_w))
                continue
            if to_c in ('unsigned long', 'unsigned long long', 'double', 'long double', 'size_t', 'long', 'long long', 'float'):
                continue
            n += 1
            reason = TABLE.get((fq, to_c))
            if not reason and st in ('size_t', 'unsigned long', 'std::size_t') or (not reason and 'size_type' in st):
                # a size_t that counts members of an in-memory container (rank, number of columns, loop index over them) is not an extent:
                # only values that derive from data extents (nelms, NDSize elements, dataExtent) are obligations
                org = Flow(Sem(prog), f).origins(src)
                extentish = [o for o in org if o[0] == 'call' and o[1] in ('nelms', 'dataExtent', 'size', 'rows', 'positionCount', 'valueCount') and
                             ((o[1] != 'size') or 'DataSet' in ((o[2].callee or {}).get('cls') or '') or 'DataArray' in ((o[2].callee or {}).get('cls') or ''))]
                if not extentish:
                    rule.ok('%s|cast-to-%s' % (fq, to_c), rep.where(c), f.label(), 'member count / index of an in-memory container (%s), not a data extent' % src.src(30), nontrivial=False)
                    continue
            if reason:
                rule.ok('%s|cast-to-%s' % (fq, to_c), rep.where(c), f.label(), 'tabled: ' + reason, nontrivial=False)
            else:
                rule.bad('%s|cast-to-%s' % (fq, to_c), rep.where(c), f.label(), 'size/extent %s narrowed to %s without check::fits_in_size_t / a tabled reason' % (src.src(30), to_c))
    if n < 2:
        raise AnalysisBroken('R-NARROW: only %d narrowing casts found' % n)
    return rule


def run_buf(prog, rep):
    """the element count handed to the I/O primitive together with a raw buffer is that buffer's own shape,
    or the buffer was resized to it"""
    sem = Sem(prog)
    rule = rep.rule('R-BUF', 'count passed with a raw buffer is the buffer\'s own shape, or the buffer was resized to that count first', floor=5)
    n = 0
    done = set()
    for f in sorted(prog.funcs.values(), key=lambda f: (f.file, f.line)):
        if f.cls != 'nix::DataSet' or f.name not in ('getData', 'setData') or f.body is None or not f.instantiation:
            continue
        pat = (f.pattern, )
        if pat in done:
            continue
        sinks = [c for c in f.calls() if c.callee.get('name') == f.name and len(real_args(c)) == 4]
        if not sinks:
            continue
        done.add(pat)
        c = sinks[0]
        args = real_args(c)
        fl = Flow(sem, f)
        buf = fl.call_names(args[1])
        cnt = unwrap(args[2])
        names = fl.call_names(cnt)
        n += 1
        key = 'DataSet::%s%s' % (f.name, '(' + ','.join(p['name'] for p in f.params) + ')')
        ok = False
        why = ''
        if 'data' not in buf:
            why = 'buffer is not hydra.data()'
        elif 'shape' in names or 'dataExtent' in names and 'resize' in [x.callee.get('name') for x in f.calls()]:
            # count = hydra.shape()   or   extent the hydra was resized to
            if 'shape' in names:
                ok = True
            else:
                rz = [x for x in f.calls(name='resize')]
                ok = any(term(real_args(x)[0]) == term(cnt) or term(real_args(x)[0])[0] == 'v' for x in rz)
        elif cnt.k == 'ref' and cnt.decl.get('kind') == 'param':
            rz = [x for x in f.calls(name='resize') if term(real_args(x)[0]) == term(cnt)]
            ok = bool(rz) and all(_dominates(f, x, c) for x in rz[:1])
            why = 'count parameter used without resizing the buffer to it first'
        rule.check(ok, key, rep.where(c), f.label(), 'count agrees with the buffer', why or 'count %s is neither the buffer shape nor the size the buffer was resized to' % cnt.src(30))
    # DataArray::ioRead temporary
    io = prog.fn('nix::DataArray::ioRead')
    fl = Flow(sem, io)
    rz = [x for x in io.calls(name='resize') if 'tmp' in x.c[0].src()]
    gd = [x for x in io.calls(name='getDataDirect')]
    okt = False
    if rz and gd:
        nel = term(real_args(rz[0])[0])
        v = sem.local_vars(io).get(nel[1]) if nel[0] == 'v' else None
        from_count = v is not None and v.c and v.c[0] is not None and 'nelms' in fl.call_names(v.c[0])
        facts = sem.facts_at(io, rz[0].id)
        narrow = any(pol and t[0] == 'b' and t[1] == '<' and 'sizeof' in repr(t[3]) for (t, pol) in facts)
        okt = bool(from_count and narrow)
    n += 1
    rule.check(okt, 'DataArray::ioRead|temporary', rep.where(io), io.q, 'elements narrower than double are read into a temporary of count.nelms() doubles',
               'the calibrated read can write nelms doubles into a caller buffer of narrower elements')
    if n < 5:
        raise AnalysisBroken('R-BUF: only %d buffer/count sites found' % n)
    return rule


def _dominates(f, a, b):
    def listed(n):
        x = n
        while x is not None and f.cfg.pos.get(x.id) is None:
            x = x.p
        return x
    la, lb = listed(a), listed(b)
    return la is not None and lb is not None and f.cfg.dominates(la.id, lb.id)


def run_ndarray(prog, rep):
    sem = Sem(prog)
    rule = rep.rule('R-NDARRAY', 'NDArray element access copies only inside the byte store', floor=2)
    n = 0
    for nm in ('get', 'set'):
        fs = [f for f in prog.fns('nix::NDArray::' + nm) if f.params and f.params[0]['type'] in ('size_t', 'const size_t') and f.body is not None]
        if not fs:
            raise AnalysisBroken('no instantiation of NDArray::%s(size_t)' % nm)
        bad = []
        for f in fs:
            for c in f.calls():
                if c.callee.get('name') == 'memcpy':
                    facts = sem.facts_at(f, c.id)
                    iv = ('v', f.params[0]['lid'], f.params[0]['name'])
                    g = [t for (t, pol) in facts if pol is False and t[0] == 'b' and t[1] in ('>', '>=') and "'index'" in repr(t[2]) and 'dstore' in repr(t[3]) and "'size'" in repr(t[3])]
                    if not g:
                        bad.append(f.sig)
        n += 1
        rule.check(not bad, 'NDArray::%s|bounds' % nm, rep.where(fs[0]), 'nix::NDArray::' + nm, '%d instantiation(s): memcpy is dominated by an index-vs-store-size guard' % len(fs),
                   'unchecked memcpy at dstore.data() + sizeof(T) * index')
    return rule


def run_vecinit(prog, rep):
    """a local vector that is filled only under a condition is subscripted only where that condition (or a size test) holds"""
    sem = Sem(prog)
    rule = rep.rule('R-VECFILL', 'a local container filled only under a condition is not subscripted where that condition may be false', floor=1)
    n = 0
    for f in sorted(prog.funcs.values(), key=lambda f: (f.file, f.line)):
        if f.body is None or not (f.q.startswith('nix::') or (f.file and not prog.rel(f.file).startswith('/'))) or f.q.startswith('nix::hdf5::h5x'):
            continue
        lv = sem.local_vars(f)
        mods = sem.mods(f)
        for lid, v in lv.items():
            ty = v.get('ctype') or v.get('type') or ''
            if not re.match(r'^(const )?std::vector<', ty) or (v.c and v.c[0] is not None and _has_elems(v.c[0])):
                continue
            subs = [c for c in f.walk() if c.k == 'call' and c.get('op') == '[]' and c.c and unwrap(c.c[0]).k == 'ref' and unwrap(c.c[0]).decl.get('lid') == lid
                    and not _is_store_target(c)]
            if not subs:
                continue
            fills = [m for m in mods.get(lid, []) if m.id > v.id]
            if not fills:
                continue
            cond_fills = []
            uncond = False
            for m in fills:
                ifs = [a for a in m.ancestors() if a.k == 'if']
                loops = [a for a in m.ancestors() if a.k in ('for', 'while', 'rangefor', 'do')]
                if not ifs and not loops:
                    uncond = True
                cond_fills.append((m, ifs))
            if uncond:
                continue
            # every fill is conditional (or in a loop)
            if any(not ifs for m, ifs in cond_fills):
                continue   # filled in a loop without condition: element count follows the loop, other rules (R-IDX) apply
            n += 1
            key = '%s|%s' % (re.sub(r'<.*', '', f.q) + _sigkey2(f), v.get('name'))
            probs = []
            for s in subs:
                facts = sem.facts_at(f, s.id)
                sized = any(isinstance(t, tuple) and (('v', lid, v.get('name')) in _flat(t)) and t[0] in ('b', 'm') for (t, pol) in facts)
                if sized:
                    continue
                for m, ifs in cond_fills:
                    i = ifs[0]
                    if any(a is i for a in s.ancestors()) and any(x is s for x in (i.c[3].walk() if i.c[3] is not None else [])):
                        break   # the subscript sits in the same guarded branch
                    ct = term(unwrap(i.c[2]))
                    folded = _fold_fresh(sem, f, lv, mods, ct, i.c[2])
                    if folded is True:
                        break
                    if any(t == ct and pol for (t, pol) in facts):
                        break
                    # the subscript sits under a loop/if with the very same condition as the fill (the operands only move towards the bound in between)
                    same = False
                    for a in s.ancestors():
                        cn = a.c[2] if a.k == 'if' else (a.c[0] if a.k == 'while' else (a.c[1] if a.k == 'for' else None))
                        if cn is not None and term(unwrap(cn)) == ct and a.id > i.id:
                            same = True
                    if same:
                        break
                else:
                    i = cond_fills[0][1][0]
                    probs.append('%s is filled only if (%s) (line %s) but %s is read at line %s where that condition may be false and no size test protects it: out-of-bounds read on an empty vector' % (
                        v.get('name'), i.c[2].src(50), i.get('line') or i.l, s.src(30), s.l))
            rule.check(not probs, key, rep.where(v), f.label(), '%s: every subscript is under its fill condition, a size test, or the fill condition holds by construction' % v.get('name'), '; '.join(sorted(set(probs))[:2]))
    if n < 1:
        raise AnalysisBroken('R-VECFILL: no conditionally filled local vector found (anchor: max_extents in getOffsetAndCount)')
    return rule


def _sigkey2(f):
    return '(' + ','.join(p['type'].replace('const ', '').replace('nix::', '').replace(' &', '').replace('std::', '') for p in f.params)[:60] + ')'


def _has_elems(init):
    t = term(unwrap(init))
    return not (isinstance(t, tuple) and t[0] == 'new' and len(t) == 2)


def _is_store_target(c):
    p = c.p
    while p is not None and p.k in ('paren', 'cast', 'temp', 'bind'):
        p = p.p
    return p is not None and (p.k == 'assign' or (p.k == 'call' and p.get('op') in ('=', '+=', '-='))) and p.c and any(x is c for x in unwrap(p.c[0]).walk())


def _flat(t):
    out = []

    def w(x):
        if isinstance(x, tuple):
            out.append(x)
            for y in x:
                w(y)
    w(t)
    return out


def _fold_fresh(sem, f, lv, mods, ct, node):
    """condition of the form  X.size() < E  /  X.empty()  where X is a default-constructed local that nothing has touched yet:
    size() is 0 there, so the condition holds whenever E > 0 (E is the rank the subscripting loop is bounded by)"""
    def fresh(t):
        if not (isinstance(t, tuple) and t[0] == 'v'):
            return False
        v = lv.get(t[1])
        if v is None or (v.c and v.c[0] is not None and _has_elems(v.c[0])):
            return False
        return not any(m.id < node.id for m in mods.get(t[1], []) if m.id > v.id)
    if isinstance(ct, tuple) and ct[0] == 'b' and ct[1] == '<' and isinstance(ct[2], tuple) and ct[2][:2] == ('m', 'size') and fresh(ct[2][2]):
        return True
    if isinstance(ct, tuple) and ct[:2] == ('m', 'empty') and fresh(ct[2]):
        return True
    return None


def run_rawbuf(prog, rep):
    """a local std::string / std::vector handed to a C API as a writable raw buffer has been given that many elements (resize / sized
    constructor), not merely capacity (reserve): otherwise the elements written are not part of the container (size() stays 0)"""
    sem = Sem(prog)
    rule = rep.rule('R-RAWBUF', 'a local container handed out as a writable raw buffer was sized (resize / sized constructor) before, not only reserve()d', floor=5)
    n = 0
    for f in sorted(prog.funcs.values(), key=lambda f: (f.file, f.line)):
        if f.body is None or not ((f.file and not prog.rel(f.file).startswith('/')) or f.q.startswith('nix::')) or f.q.startswith('std::') or f.q.startswith('boost::'):
            continue
        lv = sem.local_vars(f)
        seen = set()
        for c in f.calls():
            cal = c.callee or {}
            if cal.get('cls') and not (cal.get('cls') or '').startswith('nix::hdf5'):
                continue
            ptypes = split_sig_local(cal.get('sig') or '()')
            for i, a in enumerate(real_args(c)):
                if a is None:
                    continue
                pt = ptypes[i] if i < len(ptypes) else ''
                if 'const' in pt.split('*')[0] or '*' not in pt:
                    continue
                x = unwrap(a)
                base = None
                # &v[0]  |  v.data()
                if x.k == 'unop' and x.get('op') == '&' and x.c:
                    y = unwrap(x.c[0])
                    if (y.k == 'call' and y.get('op') == '[]') or y.k == 'subscript':
                        b = unwrap(y.c[0])
                        base = b if b.k == 'ref' else None
                elif x.k == 'call' and x.get('member') and (x.callee or {}).get('name') == 'data' and x.c:
                    b = unwrap(x.c[0])
                    base = b if b.k == 'ref' else None
                if base is None or base.decl.get('kind') != 'local':
                    continue
                v = lv.get(base.decl.get('lid'))
                ty = (v.get('ctype') or v.get('type') or '') if v is not None else ''
                if v is None or not re.match(r'^(std::vector<|std::basic_string<|std::string)', ty):
                    continue
                key = '%s|%s|%s' % (re.sub(r'<.*', '', f.q), v.get('name'), cal.get('name'))
                if key in seen:
                    continue
                seen.add(key)
                n += 1
                sized_ctor = v.c and v.c[0] is not None and _has_elems(v.c[0])
                ops = [m for m in f.calls() if m.get('member') and m.c and unwrap(m.c[0]).k == 'ref' and unwrap(m.c[0]).decl.get('lid') == v.get('lid') and m.id < c.id]
                names = [(m.callee or {}).get('name') for m in ops]
                sized = sized_ctor or any(nm in ('resize', 'assign', 'push_back', 'emplace_back', 'insert') for nm in names)
                why = ''
                if not sized:
                    why = ('%s is handed to %s as a writable buffer but was only reserve()d: its size() stays 0, the bytes written are not part of the container (returned empty / undefined behaviour)' % (v.get('name'), cal.get('name'))
                           if 'reserve' in names else '%s is handed to %s as a writable buffer without having been sized' % (v.get('name'), cal.get('name')))
                rule.check(sized, key, rep.where(c), f.label(), '%s sized by %s before %s writes into it' % (v.get('name'), 'its constructor' if sized_ctor else '/'.join(x for x in names if x), cal.get('name')), why)
    if n < 5:
        raise AnalysisBroken('R-RAWBUF: only %d raw-buffer hand-outs found' % n)
    return rule


def split_sig_local(sig):
    from ..sem import split_sig
    return split_sig(sig)


def run_colidx(prog, rep):
    """DataFrameDimensionHDF5: a column vector is subscripted only with an index that checkColumnIndex returned, and checkColumnIndex returns
    only indices it compared with the number of columns of the frame"""
    from ..absint import GenericInterp
    rule = rep.rule('R-COLIDX', 'data frame dimension: every column subscript uses an index validated against the number of columns (explicit or stored default alike)', floor=3)
    f = prog.fn('nix::hdf5::DataFrameDimensionHDF5::checkColumnIndex')
    it = GenericInterp(prog)
    res = it.enumerate(f, this='THIS', args=[(f.params[0]['name'],)])
    probs = []
    nret = 0
    for assign, out, log, fields in res:
        if out[0] != 'ret':
            continue
        nret += 1
        R = out[1]
        inrange = [v for k, v in assign.items() if k[0] == 'cmp' and k[1] == '<' and k[2] == ('deref', R) and isinstance(k[3], tuple) and k[3][:2] == ('call', 'size') and 'columns' in repr(k[3])]
        present = assign.get(('truthy', R))
        if not inrange or inrange[0] is not True:
            probs.append('returns %s without having compared it with the number of columns: a stored default equal to the column count (which appendDataFrameDimension accepts) is handed to cols[i], one element past the end' % (
                'the stored default column' if 'columnIndex' in repr(R) else 'the given index'))
        if present is not True:
            probs.append('may return an empty optional (dereferenced by the callers)')
    if nret < 2:
        probs.append('only %d returning paths' % nret)
    rule.check(not probs, 'DataFrameDimensionHDF5::checkColumnIndex', rep.where(f), f.label(), 'every returned index is present and < columns().size() (%d returning paths)' % nret, '; '.join(sorted(set(probs))[:2]))
    sem = Sem(prog)
    n = 0
    for g in sorted(prog.methods_of('nix::hdf5::DataFrameDimensionHDF5'), key=lambda g: (g.line, g.sig)):
        if g.body is None or g is f:
            continue
        lv = sem.local_vars(g)
        for c in g.walk():
            if not (c.k == 'call' and c.get('op') == '[]' and c.c and len(c.c) == 2):
                continue
            base = unwrap(c.c[0])
            if base.k != 'ref' or base.decl.get('kind') != 'local':
                continue
            bv = lv.get(base.decl.get('lid'))
            if bv is None or 'vector<' not in (bv.get('ctype') or bv.get('type') or '') or bv.c[0] is None or 'columns' not in bv.c[0].src(40):
                continue
            n += 1
            it_ = term(unwrap(c.c[1]))
            idxv = None
            for x in c.c[1].walk():
                if x.k == 'ref' and x.decl.get('kind') == 'local':
                    idxv = lv.get(x.decl.get('lid'))
            ok = idxv is not None and idxv.c and idxv.c[0] is not None and 'checkColumnIndex' in idxv.c[0].src(60)
            if ok:
                # not reassigned afterwards from something else
                later = [m for m in sem.mods(g).get(idxv.get('lid'), []) if m.id > idxv.id and m.id < c.id and 'checkColumnIndex' not in m.src(80)]
                ok = not later
            rule.check(ok, '%s|%s' % (g.q.split('::')[-1] + '(%d)' % len(g.params), c.src(30)), rep.where(c), g.label(), 'index comes from checkColumnIndex', 'column vector subscripted with %s, which does not come from checkColumnIndex' % c.c[1].src(30))
    if n < 2:
        raise AnalysisBroken('R-COLIDX: only %d column subscripts found' % n)
    return rule


def run_stale_size(prog, rep):
    """a count taken from a container is not used after that container was replaced/filled (the count then describes the old content)"""
    sem = Sem(prog)
    rule = rep.rule('R-STALE', 'a local that holds the size of a container is not used after the container was (re)filled', floor=5)
    n = 0
    for f in sorted(prog.funcs.values(), key=lambda f: (f.file, f.line)):
        if f.body is None or not f.q.startswith('nix::') and not (f.file and not prog.rel(f.file).startswith('/')):
            continue
        if f.q.startswith('std::') or f.q.startswith('boost::'):
            continue
        lv = sem.local_vars(f)
        mods = sem.mods(f)
        for lid, v in lv.items():
            if not v.c or v.c[0] is None:
                continue
            t = term(unwrap(v.c[0]))
            # n = X.size()   (possibly wrapped in a cast / fits_in_size_t)
            szs = [c for c in v.c[0].walk() if c.k == 'call' and c.get('member') and (c.callee or {}).get('name') == 'size' and c.c and unwrap(c.c[0]).k == 'ref' and unwrap(c.c[0]).decl.get('kind') in ('local', 'param')]
            if len(szs) != 1 or len([x for x in v.c[0].walk() if x.k == 'call']) > 2:
                continue
            X = unwrap(szs[0].c[0]).decl
            if mods.get(lid) and any(m.id > v.id for m in mods[lid]):
                continue       # the count itself is updated later: not a frozen copy
            n += 1
            refills = [m for m in mods.get(X.get('lid'), []) if m.id > v.id and (m.k == 'assign' or (m.k == 'call' and m.get('op') == '=')) and unwrap(m.c[0]).k == 'ref']
            stale = []
            for m in refills:
                uses = [r for r in f.walk() if r.k == 'ref' and r.decl.get('lid') == lid and r.id > max(x.id for x in m.walk())]
                if uses:
                    stale.append((m, uses[0]))
            key = '%s|%s=%s.size()' % (re.sub(r'<.*', '', f.q) + '(%d)' % len(f.params), v.get('name'), X.get('name'))
            rule.check(not stale, key, rep.where(v), f.label(), '%s is not used after %s is replaced' % (v.get('name'), X.get('name')),
                       '%s was taken from %s.size() at line %s, %s is then replaced (line %s) and %s is still used at line %s: it describes the old content (e.g. 0 labels for a lazily loaded label list, making the axis unbounded)' % (
                           v.get('name'), X.get('name'), v.l, X.get('name'), stale[0][0].l if stale else '', v.get('name'), stale[0][1].l if stale else ''))
    if n < 5:
        raise AnalysisBroken('R-STALE: only %d size-holding locals found' % n)
    return rule


NAME_APIS = {'H5Iget_name': (1, 2), 'H5Fget_name': (1, 2), 'H5Lget_name_by_idx': (5, 6), 'H5Aget_name': (2, 1)}


def run_namebuf(prog, rep):
    """HDF5 'get name' calls copy at most size-1 characters and return the full length: the buffer that receives a name has
    (queried length + 1) elements and that is the size announced; anything smaller silently truncates the name (and the
    truncated name is then used to unlink / look up another object)"""
    rule = rep.rule('R-NAMEBUF', 'a buffer filled by H5Iget_name / H5Fget_name / H5Lget_name_by_idx has (queried length + 1) elements and exactly that size is announced', floor=3)
    n = 0

    def strip_casts(t):
        while isinstance(t, tuple) and t and t[0] == 'cast':
            t = t[2]
        return t

    for f in sorted(prog.funcs.values(), key=lambda f: (f.file, f.line)):
        if f.body is None or not f.q.startswith('nix::hdf5::'):
            continue
        calls = [c for c in f.calls() if (c.callee or {}).get('name') in NAME_APIS]
        if not calls:
            continue
        # variables that hold the answer of a size query (buffer null) of the same API
        lens = {}
        for x in f.walk():
            rhs = None
            if x.k == 'var' and x.c and x.c[0] is not None:
                rhs, lid, nm = unwrap(x.c[0]), x.get('lid'), x.get('name')
            elif x.k == 'assign' and unwrap(x.c[0]).k == 'ref':
                rhs, lid, nm = unwrap(x.c[1]), unwrap(x.c[0]).decl.get('lid'), unwrap(x.c[0]).decl.get('name')
            if rhs is not None and rhs.k == 'call' and (rhs.callee or {}).get('name') in NAME_APIS:
                bi, si = NAME_APIS[rhs.callee['name']]
                a = real_args(rhs)
                if term(unwrap(a[bi])) == ('k', None):
                    lens[('v', lid, nm)] = rhs.callee['name']
        for c in calls:
            bi, si = NAME_APIS[c.callee['name']]
            a = real_args(c)
            bt, st = term(unwrap(a[bi])), strip_casts(term(unwrap(a[si])))
            if bt == ('k', None):
                continue
            n += 1
            key = '%s|%s|%d' % (f.q, c.callee['name'], len([x for x in calls if x.id < c.id]))

            def is_len_plus_1(t):
                t = strip_casts(t)
                return isinstance(t, tuple) and t[0] == 'b' and t[1] == '+' and ((strip_casts(t[2]) in lens and t[3] == ('k', 1)) or (strip_casts(t[3]) in lens and t[2] == ('k', 1)))
            ok = False
            why = 'buffer %s, announced size %s' % (a[bi].src(30), a[si].src(30))
            # v.data() / &v[0] with v.size(), v constructed with len + 1 elements
            bv = None
            if isinstance(bt, tuple) and bt[0] == 'm' and bt[1] == 'data':
                bv = bt[2]
            elif isinstance(bt, tuple) and bt[0] == 'u' and bt[1] == '&' and isinstance(bt[2], tuple) and bt[2][0] == 'op' and bt[2][1] == '[]':
                bv = bt[2][2]
            elif isinstance(bt, tuple) and bt[0] == 'v':
                bv = bt
            if bv is not None and isinstance(bv, tuple) and bv[0] == 'v':
                decl = [v for v in f.walk() if v.k == 'var' and v.get('lid') == bv[1]]
                init = term(unwrap(decl[0].c[0])) if decl and decl[0].c and decl[0].c[0] is not None else None
                nelem = None
                if isinstance(init, tuple) and init[0] == 'new' and len(init) > 2 and 'std::' in str(init[1]):
                    nelem = init[2]
                elif decl and decl[0].c and decl[0].c[0] is not None:
                    nw = [y for y in decl[0].c[0].walk() if y.k == 'new']
                    if nw and nw[0].c:
                        sz = [y for y in nw[0].c if y is not None]
                        nelem = term(unwrap(sz[0])) if sz else None
                # sized after its declaration: the last resize / assign of the buffer before the call
                rs = [m for m in f.calls() if m.get('member') and (m.callee or {}).get('name') in ('resize', 'assign') and m.id < c.id and m.c and term(unwrap(m.c[0])) == bv]
                if rs:
                    ra = [y for y in real_args(rs[-1]) if y is not None]
                    nelem = term(unwrap(ra[0])) if ra else nelem
                size_is_buf = st == ('m', 'size', bv)
                if nelem is not None and is_len_plus_1(nelem) and (size_is_buf or is_len_plus_1(st)):
                    ok = True
                else:
                    why += '; the buffer has %s elements' % (decl[0].c[0].src(40) if decl and decl[0].c and decl[0].c[0] is not None else '?')
            rule.check(ok, key, rep.where(c), f.label(), 'buffer of (queried length + 1) elements, that size announced',
                       '%s: not (length returned by the size query + 1) - the call copies at most size-1 characters, the name comes back truncated' % why)
    if n < 3:
        raise AnalysisBroken('R-NAMEBUF: only %d name buffers found' % n)
    return rule


def run_bound_belief(prog, rep):
    """contradiction rule: a function that tests i against X.size() believes X can be shorter than i; every X[i] in that function
    must then be covered by the test (Engler et al.: check-then-use / use-then-check)"""
    rule = rep.rule('R-BOUNDBELIEF', 'where a function compares an index with the size of a container, every element access of that container at that index is covered by the comparison (no use before the check)', floor=4)
    sem = Sem(prog)
    seen = set()
    n = 0

    def flat(t, out):
        if isinstance(t, tuple):
            out.append(t)
            for y in t:
                flat(y, out)
        return out
    for f in sorted(prog.funcs.values(), key=lambda f: (f.file, f.line)):
        if f.body is None or not f.q.startswith('nix::') or (f.file, f.line) in seen:
            continue
        seen.add((f.file, f.line))
        beliefs = {}
        for x in f.walk():
            if x.k in ('if', 'cond', 'while'):
                c = x.c[2] if x.k == 'if' else x.c[0]
                if c is None:
                    continue
                for t in flat(term(unwrap(c)), []):
                    if len(t) == 4 and t[0] == 'b' and t[1] in ('<', '>=', '>', '<='):
                        for i, s in ((t[2], t[3]), (t[3], t[2])):
                            if isinstance(s, tuple) and s[:2] == ('m', 'size') and isinstance(i, tuple) and i[0] == 'v':
                                beliefs[(s[2], i)] = x
        if not beliefs:
            continue
        for x in f.walk():
            if x.k == 'call' and x.get('op') == '[]' and len(x.c) == 2:
                b, i = term(unwrap(x.c[0])), term(unwrap(x.c[1]))
                if (b, i) not in beliefs:
                    continue
                n += 1
                facts = sem.facts_at(f, x.id)
                sz = ('m', 'size', b)
                g = [1 for t, pol in facts if isinstance(t, tuple) and len(t) == 4 and t[0] == 'b' and (
                    (t[1] == '<' and pol and t[2] == i and t[3] == sz) or (t[1] == '>=' and not pol and t[2] == i and t[3] == sz) or
                    (t[1] == '>' and pol and t[3] == i and t[2] == sz) or (t[1] == '<=' and not pol and t[3] == i and t[2] == sz))]
                k = len([y for y in f.walk() if y.k == 'call' and y.get('op') == '[]' and y.id < x.id])
                rule.check(bool(g), '%s%s|%s|%d' % (re.sub(r'<.*', '', f.q), f.sig[:60], x.src(24), k), rep.where(x), f.label(), 'covered by the size test at line %s' % beliefs[(b, i)].l,
                           '%s is read although the test against %s.size() (line %s) does not cover this access: for a shorter container this is an out-of-bounds read' % (x.src(30), x.c[0].src(20), beliefs[(b, i)].l))
    if n < 4:
        raise AnalysisBroken('R-BOUNDBELIEF: only %d tested accesses found' % n)
    return rule


def run_hydra_rank(prog, rep):
    """Hydra resize of a fixed-rank container compares the rank of the whole requested shape with the container's rank: the
    backend is later given the whole shape, so a shape that is only partly looked at sizes the buffer smaller than the transfer"""
    rule = rep.rule('R-HYDRA-RANK', 'data_traits<fixed-rank container>::resize checks the rank of the requested shape itself (check_rank(dims.size())) before it sizes the container', floor=1)
    n = 0
    seen = set()
    for f in sorted(prog.funcs.values(), key=lambda f: (f.file, f.line)):
        if f.body is None or f.name != 'resize' or 'data_traits' not in (f.cls or '') or (f.file, f.line) in seen:
            continue
        cr = [c for c in f.calls() if (c.callee or {}).get('name') == 'check_rank']
        if not cr:
            continue
        seen.add((f.file, f.line))
        dp = [p for p in f.params if 'NDSize' in p['type']]
        for c in cr:
            n += 1
            a = [x for x in real_args(c) if x is not None]
            t = term(unwrap(a[0])) if a else None
            ok = bool(dp) and t == ('m', 'size', ('v', dp[0]['lid'], dp[0]['name']))
            rule.check(ok, '%s|check_rank' % re.sub(r'<.*', '<>', f.cls), rep.where(c), f.label(), 'check_rank(%s.size())' % (dp[0]['name'] if dp else '?'),
                       'the rank check is applied to %s, not to the rank of the requested shape: a shape of another rank passes, the container is sized from a part of it and the transfer that follows uses the whole shape (heap overrun)' % (a[0].src(40) if a else '?'))
    if n < 1:
        raise AnalysisBroken('R-HYDRA-RANK: no check_rank call in a data_traits resize found')
    return rule
