"""R-BFS (C20): worklist discipline of the tree searches, back-reference enumeration."""
import re

from ..extract import AnalysisBroken
from ..sem import Sem, Flow, term, unwrap, real_args, split_sig

BACK_INS = ('push_back', 'emplace_back')
FRONT_INS = ('push_front', 'emplace_front')


def worklist_ops(prog, fn, wl_lid, seen=None, via=None):
    """[(op, call node, function, term of receiver)] on the worklist, following helpers
    that receive it by non-const reference"""
    if seen is None:
        seen = set()
    out = []
    if (fn.usr, wl_lid) in seen:
        return out
    seen.add((fn.usr, wl_lid))
    for c in fn.calls():
        if c.get('member') and c.c:
            o = unwrap(c.c[0])
            if o.k == 'ref' and o.decl.get('lid') == wl_lid:
                out.append((c.callee.get('name'), c, fn))
        # passed to a helper?
        args = real_args(c)
        for i, a in enumerate(args):
            if a is None:
                continue
            an = unwrap(a)
            if an.k == 'ref' and an.decl.get('lid') == wl_lid:
                for tgt in prog.resolve_call(c):
                    if i < len(tgt.params) and tgt.params[i]['type'].endswith('&') and not tgt.params[i]['type'].startswith('const '):
                        out += [(op, n, f) for (op, n, f) in worklist_ops(prog, tgt, tgt.params[i]['lid'], seen)]
    return out


def depth_guard(sem, f, ins_call, maxdepth_names=('max_depth',)):
    """-> (D term, ok) : the insertion is dominated by D < max_depth"""
    facts = sorted(sem.facts_at(f, ins_call.id), key=repr)
    weak = None
    for (t, pol) in facts:
        if t[0] == 'b' and len(t) == 4:
            op, l, r = t[1], t[2], t[3]
            if op in ('==', '!='):
                continue     # an equality test against the limit is not the depth guard (it may accompany it)
            if r[0] == 'v' and r[2] in maxdepth_names and ((op == '<' and pol) or (op == '>=' and not pol)):
                return l, True
            if l[0] == 'v' and l[2] in maxdepth_names and ((op == '>' and pol) or (op == '<=' and not pol)):
                return r, True
            if (r[0] == 'v' and r[2] in maxdepth_names) or (l[0] == 'v' and l[2] in maxdepth_names):
                weak = (l if r[0] == 'v' and r[2] in maxdepth_names else r)
    if weak is not None:
        return weak, False
    return None, False


def resolve_local_term(sem, f, t):
    """replace a never-modified, initialised local by its initialiser (one level)"""
    if isinstance(t, tuple) and t and t[0] == 'v':
        v = sem.local_vars(f).get(t[1])
        if v is not None and v.c and v.c[0] is not None and not sem.mods(f).get(t[1]):
            return term(v.c[0])
    return t


def check_search(prog, rep, rule, sem, fn, kind):
    key = fn.q
    vars_ = sem.local_vars(fn)
    wl = [v for v in vars_.values() if re.search(r'std::(list|queue|deque|stack|vector|priority_queue)<', v.get('ctype') or v.get('type') or '') and
          re.search(r'(tuple|Cont|pair|struct)', v.get('type') or '')]
    if len(wl) != 1:
        raise AnalysisBroken('%s: cannot identify the work list (%d candidates)' % (fn.q, len(wl)))
    W = wl[0]
    wtype = W.get('ctype') or W.get('type')
    ops = worklist_ops(prog, fn, W.get('lid'))
    names = [o[0] for o in ops]
    ins = [o for o in ops if o[0] in BACK_INS + FRONT_INS + ('push', 'emplace')]
    rem = [o for o in ops if o[0] in ('pop_front', 'pop_back', 'pop')]
    peek = [o for o in ops if o[0] in ('front', 'back', 'top')]
    if not ins or not rem:
        raise AnalysisBroken('%s: work list without insertion/removal (%s)' % (fn.q, names))
    is_queue = 'std::queue<' in wtype
    is_stack = 'std::stack<' in wtype or 'priority_queue' in wtype
    ins_end = set()
    for o in ins:
        if o[0] in BACK_INS or (o[0] in ('push', 'emplace') and is_queue):
            ins_end.add('back')
        elif o[0] in FRONT_INS:
            ins_end.add('front')
        else:
            ins_end.add('top')
    rem_end = set()
    for o in rem:
        if o[0] == 'pop_front' or (o[0] == 'pop' and is_queue):
            rem_end.add('front')
        elif o[0] == 'pop_back':
            rem_end.add('back')
        else:
            rem_end.add('top')
    peek_end = set('front' if o[0] == 'front' else ('back' if o[0] == 'back' else 'top') for o in peek)
    fifo = (not is_stack) and len(ins_end) == 1 and len(rem_end) == 1 and ins_end != rem_end and 'top' not in ins_end | rem_end and peek_end == rem_end
    rule.check(fifo, key + '|fifo', rep.where(rem[0][1]), fn.label(),
               'work list is first-in first-out (insert at %s, take from %s)' % ('/'.join(ins_end), '/'.join(rem_end)),
               'work list is not FIFO (insert at %s, read %s, remove at %s): the search is not breadth-first' % ('/'.join(sorted(ins_end)), '/'.join(sorted(peek_end)), '/'.join(sorted(rem_end))))
    # depth bookkeeping at every child insertion (insertions that are guarded or sit in a loop over children)
    child_ins = []
    for (op, c, f) in ins:
        in_loop = any(a.k in ('for', 'rangefor', 'while') for a in c.ancestors())
        if f is not fn or in_loop:
            # the main while loop of fn itself also counts as a loop: distinguish root push (outside any loop)
            child_ins.append((op, c, f))
    child_ins = [x for x in child_ins if any(a.k in ('for', 'rangefor') for a in x[1].ancestors())]
    if not child_ins:
        raise AnalysisBroken('%s: no child insertion found' % fn.q)
    for (op, c, f) in child_ins:
        mdn = tuple(p['name'] for p in f.params if 'depth' in p['name'])
        D, okg = depth_guard(sem, f, c, mdn or ('max_depth',))
        rule.check(okg, key + '|depth-guard', rep.where(c), f.label(),
                   'children are enqueued only while depth(parent) < max_depth',
                   'children are enqueued without the guard depth(parent) < max_depth%s: the depth limit is off by one or ignored' % ('' if D is None else ' (found a non-strict / inverted comparison)'))
        # enqueued depth = D + 1
        args = real_args(c)
        cand = []
        for a in args:
            for x in a.walk():
                if x.k == 'ref' and x.decl.get('kind') == 'local':
                    cand.append(resolve_local_term(sem, f, term(x)))
                elif x.k == 'binop':
                    cand.append(term(x))
        plus1 = [t for t in cand if isinstance(t, tuple) and t and t[0] == 'b' and t[1] == '+' and ((t[3] == ('k', 1) and (D is None or t[2] == D)) or (t[2] == ('k', 1) and (D is None or t[3] == D)))]
        rule.check(bool(plus1) and D is not None, key + '|depth-plus-one', rep.where(c), f.label(),
                   'a child is enqueued with depth(parent) + 1', 'the depth stored with a child is not depth(parent) + 1')
    # results in removal order: results.push_back(element taken from the work list) inside the main loop, and returned
    rets = [x for x in fn.walk() if x.k == 'return']
    fl = Flow(sem, fn)
    okr = False
    if len(rets) == 1:
        rv = term(rets[0].c[0])
        for c in fn.calls(name='push_back'):
            if term(c.c[0]) == rv:
                src = fl.origins(real_args(c)[0])
                if any(o[0] in ('call',) and o[1] in ('front', 'back', 'top') for o in src):
                    okr = any(a.k == 'while' for a in c.ancestors()) and not any(a.k in ('for', 'rangefor') for a in c.ancestors())
    why_r = ''
    if okr and rv[0] == 'v':
        # nothing else may put elements into the result (another insert, or a callee that is handed the result by reference)
        good = [c for c in fn.calls(name='push_back') if term(c.c[0]) == rv]
        for m in sem.mods(fn).get(rv[1], []):
            if m.k == 'var' or any(m is g or any(x is m for x in g.walk()) or any(x is g for x in m.walk()) for g in good):
                continue
            okr = False
            why_r = 'the result vector is also filled at line %s (%s): those elements do not pass through the work list, so the result is no longer in breadth-first order' % (m.l, m.src(50))
            break
    rule.check(okr, key + '|removal-order', rep.where(fn), fn.label(), 'matches are appended to the result in the order they leave the work list, and only there', why_r)
    # the filter decides membership
    filt = [c for c in fn.calls() if c.get('op') == '()' and unwrap(c.c[0]).k == 'ref' and unwrap(c.c[0]).decl.get('name') == 'filter']
    rule.check(bool(filt), key + '|filter', rep.where(fn), fn.label(), 'the filter predicate is applied to each visited element')


def run(prog, rep):
    sem = Sem(prog)
    rule = rep.rule('R-BFS', 'tree searches: FIFO work list, depth+1 under depth<max guard, results in removal order; back references enumerate all blocks / nested sources with the right filter', floor=20)
    check_search(prog, rep, rule, sem, prog.fn('nix::Section::findSections', 'Filter'), 'section')
    check_search(prog, rep, rule, sem, prog.fn('nix::Source::findSources', 'Filter'), 'source')
    # File::findSections
    ff = prog.fn('nix::File::findSections', 'Filter')
    fl = Flow(sem, ff)
    inner = ff.calls(name='findSections')
    okf = False
    why = 'no per-root recursion'
    if inner:
        c = inner[0]
        d = term(real_args(c)[1])
        md = [p for p in ff.params if 'depth' in p['name']]
        mdv = ('v', md[0]['lid'], md[0]['name']) if md else None
        minus1 = d == ('b', '-', mdv, ('k', 1))
        facts = sem.facts_at(ff, c.id)
        nonzero = any((t == ('b', '==', mdv, ('k', 0)) and pol is False) or (t == ('b', '!=', mdv, ('k', 0)) and pol) or (t == ('b', '>', mdv, ('k', 0)) and pol) for (t, pol) in facts)
        in_loop = any(a.k == 'rangefor' and 'sections' in fl.call_names(a.c[1]) for a in c.ancestors())
        okf = minus1 and nonzero and in_loop
        why = 'depth argument max_depth-1: %s, guarded by max_depth != 0: %s, inside loop over sections(): %s' % (minus1, nonzero, in_loop)
    rule.check(okf, 'File::findSections|roots', rep.where(ff), ff.label(), 'each root section is tested and searched with max_depth - 1 (nothing for max_depth 0)', why)
    rootpush = [c for c in ff.calls(name='push_back') if any(o[0] == 'call' and o[1] == 'sections' for o in fl.origins(real_args(c)[0]))]
    rootflt = False
    for c in rootpush:
        f2 = sem.facts_at(ff, c.id)
        rootflt = rootflt or any(pol and "'filter'" in repr(t) for (t, pol) in f2)
    rule.check(rootflt, 'File::findSections|root-filter', rep.where(ff), ff.label(), 'a root is included iff the filter accepts it')
    # Block::findSources: concatenates per root
    bf = prog.fn('nix::Block::findSources', 'Filter')
    fl = Flow(sem, bf)
    inner = bf.calls(name='findSources')
    okb = False
    if inner:
        c = inner[0]
        in_loop = any(a.k == 'rangefor' and 'sources' in fl.call_names(a.c[1]) for a in c.ancestors())
        rets = [x for x in bf.walk() if x.k == 'return']
        derives = len(rets) == 1 and 'findSources' in fl.call_names(rets[0].c[0])
        passes = [term(a) for a in real_args(c)]
        params_ok = all(any(p == ('v', q['lid'], q['name']) for p in passes) for q in bf.params)
        okb = in_loop and derives and params_ok
        whyb = ''
        loops = [a for a in c.ancestors() if a.k == 'rangefor']
        if loops:
            early = [x for x in loops[0].walk() if x.k in ('break', 'return', 'continue')]
            if early:
                okb = False
                whyb = 'the loop over the root sources can be left early (line %s): matches under the remaining roots are missing' % early[0].l
    rule.check(okb, 'Block::findSources|roots', rep.where(bf), bf.label(), 'every root source is searched with the given filter and depth and the results are concatenated', whyb if inner else '')
    # back references of a section
    table = [
        ('referringDataArrays', 'dataArrays', 'MetadataFilter<nix::DataArray>'),
        ('referringTags', 'tags', 'MetadataFilter<nix::Tag>'),
        ('referringMultiTags', 'multiTags', 'MetadataFilter<nix::MultiTag>'),
        ('referringSources', 'findSources', 'MetadataFilter<nix::Source>'),
    ]
    for nm, enum_, flt in table:
        fs = prog.fns('nix::Section::' + nm)
        allb = [f for f in fs if not f.params]
        perb = [f for f in fs if f.params]
        if len(allb) != 1 or len(perb) != 1:
            raise AnalysisBroken('anchor vanished: Section::%s overloads' % nm)
        a, p = allb[0], perb[0]
        fl = Flow(sem, a)
        loops = [x for x in a.body.walk() if x.k == 'rangefor' and 'blocks' in fl.call_names(x.c[1])]
        oka = False
        if loops:
            lp = loops[0]
            blk = [c for c in lp.c[1].walk() if c.k == 'call' and (c.callee or {}).get('name') == 'blocks']
            unfiltered = blk and all(x is None or x.k == 'defarg' for x in real_args(blk[0]))
            inner = [c for c in lp.c[7].walk() if c.k == 'call' and (c.callee or {}).get('name') == nm]
            ins = [c for c in lp.c[7].walk() if c.k == 'call' and (c.callee or {}).get('name') == 'insert']
            noexit = not any(x.k in ('break', 'return') for x in lp.c[7].walk())
            oka = bool(unfiltered and inner and ins and noexit)
        rule.check(oka, 'Section::%s|all-blocks' % nm, rep.where(a), a.label(), 'iterates all blocks of the file and concatenates the per-block results')
        calls = [c for c in p.calls(name=enum_)]
        okp = False
        why = 'does not call %s' % enum_
        if calls:
            c = calls[0]
            args = real_args(c)
            cons = [x for x in args[0].walk() if x.k == 'construct' and flt.split('<')[0] in ((x.callee or {}).get('cls') or '')]
            tyok = any(flt.replace('nix::', '') in (x.t or '').replace('nix::', '') for x in cons)
            idok = any("'id'" in repr(term(x)) for x in cons)
            depth_default = enum_ != 'findSources' or all(x is None or x.k == 'defarg' for x in args[1:])
            okp = bool(cons) and tyok and idok and depth_default
            why = 'filter type %s: %s, built from id(): %s, unlimited depth: %s' % (flt, tyok, idok, depth_default)
        rule.check(okp, 'Section::%s|per-block' % nm, rep.where(p), p.label(), 'block.%s(%s(id()))' % (enum_, flt), why)
    rb = prog.fn('nix::Section::referringBlocks')
    cs = rb.calls(name='blocks')
    okrb = bool(cs) and any('MetadataFilter' in ((x.callee or {}).get('cls') or '') and "'id'" in repr(term(x)) for x in cs[0].walk() if x.k == 'construct')
    rule.check(okrb, 'Section::referringBlocks|filter', rep.where(rb), rb.label(), 'file.blocks(MetadataFilter<Block>(id()))')
    # back references of a source
    for nm, enum_ in (('referringDataArrays', 'dataArrays'), ('referringTags', 'tags'), ('referringMultiTags', 'multiTags'), ('parentSource', 'findSources')):
        f = prog.fn('nix::Source::' + nm)
        cs = f.calls(name=enum_)
        oks = False
        if cs:
            c = cs[0]
            recv = Flow(sem, f).call_names(c.c[0])
            cons = [x for x in c.walk() if x.k == 'construct' and 'SourceFilter' in ((x.callee or {}).get('cls') or '')]
            depth_default = enum_ != 'findSources' or all(x is None or x.k == 'defarg' for x in real_args(c)[1:])
            oks = 'parentBlock' in recv and bool(cons) and any("'id'" in repr(term(x)) for x in cons) and depth_default
        rule.check(oks, 'Source::%s|filter' % nm, rep.where(f), f.label(), 'parentBlock().%s(SourceFilter(id()))' % enum_)
    # inherited properties: own + linked not shadowed by name
    ip = prog.fn('nix::Section::inheritedProperties')
    lam = [x for x in ip.body.walk() if x.k == 'lambda']
    oki = False
    if len(lam) >= 2:
        inner = lam[-1] if lam[-1].id > lam[0].id else lam[0]
        # inner lambda compares names; outer returns find_if(...) == own.end()
        cmpn = [x for x in inner.walk() if x.k == 'call' and x.get('op') == '==' and repr(term(x)).count("'name'") >= 2]
        outer = [l for l in lam if l is not inner][0]
        ret = [x for x in outer.walk() if x.k == 'return']
        shape = False
        for r in ret:
            t = repr(term(r.c[0]))
            if 'find_if' in t and "'end'" in t and "'=='" in t:
                shape = True
        cp = [c for c in ip.calls() if (c.callee.get('name') or '') == 'copy_if']
        oki = bool(cmpn) and shape and bool(cp)
    rule.check(oki, 'Section::inheritedProperties|shadowing', rep.where(ip), ip.label(), 'a linked property is appended iff no own property has the same name')
    return rule


def run_filters(prog, rep):
    """filter predicates (include/nix/util/filter.hpp): each accepts exactly the entities its name says"""
    from ..absint import GenericInterp
    rule = rep.rule('R-FILTER', 'filter predicates: accept iff the named attribute of the entity equals / matches the filter value', floor=7)
    E = ('e',)

    def spec_eq(getter, field):
        key = ('cmp', '==', ('call', getter, E), ('mem', field, 'THIS'))
        key2 = ('cmp', '==', ('mem', field, 'THIS'), ('call', getter, E))
        return lambda assign: assign.get(key, assign.get(key2))

    def spec_ids(assign):
        for k, v in assign.items():
            if k[0] == 'cmp' and ('call', 'count', ('mem', 'ids', 'THIS'), ('call', 'id', E)) in k and 0 in k:
                return v if k[1] == '<' else (not v if k[1] == '==' else None)
        return None

    def spec_meta(assign):
        has = assign.get(('truthy', ('call', 'metadata', E)))
        if has is None:
            return None
        if not has:
            return False
        return assign.get(('cmp', '==', ('call', 'id', ('call', 'metadata', E)), ('mem', 'sec_id', 'THIS')),
                          assign.get(('cmp', '==', ('mem', 'sec_id', 'THIS'), ('call', 'id', ('call', 'metadata', E)))))

    def spec_src(assign):
        return assign.get(('bool', 'hasSource', E, ('mem', 'src_id', 'THIS')))

    def spec_type(assign):
        exact = assign.get(('truthy', ('mem', 'exact', 'THIS')))
        if exact is None:
            return None
        want = 'boost::regex_match' if exact else 'boost::regex_search'
        for k, v in assign.items():
            if k[0] == 'bool' and k[1] == want and k[2] == ('call', 'type', E) and ('mem', 'expression', 'THIS') in k:
                return v
        return None
    SPEC = {'nix::util::AcceptAll': lambda a: True, 'nix::util::IdFilter': spec_eq('id', 'id'), 'nix::util::NameFilter': spec_eq('name', 'name'),
            'nix::util::IdsFilter': spec_ids, 'nix::util::MetadataFilter': spec_meta, 'nix::util::SourceFilter': spec_src, 'nix::util::TypeFilter': spec_type}
    done = {}
    for f in sorted(prog.funcs.values(), key=lambda f: (f.q, f.sig)):
        if f.name != 'operator()' or f.body is None or not (f.cls or '').startswith('nix::util::'):
            continue
        base = f.cls.split('<')[0]
        if base not in SPEC:
            continue
        it = GenericInterp(prog)
        res = it.enumerate(f, this='THIS', args=[E])
        probs = []
        outs = set()
        for assign, out, log, fields in res:
            if out[0] != 'ret' or not isinstance(out[1], bool):
                probs.append('outcome %r' % (out,))
                continue
            want = SPEC[base](assign)
            outs.add(out[1])
            if want is None:
                probs.append('accepts=%s is decided by %s, not by the named attribute' % (out[1], [repr(k)[:60] for k in assign][:2] or 'nothing'))
            elif want != out[1]:
                probs.append('returns %s where the attribute test says %s' % (out[1], want))
        if base != 'nix::util::AcceptAll' and outs != {True, False}:
            probs.append('the predicate is constant')
        key = '%s|%s' % (base.split('::')[-1], (f.targs or ['?'])[0] if hasattr(f, 'targs') else '?')
        if base in done and not probs:
            continue
        done[base] = True
        rule.check(not probs, '%s|predicate' % base.split('::')[-1] if not probs else key, rep.where(f), f.label(), 'accepts exactly the entities whose attribute matches (%d paths)' % len(res), '; '.join(sorted(set(probs))[:2]))
    missing = [b for b in SPEC if b not in done]
    if missing:
        raise AnalysisBroken('R-FILTER: no instantiation of %s' % missing)
    return rule
