"""R-NULL (C16): maybe-null values are tested before they are dereferenced / converted.
 (i)   std::string assigned from a char* that comes from an HDF5 read buffer
 (ii)  shared_ptr results of lookups that may return null
 (iii) boost::optional<H5Group> results
 (iv)  *max_element / front() / back() on possibly empty ranges"""
import re

from ..extract import AnalysisBroken
from ..sem import Sem, Flow, term, unwrap, real_args, split_sig, LOCAL_KINDS


def _only_arg(n):
    a = [c for c in n.c if c is not None and c.k != 'defarg']
    return a[0] if len(a) == 1 else None


def may_return_null(sem, f):
    if 'shared_ptr' not in (f.ret or '') or f.body is None:
        return False
    for r in [x for x in f.walk() if x.k == 'return' and x.c and x.c[0] is not None]:
        e = unwrap(r.c[0])
        while e is not None and e.k == 'construct' and _only_arg(e) is not None:
            e = unwrap(_only_arg(e))
        if e is None:
            continue
        if e.k == 'nullptr':
            return True
        if e.k == 'construct' and not [c for c in e.c if c is not None and c.k != 'defarg']:
            return True
        if e.k == 'ref' and e.decl.get('kind') == 'local':
            v = sem.local_vars(f).get(e.decl.get('lid'))
            if v is not None:
                init = unwrap(v.c[0]) if v.c and v.c[0] is not None else None
                if init is None or (init.k == 'construct' and not [c for c in init.c if c is not None and c.k != 'defarg']):
                    return True
    return False


def truthy_fact(facts, pt):
    for (t, pol) in facts:
        if pol and ((t[:2] == ('m', 'operator bool') and t[2] == pt) or t == pt):
            return True
        if t[0] == 'op' and len(t) == 4 and {t[2], t[3]} == {pt, ('k', None)}:
            if (t[1] == '!=' and pol) or (t[1] == '==' and not pol):
                return True
        if t[0] == 'b' and len(t) == 4 and {t[2], t[3]} == {pt, ('k', None)}:
            if (t[1] == '!=' and pol) or (t[1] == '==' and not pol):
                return True
    return False


def run_strings(prog, rep):
    """(i) assignment of a possibly-null char* to a std::string"""
    sem = Sem(prog)
    rule = rep.rule('R-NULL-STR', 'a char* read from an HDF5 buffer is null-tested before it is assigned to a std::string', floor=3)
    TABLED = {
        'nix::Variant::get': 'tagged union: v_string is allocated whenever dtype == String, and get() checks the type first (R-TAG)',
        'nix::hdf5::do_read_old_value': 'old-style value records (format < 1.1.1) are never written by this library version; files produced by it are out of this path',
    }
    n = 0
    for f in sorted(prog.funcs.values(), key=lambda f: (f.file, f.line)):
        if f.body is None or not f.q.startswith('nix::') and not f.q.startswith('nix'):
            pass
        if f.body is None:
            continue
        fl = None
        for c in f.walk():
            if not (c.k == 'call' and c.get('op') == '=' and len(c.c) == 2):
                continue
            cal = c.callee or {}
            if not (cal.get('cls') or '').startswith('std::basic_string') or 'char *' not in cal.get('sig', ''):
                continue
            rhs = unwrap(c.c[1])
            if rhs.k == 'str':
                continue
            if fl is None:
                fl = Flow(sem, f)
            org = fl.origins(rhs)
            # provably non-null origins: literals, c_str()/data() of library containers, new[]
            calls = set(o[1] for o in org if o[0] in ('call',))
            has_new = any(x.k == 'new' for x in rhs.walk()) or any(v.k == 'var' and v.get('lid') in [r.decl.get('lid') for r in rhs.walk() if r.k == 'ref'] and v.c and v.c[0] is not None and any(y.k == 'new' for y in v.c[0].walk()) for v in f.walk() if v.k == 'var')
            only_lit = org and all(o[0] == 'lit' for o in org)
            key = '%s|%s' % (re.sub(r'<.*>', '', f.q), rhs.src(30))
            n += 1
            if only_lit or has_new or (calls and calls <= {'c_str', 'data', 'str'}):
                rule.ok(key, rep.where(c), f.label(), 'source is never null (literal / new[] / container buffer)', nontrivial=False)
                continue
            base = re.sub(r'<.*>', '', f.q)
            if base in TABLED:
                rule.ok(key, rep.where(c), f.label(), 'tabled: ' + TABLED[base], nontrivial=False)
                continue
            facts = sem.facts_at(f, c.id)
            ok = truthy_fact(facts, term(rhs))
            rule.check(ok, key, rep.where(c), f.label(), 'null-tested before the assignment',
                       'std::string::operator=(const char*) receives %s, which may be null (an unwritten variable-length string reads back as NULL): strlen(NULL) - crash' % rhs.src(40))
    if n < 3:
        raise AnalysisBroken('R-NULL-STR: only %d char* assignments found' % n)
    return rule


def run_shared(prog, rep):
    """(ii) dereference of a shared_ptr that comes from a lookup which may return null"""
    sem = Sem(prog)
    rule = rep.rule('R-NULL-PTR', 'results of lookups that may return null are tested (or guarded by the matching has-query) before use', floor=5)
    mn = set(f.usr for f in prog.funcs.values() if f.q.startswith('nix::hdf5::') and may_return_null(sem, f))

    def call_may_null(call):
        if call is None or call.k != 'call' or not call.callee:
            return False
        return any(t.usr in mn for t in prog.resolve_call(call))
    n = 0
    for f in sorted(prog.funcs.values(), key=lambda f: (f.file, f.line)):
        if f.body is None or not f.q.startswith('nix::hdf5::'):
            continue
        for d in f.walk():
            if not (d.k == 'call' and d.get('op') in ('->', '*') and len(d.c) == 1 and 'shared_ptr' in ((d.callee or {}).get('cls') or '')):
                continue
            p = unwrap(d.c[0])
            src = None
            if p.k == 'call':
                src = p
            elif p.k == 'ref' and p.decl.get('kind') == 'local':
                v = sem.local_vars(f).get(p.decl.get('lid'))
                if v is not None and v.c and v.c[0] is not None and not [m for m in sem.mods(f).get(p.decl.get('lid'), []) if m.k == 'assign' or (m.k == 'call' and m.get('op') == '=')]:
                    i = unwrap(v.c[0])
                    while i is not None and i.k == 'construct' and _only_arg(i) is not None:
                        i = unwrap(_only_arg(i))
                    src = i
            if src is None or not call_may_null(src):
                continue
            n += 1
            key = '%s|%s' % (f.q, d.p.src(40) if d.p is not None else p.src(30))
            facts = sem.facts_at(f, d.id)
            pt = term(p)
            ok = truthy_fact(facts, pt)
            why = 'null test dominates'
            if not ok:
                # a dominating has<X>(same argument) of the same receiver
                sargs = [term(a) for a in real_args(src)]
                nm = (src.callee.get('name') or '')
                hasnm = 'has' + nm[3:] if nm.startswith('get') else None
                for (t, pol) in facts:
                    if pol and t[0] == 'm' and hasnm and t[1] == hasnm and list(t[3:]) == sargs:
                        ok = True
                        why = '%s(%s) holds' % (hasnm, ', '.join(a.src(20) for a in real_args(src)))
            rule.check(ok, key, rep.where(d), f.label(), why,
                       '%s may be null (the lookup %s returns an empty pointer when nothing is found) and is dereferenced without a test' % (p.src(30), src.src(50)))
    if n < 5:
        raise AnalysisBroken('R-NULL-PTR: only %d dereferences of maybe-null lookups found' % n)
    return rule


def run_empty_ranges(prog, rep):
    """(iv) *max_element(first,last), front(), back() on containers that may be empty"""
    sem = Sem(prog)
    rule = rep.rule('R-NULL-EMPTY', '*max_element / front() / back() only on ranges known to be non-empty', floor=4)
    n = 0
    for f in sorted(prog.funcs.values(), key=lambda f: (f.file, f.line)):
        if f.body is None or not (prog.rel(f.file).startswith(('src/', 'backend/hdf5', 'include/nix'))):
            continue
        for c in f.walk():
            cont = None
            what = None
            if c.k == 'unop' and c.get('op') == '*' or (c.k == 'call' and c.get('op') == '*' and len(c.c) == 1):
                inner = unwrap(c.c[0])
                if inner is not None and inner.k == 'call' and (inner.callee or {}).get('q') in ('std::max_element', 'std::min_element'):
                    a0 = unwrap(inner.c[0])
                    if a0.k == 'call' and a0.get('member') and a0.callee.get('name') in ('begin', 'cbegin'):
                        cont = a0.c[0]
                        what = '*%s' % inner.callee.get('name')
            elif c.k == 'call' and c.get('member') and (c.callee or {}).get('name') in ('front', 'back') and (c.callee.get('cls') or '').startswith('std::vector'):
                cont = c.c[0]
                what = c.callee.get('name') + '()'
            if cont is None:
                continue
            ct = term(cont)
            n += 1
            facts = sem.facts_at(f, c.id)
            ok = any((t[:3] == ('m', 'empty', ct) and pol is False) for (t, pol) in facts)
            if not ok:
                # constructed with a fixed positive size in this function: vector<T> v(1, x)
                cn = unwrap(cont)
                if cn.k == 'ref' and cn.decl.get('kind') == 'local':
                    v = sem.local_vars(f).get(cn.decl.get('lid'))
                    if v is not None and v.c and v.c[0] is not None:
                        i = unwrap(v.c[0])
                        if i.k == 'construct' and i.c and i.c[0] is not None and term(i.c[0]) == ('k', 1):
                            ok = True
            key = '%s%s|%s on %s' % (re.sub(r'<.*>', '', f.q), _sk(f), what, cont.src(25))
            rule.check(ok, key, rep.where(c), f.label(), 'range known non-empty', '%s on %s, which may be empty here (undefined behaviour)' % (what, cont.src(30)))
    if n < 4:
        raise AnalysisBroken('R-NULL-EMPTY: only %d sites found' % n)
    return rule


def _sk(f):
    return '(' + ','.join(p['type'].replace('const ', '').replace('nix::', '').replace(' &', '').replace('std::', '')[:14] for p in f.params) + ')'


def run_optional(prog, rep):
    """(iii) boost::optional<H5Group> is tested (or created) before it is dereferenced"""
    sem = Sem(prog)
    rule = rep.rule('R-NULL-OPT', 'an optional group handle is tested, or created on demand, before it is dereferenced', floor=30)
    TABLED = {
        ('nix::hdf5::DataArrayHDF5::deleteDimensions', 'g'): 'the loop runs dimensionCount() times, which is 0 exactly when the dimension group is absent',
    }
    n = 0
    for f in sorted(prog.funcs.values(), key=lambda f: (f.file, f.line)):
        if f.body is None or not f.q.startswith('nix::hdf5::'):
            continue
        for d in f.walk():
            if not (d.k == 'call' and d.get('op') in ('->', '*') and len(d.c) == 1 and 'boost::optional' in ((d.callee or {}).get('cls') or '')):
                continue
            p = unwrap(d.c[0])
            if 'H5Group' not in (p.t or '') and 'DataSet' not in (p.t or ''):
                continue
            n += 1
            pt = term(p)
            key = '%s%s|%s' % (f.q, _sk(f), p.src(30))
            facts = sem.facts_at(f, d.id)
            ok = any(pol and (t == pt or (t[:2] == ('m', 'operator bool') and t[2] == pt) or (t[0] == 'op' and t[1] == '!' and False)) for (t, pol) in facts) or \
                any((not pol) and t[0] == 'op' and t[1] == '!' and len(t) == 3 and t[2] == pt for (t, pol) in facts)
            why = 'tested before use'
            if not ok and p.k == 'ref' and p.decl.get('kind') == 'local':
                v = sem.local_vars(f).get(p.decl.get('lid'))
                if v is not None and v.c and v.c[0] is not None:
                    i = unwrap(v.c[0])
                    while i is not None and i.k == 'construct' and _only_arg(i) is not None:
                        i = unwrap(_only_arg(i))
                    # opt(true): created on demand
                    if i is not None and i.k == 'call' and i.get('op') == '()' and len(i.c) >= 2 and term(i.c[1]) == ('k', True):
                        ok = True
                        why = 'created on demand: %s' % i.src(30)
                    elif i is not None and i.k == 'call' and ((i.callee or {}).get('name', '').endswith('_group') or (i.callee or {}).get('name', '') == 'groupForObjectType') and real_args(i) and term(real_args(i)[-1]) == ('k', True):
                        ok = True
                        why = 'created on demand: %s' % i.src(30)
            if not ok and p.k == 'call' and p.get('op') == '()' and len(p.c) >= 2 and term(p.c[1]) == ('k', True):
                ok = True
                why = 'created on demand'
            if not ok and (f.q, p.src(30)) in TABLED:
                rule.ok(key, rep.where(d), f.label(), 'tabled: ' + TABLED[(f.q, p.src(30))], nontrivial=False)
                continue
            rule.check(ok, key, rep.where(d), f.label(), why, 'optional %s is dereferenced without a test on a path where it may be empty' % p.src(30))
    if n < 30:
        raise AnalysisBroken('R-NULL-OPT: only %d optional dereferences found' % n)
    return rule


def run_cstr_args(prog, rep):
    """a C-string function (strlen, strcpy, strcmp, ...) applied to a pointer parameter is guarded by a null test of that parameter:
    libhdf5 hands out null for variable-length strings that were never written, and Variant/Cell accept such pointers"""
    sem = Sem(prog)
    rule = rep.rule('R-NULL-CSTR', 'strlen & co. on a char* parameter only after that parameter was tested against null', floor=1)
    CF = ('strlen', 'strcpy', 'strcmp', 'strncpy', 'strdup', 'strcat')
    n = 0
    for f in sorted(prog.funcs.values(), key=lambda f: (f.file, f.line)):
        if f.body is None or not f.q.startswith('nix::'):
            continue
        for c in f.calls():
            nm = (c.callee.get('name') or '')
            if nm not in CF or c.callee.get('cls'):
                continue
            for a in real_args(c):
                x = unwrap(a) if a is not None else None
                if x is None or x.k != 'ref' or x.decl.get('kind') != 'param' or 'char' not in (x.decl.get('type') or ''):
                    continue
                n += 1
                V = ('v', x.decl.get('lid'), x.decl.get('name'))
                facts = sem.facts_at(f, c.id)
                guarded = any((t == ('b', '==', V, ('k', None)) and pol is False) or (t == ('b', '!=', V, ('k', None)) and pol is True) or (t == V and pol is True) or
                              (isinstance(t, tuple) and t[:2] == ('u', '!') and t[2] == V and pol is False) for (t, pol) in facts)
                # conditional operator: value == nullptr ? 0 : strlen(value)
                for anc in c.ancestors():
                    if anc.k == 'cond' and len(anc.c) == 3:
                        ct = term(unwrap(anc.c[0]))
                        in_false = any(y is c for y in anc.c[2].walk())
                        in_true = any(y is c for y in anc.c[1].walk())
                        if (ct == ('b', '==', V, ('k', None)) and in_false) or (ct == ('b', '!=', V, ('k', None)) and in_true) or (ct == V and in_true):
                            guarded = True
                rule.check(guarded, '%s|%s(%s)' % (re.sub(r'<.*', '', f.q) + '(%s)' % ','.join(p['type'] for p in f.params)[:40], nm, x.decl.get('name')), rep.where(c), f.label(),
                           '%s(%s) only when %s is not null' % (nm, x.decl.get('name'), x.decl.get('name')),
                           '%s(%s) is reached with a null %s (assert() does not exist in the release build): a never-written variable-length string is a null pointer, reading such a cell crashes instead of giving ""' % (nm, x.decl.get('name'), x.decl.get('name')))
    if n < 1:
        raise AnalysisBroken('R-NULL-CSTR: no C-string call on a pointer parameter found (anchor: Variant::set(const char *))')
    return rule


# value types of the library that hold a reference: each confirmed by reading (who creates it, how long it lives)
REF_MEMBERS = {
    ('nix::Hydra', 'value'): 'adapter around the caller\'s container; non-const reference (cannot bind a temporary), created and used inside one DataIO call',
    ('nix::valid::dimTicksMatchData', 'data'): 'validator functor, constructed from a named DataArray inside one validate() expression and used there',
    ('nix::valid::dimLabelsMatchData', 'data'): 'validator functor, constructed from a named DataArray inside one validate() expression and used there',
    ('nix::valid::dimDataFrameTicksMatchData', 'data'): 'validator functor, constructed from a named DataArray inside one validate() expression and used there',
}


def run_ref_members(prog, rep):
    """an object the user may keep (filters, handles, sizes, variants) owns what it needs: a reference member bound to a
    constructor argument dangles as soon as that argument was a temporary (use after free on a later call)"""
    rule = rep.rule('R-REFMEMBER', 'no library value type keeps a reference to a constructor argument (reference-typed data members are exactly the tabled, reviewed ones)', floor=3)
    n = 0
    nrec = 0
    for q, r in sorted(prog.records.items()):
        if not q.startswith('nix::') or q.startswith('nix::hdf5::'):
            continue
        nrec += 1
        for fld in r['fields']:
            t = (fld.get('ctype') or fld['type']).rstrip()
            if not t.endswith('&'):
                continue
            n += 1
            key = '%s::%s' % (q, fld['name'])
            where = '%s:%s' % (prog.rel(r['file']), r['line'])
            reason = REF_MEMBERS.get((q, fld['name']))
            if reason:
                rule.ok(key, where, q, 'tabled: ' + reason, nontrivial=False)
            else:
                rule.bad(key, where, q, 'member %s has reference type %s: an object built from a temporary (e.g. Filter(entity.id())) refers to freed memory when it is used in a later statement' % (fld['name'], t))
    if nrec < 60 or n < 3:
        raise AnalysisBroken('R-REFMEMBER: only %d records / %d reference members seen' % (nrec, n))
    return rule
