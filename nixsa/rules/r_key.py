"""R-KEY storage-key agreement (C02, C13, C14): every persisted field is read under the key (and store kind)
it is written under; creating constructors and the header write what the getters / checkHeader read."""
import re

from ..extract import AnalysisBroken
from ..sem import Sem, Flow, term, unwrap, real_args
from .r_hdr import str_arg

ATTR = ('setAttr', 'getAttr', 'hasAttr', 'removeAttr')
DATA = ('setData', 'getData', 'hasData', 'removeData', 'openData', 'createData')
GRP = ('hasGroup', 'openGroup', 'removeGroup', 'createLink', 'openOptGroup')


_PROG = [None]


def accesses(fn, _depth=0):
    """[(kind, op, key)] storage accesses with their literal key (None when the key is not a literal)"""
    out = []
    for c in fn.calls():
        nm = c.callee.get('name')
        cls = c.callee.get('cls') or ''
        if not cls and _PROG[0] is not None and _depth == 0 and (c.callee.get('q') or '').startswith('nix::hdf5::'):
            # a file-local helper that is given the key as a literal: its accesses are the caller's (one level)
            tgt = _PROG[0].funcs.get(c.callee.get('usr'))
            lits = {j: str_arg(a) for j, a in enumerate(real_args(c)) if a is not None and isinstance(str_arg(a), str)}
            if tgt is not None and tgt.body is not None and lits:
                for kind, op, k, c2 in accesses(tgt, 1):
                    if k is None:
                        a2 = real_args(c2)
                        ka = a2[1] if op == 'createLink' and len(a2) > 1 else (a2[0] if a2 else None)
                        r = unwrap(ka) if ka is not None else None
                        if r is not None and r.k == 'ref' and r.decl.get('kind') == 'param' and r.decl.get('pidx') in lits:
                            out.append((kind, op, lits[r.decl.get('pidx')], c))
            continue
        if not cls.startswith('nix::hdf5::'):
            continue
        kind = 'attr' if nm in ATTR else ('data' if nm in DATA else ('group' if nm in GRP else None))
        if kind is None:
            continue
        args = real_args(c)
        if not args:
            continue
        karg = args[1] if nm == 'createLink' and len(args) > 1 else args[0]
        k = str_arg(karg)
        out.append((kind, nm, k if isinstance(k, str) else None, c))
    return out


def role(fn):
    if fn.kind == 'ctor':
        return 'ctor'
    if fn.is_const:
        return 'reader'
    if fn.params and any('none_t' in p['type'] for p in fn.params):
        return 'clearer'
    if fn.params:
        return 'writer'
    return 'other'


def run(prog, rep, only=None, floor=40):
    _PROG[0] = prog
    sem = Sem(prog)
    rule = rep.rule('R-KEY', 'per backend field: writer, clearer and reader use the same literal key and store kind; constructors/header write what getters/checkHeader read', floor=floor)
    classes = sorted(set(f.cls for f in prog.funcs.values() if f.cls and f.cls.startswith('nix::hdf5::') and f.cls.endswith('HDF5') and (only is None or f.cls in only)))
    nfields = 0
    allkeys = set()
    for cls in classes:
        by_name = {}
        for f in prog.methods_of(cls):
            if f.body is None or f.kind in ('dtor',):
                continue
            by_name.setdefault(f.name, []).append(f)
        for name, fs in sorted(by_name.items()):
            roles = {}
            for f in fs:
                roles.setdefault(role(f), []).append(f)
            if 'writer' not in roles or 'reader' not in roles:
                continue
            def keys(fl, ops):
                ks = set()
                dyn = []
                for f in fl:
                    for kind, op, k, c in accesses(f):
                        if op in ops:
                            if k is None:
                                dyn.append(c)
                            else:
                                ks.add((kind, k))
                return ks, dyn
            wk, wd = keys(roles['writer'], ('setAttr', 'setData', 'createLink', 'createData', 'openData'))
            rk, rd = keys(roles['reader'], ('getAttr', 'getData', 'openGroup', 'hasAttr', 'hasData', 'hasGroup', 'openData'))
            ck, cd = keys(roles.get('clearer', []), ('removeAttr', 'removeData', 'removeGroup', 'setExtent'))
            if not wk:
                continue
            if wd:
                continue   # keys derived from entity names/ids (containers of links): not a fixed field
            nfields += 1
            allkeys |= wk
            key = '%s::%s' % (cls, name)
            missing = [k for k in wk if k not in rk]
            rule.check(not missing, key + '|write-read', rep.where(roles['writer'][0]), key,
                       'written %s is read back by the getter' % sorted(wk), 'the setter writes %s but the getter reads %s: the value is lost (now or after reopen)' % (sorted(missing), sorted(rk)))
            # a value setter stores: it never removes the key it is responsible for (that is the none_t overload's job)
            for wf in roles['writer']:
                if any('none_t' in p['type'] for p in wf.params):
                    continue
                for kind, op, k, c in accesses(wf):
                    if op in ('removeAttr',) and ((kind, k) in wk or k in wk):
                        rule.bad('%s|%s|setter-removes' % (key, k), rep.where(c), wf.label(), 'the value setter removes "%s" for some values instead of storing them: such a value (0, empty) reads back as "not set"' % k)
            # write-through: the stored value derives from the setter's parameter
            from ..sem import Flow
            for wf in roles['writer']:
                if any('none_t' in p['type'] for p in wf.params):
                    continue
                fl = Flow(sem, wf)
                pnames = set(p['name'] for p in wf.params)
                for kind, op, k, c in accesses(wf):
                    if op in ('setAttr', 'setData') and k is not None and len(real_args(c)) >= 2 and (c.callee.get('cls') or '').startswith('nix::hdf5::'):
                        varg = real_args(c)[1]
                        org = fl.origins(varg)
                        okv = any(o[0] == 'param' and o[1] in pnames for o in org)
                        rule.check(okv, '%s|%s|value-from-parameter' % (key, k), rep.where(c), wf.label(), 'the value stored under "%s" derives from the parameter' % k,
                                   'the value stored under "%s" (%s) does not derive from the setter\'s parameter' % (k, varg.src(40)))
            # write-total (C13j): a value setter stores (or removes) on every normally returning path - no value is "not worth storing"
            MUT = ('setAttr', 'setData', 'removeAttr', 'removeData', 'removeGroup', 'createData', 'createLink', 'setExtent', 'write', 'openGroup')
            for wf in roles['writer']:
                if any('none_t' in p['type'] for p in wf.params):
                    continue
                cfg = wf.cfg
                if cfg is None:
                    continue
                mut = [c for kind, op, k, c in accesses(wf) if op in MUT]
                mut += [c for c in wf.calls() if (c.callee.get('cls') or '').startswith('nix::hdf5::') and c.callee.get('name') in MUT]
                mut += [c for c in wf.calls() if (c.callee.get('cls') == cls and not (c.callee.get('sig') or '').endswith(' const') and c.callee.get('kind') not in ('ctor', 'conv'))]
                mblocks = set()
                for c in mut:
                    x = c
                    while x is not None and cfg.pos.get(x.id) is None:
                        x = x.p
                    if x is not None:
                        mblocks.add(cfg.pos[x.id][0])
                dead = set(b.id for b in cfg.blocks.values() if b.noreturn or any(wf.nodes.get(e) is not None and wf.nodes[e].k == 'throw' for e in b.elems))
                if not mblocks:
                    continue
                skip = cfg.reaches(cfg.entry, cfg.exit, avoid=dead | mblocks)
                rule.check(not skip, '%s%s|write-total' % (key, '(%s)' % ','.join(p['type'] for p in wf.params)), rep.where(wf), wf.label(),
                           'every normally returning path stores or removes the field',
                           'a path through the setter returns without storing or removing anything: for some argument (empty, default, equal) the old stored value survives and is read back')
            if roles.get('clearer') and ck:
                bad = [k for k in ck if k not in wk] + [k for k in wk if k not in ck and k[0] != 'group' and not any(k2[1] == k[1] for k2 in ck)]
                rule.check(not bad, key + '|write-clear', rep.where(roles['clearer'][0]), key, 'the none_t overload removes %s' % sorted(ck),
                           'setter writes %s but the clearing overload removes %s' % (sorted(wk), sorted(ck)))
    if nfields < (25 if only is None else 3):
        raise AnalysisBroken('R-KEY: only %d backend fields found' % nfields)
    if only is not None:
        return rule
    # creating constructors: keys written there are read by a const member of the hierarchy
    readers = {}
    for f in prog.funcs.values():
        if f.cls and f.cls.startswith('nix::hdf5::') and f.cls.endswith('HDF5') and f.is_const and f.body is not None:
            for kind, op, k, c in accesses(f):
                if k is not None and op in ('getAttr', 'getData', 'openGroup', 'hasAttr', 'hasData', 'hasGroup', 'openData'):
                    readers.setdefault((kind, k), set()).add(f.q)
    for f in sorted(prog.funcs.values(), key=lambda f: (f.file, f.line)):
        if f.kind != 'ctor' or not f.cls or not f.cls.startswith('nix::hdf5::') or not f.cls.endswith('HDF5') or f.body is None:
            continue
        for kind, op, k, c in accesses(f):
            if op in ('setAttr', 'setData') and k is not None:
                rule.check((kind, k) in readers, '%s%s|ctor-key|%s' % (f.q, '(%d)' % len(f.params), k), rep.where(c), f.label(),
                           'constructor writes %s "%s", read by %s' % (kind, k, sorted(readers.get((kind, k), []))[:2]),
                           'constructor writes %s "%s" which no getter reads' % (kind, k))
    # header
    ch = prog.fn('nix::hdf5::FileHDF5::createHeader')
    ck = prog.fn('nix::hdf5::FileHDF5::checkHeader')
    w = set(k for kind, op, k, c in accesses(ch) if op == 'setAttr')
    r = set(k for kind, op, k, c in accesses(ck) if op in ('getAttr', 'hasAttr'))
    rule.check(w == r and w == {'format', 'version', 'id'}, 'FileHDF5|header-keys', rep.where(ch), ch.q, 'createHeader writes exactly the attributes checkHeader reads: %s' % sorted(w),
               'createHeader writes %s, checkHeader reads %s' % (sorted(w), sorted(r)))
    rep.extra['storage_keys'] = sorted('%s:%s' % k for k in allkeys)
    return rule


def _ancestors(prog, cls, seen=None):
    seen = set() if seen is None else seen
    if cls in seen or cls is None:
        return seen
    seen.add(cls)
    for b in (prog.records.get(cls) or {}).get('bases', []):
        _ancestors(prog, b.get('q'), seen)
    return seen


def _related(prog, a, b):
    """same class hierarchy line: a is b, derives from b, or b derives from a"""
    return a == b or b in _ancestors(prog, a) or a in _ancestors(prog, b)


UNLINKS = ('removeGroup', 'removeAllLinks', 'removeData', 'renameGroup')


def _cache_coherent(prog, cls, member):
    """a container member used as a lookup cache stays coherent only if every function of the class line that unlinks or renames
    an object empties it (clear), or erases under a canonical key while every entry is stored under that same canonical key"""
    from ..sem import Flow
    sem = Sem(prog)
    # the declaring class and the classes derived from it (the ones that can reach the member)
    line = [c for c in prog.records if c.startswith('nix::hdf5::') and (c == cls or cls in _ancestors(prog, c))]
    fills, erases, clears = [], [], []
    users = []
    for f in prog.funcs.values():
        if f.body is None or f.cls not in line:
            continue
        for c in f.walk():
            if c.k != 'call' or not c.c:
                continue
            o = unwrap(c.c[0])
            if not (o.k == 'member' and o.decl.get('name') == member):
                continue
            nm = (c.callee or {}).get('name')
            if nm in ('operator[]', 'emplace', 'insert', 'try_emplace', 'push_back', 'emplace_back', 'insert_or_assign'):
                fills.append((f, c))
            elif nm == 'erase':
                erases.append((f, c))
            elif nm == 'clear':
                clears.append((f, c))
    if not fills:
        return True, 'never filled'

    def canonical(f, node):
        fl = Flow(sem, f)
        org = fl.origins(node)
        acc = set(o[1] for o in org if o[0] == 'call' and o[1] in ('id', 'name') and o[2].get('member'))
        raw = set(o[1] for o in org if o[0] == 'param')
        return acc, raw
    fillkeys = []
    for f, c in fills:
        a = real_args(c)
        if a:
            fillkeys.append((f, canonical(f, a[0])))
    unlinkers = []
    for f in prog.funcs.values():
        if f.body is None or f.cls not in line or f.kind in ('ctor', 'dtor'):
            continue
        if any((c.callee or {}).get('name') in UNLINKS for c in f.calls()):
            unlinkers.append(f)
    if not unlinkers:
        return True, 'no function of %s unlinks or renames objects' % cls
    one_key = len(set(frozenset(k[0]) for f, k in fillkeys)) == 1 and all(k[0] and not k[1] for f, k in fillkeys)
    for u in sorted(unlinkers, key=lambda f: f.q):
        if any(f is u for f, c in clears):
            continue
        er = [c for f, c in erases if f is u]
        if er and one_key:
            acc, raw = canonical(u, real_args(er[0])[0])
            if acc and not raw and frozenset(acc) == frozenset(fillkeys[0][1][0]):
                continue
        filled_in = sorted(set(f.q.split('::')[-1] for f, c in fills))
        if er:
            return False, ('%s unlinks an object and erases only the key it was given, but entries are stored by %s under the caller\'s lookup string (name or id): '
                           'the same object cached under its other key stays reachable after the delete and everything written through it is lost on close' % (u.q, '/'.join(filled_in)))
        return False, ('%s unlinks or renames objects without emptying the table filled by %s: a later lookup answers from the stale entry '
                       '(deleted entity still found / another entity returned for the id)' % (u.q, '/'.join(filled_in)))
    return True, 'emptied or erased under its canonical key by every unlinking function (%s)' % ', '.join(sorted(u.q.split('::')[-1] for u in unlinkers))


def _dom(f, a, b):
    def listed(n):
        x = n
        while x is not None and f.cfg.pos.get(x.id) is None:
            x = x.p
        return x
    la, lb = listed(a), listed(b)
    return la is not None and lb is not None and f.cfg.dominates(la.id, lb.id)


def run_handles_only(prog, rep):
    """backend entity classes hold only handles (no value cache that could diverge from the file)"""
    rule = rep.rule('R-NOCACHE', 'backend entity classes own only handle-typed members (no cached values)', floor=10)
    HANDLE = re.compile(r'^(nix::hdf5::)?(H5Group|optGroup|DataSet)$|^std::(shared|weak)_ptr<.*>$|^(nix::)?(Compression|FormatVersion|FileMode|ndsize_t)$|^hid_t$')
    CONTAINER = re.compile(r'^std::(unordered_)?(multi)?(map|set)<|^std::(vector|list|deque)<')
    for q, rec in sorted(prog.records.items()):
        if not q.startswith('nix::hdf5::') or not q.endswith('HDF5') or rec.get('abstract') and not rec['fields']:
            continue
        bad = []
        caches = []
        for f in rec['fields']:
            ty = re.sub(r'^(mutable |const )+', '', f['type']).strip()
            if HANDLE.match(ty):
                continue
            if CONTAINER.match(ty) or CONTAINER.match(f.get('ctype') or ''):
                caches.append(f)
            else:
                bad.append(f)
        rule.check(not bad, '%s|members' % q, '%s:%s' % (prog.rel(rec['file']), rec['line']), q, 'members: %s' % [f['name'] for f in rec['fields']],
                   'value-typed member(s) %s cache file content in the object' % [(f['name'], f['type']) for f in bad])
        for f in caches:
            ok, why = _cache_coherent(prog, q, f['name'])
            rule.check(ok, '%s|cache|%s' % (q, f['name']), '%s:%s' % (prog.rel(rec['file']), rec['line']), q, 'lookup table %s: %s' % (f['name'], why),
                       'lookup table %s (%s) can go stale: %s' % (f['name'], f['type'], why))
    # a member that is written inside a const member function is a lazily filled cache (only 'mutable' members can be), whatever its type
    nconst = 0
    lazy = []
    for f in sorted(prog.funcs.values(), key=lambda f: (f.file, f.line)):
        if f.body is None or not (f.cls or '').startswith('nix::hdf5::') or not (f.cls or '').endswith('HDF5') or not f.is_const:
            continue
        nconst += 1
        for a in f.walk():
            tgt = None
            if a.k == 'assign' or (a.k == 'call' and a.get('op') in ('=', '+=')):
                tgt = unwrap(a.c[0]) if a.c else None
            elif a.k == 'call' and a.get('member') and (a.callee or {}).get('name') in ('reset', 'swap', 'emplace', 'insert', 'push_back', 'operator[]') and a.c:
                tgt = unwrap(a.c[0])
            if tgt is not None and tgt.k == 'member' and tgt.decl.get('kind') == 'field' and (not tgt.c or tgt.c[0] is None or unwrap(tgt.c[0]).k == 'this'):
                lazy.append((f, a, tgt.decl.get('name')))
            # a member handed to a callee as a non-const reference (out parameter) is filled by that call
            if a.k == 'call' and a.callee and not a.get('op'):
                from ..sem import split_sig
                pts = split_sig(a.callee.get('sig') or '()')
                for i, arg in enumerate(real_args(a)):
                    if arg is None or i >= len(pts):
                        continue
                    pt = pts[i]
                    if pt.endswith('&') and not pt.endswith('&&') and not pt.startswith('const '):
                        x = unwrap(arg)
                        if x.k == 'member' and x.decl.get('kind') == 'field' and (not x.c or x.c[0] is None or unwrap(x.c[0]).k == 'this'):
                            lazy.append((f, a, x.decl.get('name')))
    if nconst < 50:
        raise AnalysisBroken('R-NOCACHE: only %d const backend methods found' % nconst)
    rule.check(not lazy, 'backend|no-lazy-member', 'backend/hdf5', 'nix::hdf5::*HDF5', 'no const backend method writes a data member (%d const methods)' % nconst,
               '; '.join('%s fills member %s at %s: the object keeps answering from it after the entity it points to was deleted or changed through another handle' % (f.q, nm, rep.where(a)) for f, a, nm in lazy[:2]))
    # the one handle cache: optGroup. Either every access looks the container up again, or no cached container is ever unlinked.
    og = prog.fn('nix::hdf5::optGroup::operator()')
    sem = Sem(prog)
    rets = [n for n in og.walk() if n.k == 'return']
    lookups = [c for c in og.calls(name='hasGroup')]
    if not rets:
        raise AnalysisBroken('optGroup::operator() has no return')
    fresh = bool(lookups)
    unlooked = []
    for r in rets:
        facts = sem.facts_at(og, r.id)
        decided = any(t[:2] == ('m', 'hasGroup') for (t, pol) in facts) or any(_dom(og, l, r) for l in lookups)
        if not decided:
            fresh = False
            unlooked.append(rep.where(r))
    # a remembered *negative* answer is never safe: another handle on the same entity creates the container lazily at any time
    from ..absint import GenericInterp
    it = GenericInterp(prog)
    negative = []
    try:
        res = it.enumerate(og, this='THIS', args=[('create',)])
    except Exception as e:
        raise AnalysisBroken('R-NOCACHE: cannot enumerate optGroup::operator(): %s' % e)
    for assign, out, log, fields in res:
        if out[0] != 'ret':
            continue
        looked = any(k[0] == 'bool' and k[1] == 'hasGroup' for k in assign)
        created = any('openGroup' in repr(k) for k in assign) or 'openGroup' in repr(out[1])
        if looked or created:
            continue
        present = [v for k, v in assign.items() if k[0] == 'truthy' and 'mem' in repr(k) and "'g'" in repr(k)]
        if not (present and present[0] is True):
            negative.append(sorted('%s=%s' % (repr(k)[:50], v) for k, v in assign.items()))
    rule.check(not negative, 'optGroup|no-negative-memory', rep.where(og), og.q, 'a "container absent" answer always comes from a fresh lookup',
               'optGroup can answer "absent" (or return its remembered state) without looking the group up (%s): a container created through another handle of the same entity stays invisible to this one - '
               'duplicate tests pass and an existing child is re-created with a new id' % (negative[0] if negative else ''))
    containers = {}
    for f in prog.funcs.values():
        if f.body is None:
            continue
        for c in f.calls(name='openOptGroup'):
            k = str_arg(real_args(c)[0]) if real_args(c) else None
            if isinstance(k, str):
                containers.setdefault(k, set()).add(f.cls)
    if len(containers) < 8:
        raise AnalysisBroken('R-NOCACHE: only %d optional container groups found' % len(containers))
    unlinked = []
    for f in prog.funcs.values():
        if f.body is None or not (f.cls or '').startswith('nix::hdf5::') or not (f.cls or '').endswith('HDF5'):
            continue
        for c in f.calls(name='removeGroup'):
            k = str_arg(real_args(c)[0]) if real_args(c) else None
            if isinstance(k, str) and k in containers and any(_related(prog, f.cls, oc) for oc in containers[k]):
                unlinked.append('%s unlinks "%s" at %s' % (f.q, k, rep.where(c)))
    rule.check(fresh or not unlinked, 'optGroup|cached-handle-vs-unlink', rep.where(og), og.q,
               ('every access looks the container up again (hasGroup decides every return); ' if fresh else 'cached handle may be returned without lookup, but ') +
               ('no container group is ever unlinked' if not unlinked else 'containers are unlinked: %s' % unlinked[:2]) + ' (%d containers)' % len(containers),
               'optGroup returns its cached handle without looking the group up again (return at %s) while %s: an entity object that already used the container keeps writing '
               'into the unlinked group, and those writes are gone after close' % (unlooked[:1], '; '.join(unlinked[:2])))
    # links are hard links created in one place
    creators = set()
    for f in prog.funcs.values():
        if f.body is None:
            continue
        for c in f.calls():
            if (c.callee.get('name') or '').startswith('H5Lcreate') and not c.callee.get('cls'):
                creators.add((f.q, c.callee.get('name')))
    rule.check(creators == {('nix::hdf5::H5Group::createLink', 'H5Lcreate_hard')}, 'links|hard-only', 'backend/hdf5/h5x/H5Group.cpp:0', 'H5Lcreate*',
               'entity links are hard links created only by H5Group::createLink', 'links are created by %s' % sorted(creators))
    return rule


def run_getters(prog, rep, only=None, floor=10):
    """optional-valued getters answer from the stored attribute alone: 'not set' only when the key is absent"""
    from ..absint import GenericInterp
    rule = rep.rule('R-GETTER', 'an optional-valued backend getter reports "not set" only on a path that found its key absent (format < 1.1.1 property values excepted)', floor=floor)
    ACC = ('getAttr', 'hasAttr', 'getData', 'hasData', 'hasGroup', 'openGroup', 'openData')
    n = 0
    for f in sorted(prog.funcs.values(), key=lambda f: (f.file, f.line)):
        if not (f.cls and f.cls.startswith('nix::hdf5::') and f.cls.endswith('HDF5') and f.is_const and f.body is not None and 'optional' in (f.ret or '') and not f.params):
            continue
        if only is not None and f.cls not in only:
            continue
        if 'H5Group' in (f.ret or ''):
            continue
        it = GenericInterp(prog, watch=lambda n: (n.callee or {}).get('name') in ACC)
        try:
            res = it.enumerate(f, this='THIS', args=[])
        except Exception as e:   # an idiom the interpreter does not know: inconclusive, not a verdict
            raise AnalysisBroken('R-GETTER: cannot enumerate %s: %s' % (f.q, e))
        n += 1
        probs = []
        for assign, out, log, fields in res:
            if out[0] != 'ret':
                continue
            oldfmt = any('FormatVersion' in repr(k) and v for k, v in assign.items())
            consulted = [l for l in log if l[0] in ACC and len(l) > 2 and isinstance(l[2], str)]
            empty = isinstance(out[1], tuple) and out[1][:2] == ('new', 'boost::optional') and len(out[1]) == 2
            if empty and not consulted and not oldfmt:
                why = [repr(k)[:70] for k, v in assign.items()]
                probs.append('returns "not set" without looking at the stored key (decided by %s): a stored value is hidden' % (why[:2] or 'nothing'))
            if empty and consulted:
                found = [v for k, v in assign.items() if k[0] == 'bool' and k[1] in ('getAttr', 'hasAttr', 'hasData', 'hasGroup')]
                if found and all(found):
                    probs.append('returns "not set" although the key was found')
        rule.check(not probs, '%s::%s' % (f.cls, f.name), rep.where(f), f.label(), 'every "not set" outcome follows an absent key (%d paths)' % len(res), '; '.join(sorted(set(probs))[:2]))
    if n < floor:
        raise AnalysisBroken('R-GETTER: only %d optional getters found' % n)
    return rule


CONST_MUTATORS = ('setAttr', 'setData', 'createData', 'createLink', 'removeAttr', 'removeData', 'removeGroup', 'removeAllLinks', 'renameGroup', 'setExtent', 'write', 'deleteLink', 'createGroup')


def run_const_pure(prog, rep):
    """a const member of a backend entity class (a getter) performs no storage mutation: no creating container lookup, no set/create/remove"""
    rule = rep.rule('R-GETPURE', 'const backend methods (getters, counts, has-queries) never create or modify anything in the file', floor=100)
    n = 0
    for f in sorted(prog.funcs.values(), key=lambda f: (f.file, f.line)):
        if f.body is None or not (f.cls or '').startswith('nix::hdf5::') or not (f.cls or '').endswith('HDF5') or not f.is_const:
            continue
        n += 1
        bad = []
        for c in f.calls():
            nm = c.callee.get('name')
            cls = c.callee.get('cls') or ''
            if not cls.startswith('nix::hdf5::'):
                continue
            a = real_args(c)
            if nm in CONST_MUTATORS and ('H5Group' in cls or 'DataSet' in cls or 'LocID' in cls or 'H5Object' in cls):
                bad.append('%s at line %s' % (nm, c.l))
            elif (nm == 'operator()' and 'optGroup' in cls) or nm == 'groupForObjectType':
                args = [x for x in c.c[1:]] if nm == 'operator()' else a[1:]
                last = args[-1] if args else None
                if last is None:
                    create = ('k', False)
                elif last.k == 'defarg':
                    create = term(unwrap(last.c[0])) if last.c and last.c[0] is not None else ('k', False)
                else:
                    create = term(unwrap(last))
                own_param = create[0] == 'v' and any(p['lid'] == create[1] for p in f.params)
                if create != ('k', False) and not own_param:
                    bad.append('container lookup %s creates the group when it is missing (line %s)' % (c.src(30), c.l))
            elif nm == 'openGroup' and 'H5Group' in cls:
                second = a[1] if len(a) > 1 else None
                create = ('k', True)
                if second is not None:
                    create = term(unwrap(second.c[0])) if second.k == 'defarg' and second.c else term(unwrap(second))
                if create != ('k', False):
                    # opening a group that is known to exist is not a creation: accept when dominated by a has-test on the same name
                    facts = Sem(prog).facts_at(f, c.id) if False else []
                    bad_here = True
                    key = term(unwrap(a[0])) if a else None
                    for (t, pol) in _facts(prog, f, c):
                        if pol and isinstance(t, tuple) and len(t) >= 3 and t[0] in ('m', 'c') and str(t[1]).split('::')[-1].startswith('has') and key in t:
                            bad_here = False
                    if bad_here:
                        bad.append('openGroup(%s) with create=true and no preceding has-test (line %s)' % (a[0].src(20) if a else '', c.l))
        rule.check(not bad, '%s%s' % (f.q, '(%d)' % len(f.params)), rep.where(f), f.label(), 'no mutating storage call', 'a getter writes to the file: %s - on a ReadOnly file the query throws, on a writable one reading changes the file' % '; '.join(bad[:2]))
    if n < 100:
        raise AnalysisBroken('R-GETPURE: only %d const backend methods found' % n)
    return rule


_SEMC = {}


def _facts(prog, f, c):
    s = _SEMC.get(id(prog))
    if s is None:
        s = _SEMC[id(prog)] = Sem(prog)
    return s.facts_at(f, c.id)


# front-end setters that normalise a text before storing it; confirmed by reading, one line of reason each
SETTER_NORMALISERS = {
    ('nix::Property::unit', 'deblankString'): 'a property unit is stored without blanks (documented behaviour of Property::unit)',
}


def front_end_classes(prog):
    return tuple(sorted(set(f.cls for f in prog.funcs.values() if f.cls and f.cls.startswith('nix::') and '<' not in f.cls and
                            not any(f.cls.startswith(x) for x in ('nix::hdf5', 'nix::base', 'nix::util', 'nix::valid')))))


def run_setter_verbatim(prog, rep, classes=('nix::Property',), floor=2):
    if classes == 'all':
        classes = front_end_classes(prog)
    """a front-end setter hands the caller's value itself to the backend setter of the same name"""
    rule = rep.rule('R-SETVERB', 'front-end setters of %s pass the value they are given to the backend setter of the same name verbatim (or through the one tabled normaliser)' % (', '.join(classes) if len(classes) < 6 else '%d front-end classes' % len(classes)), floor=floor)
    sem = Sem(prog)
    n = 0
    for f in sorted(prog.funcs.values(), key=lambda f: (f.file, f.line)):
        if f.body is None or f.cls not in classes or not f.params:
            continue
        fl = None
        for c in f.calls():
            if c.callee.get('name') != f.name or not (c.callee.get('cls') or '').startswith('nix::base::I'):
                continue
            for j, a in enumerate(real_args(c)):
                if a is None or unwrap(a).k == 'defarg':
                    continue
                fl = fl or Flow(sem, f)
                org = fl.origins(unwrap(a))
                calls = sorted(set(o[1] for o in org if o[0] == 'call' and o[1] not in CONTAINER_ACCESS))
                if set(calls) & {'element_data_type', 'data', 'shape'}:
                    continue        # Hydra adapter around the caller's container (buffer pointer, element type, shape): R-BUF / R-DISPATCH
                other = sorted(set(o[0] for o in org if o[0] not in ('call', 'param', 'const', 'lit')))
                pnames = [o[1] for o in org if o[0] == 'param']
                ptypes = [p['type'] for p in f.params if p['name'] in pnames]
                if not pnames or not all(('std::string' in t or 'basic_string' in t or 'Variant' in t or t.replace('const ', '') in ('double', 'float')) for t in ptypes):
                    continue        # built from other data, or an entity handle (identified by its id): other rules
                n += 1
                key = '%s%s|arg%d' % (f.q, f.sig, j)
                bad = [x for x in calls if (f.q, x) not in SETTER_NORMALISERS]
                if bad or other:
                    rule.bad(key, rep.where(c), f.label(), 'the value handed to the backend is the parameter passed through %s: what is read back differs from what was assigned for some texts' % ', '.join(bad + other))
                elif calls:
                    rule.ok(key, rep.where(c), f.label(), 'tabled normaliser %s: %s' % (calls[0], SETTER_NORMALISERS[(f.q, calls[0])]))
                else:
                    rule.ok(key, rep.where(c), f.label(), 'verbatim')
    if n < floor:
        raise AnalysisBroken('R-SETVERB: only %d setter arguments found' % n)
    return rule


# element access of a container is not a transformation of the element
CONTAINER_ACCESS = ('operator[]', 'at', 'front', 'back', 'begin', 'end', 'cbegin', 'cend', 'operator*', 'operator->', 'get', 'value')

# encoders between a setter's parameter and the stored attribute; each has its own codec rule
STORE_ENCODERS = {
    'timeToStr': 'time stamps are stored as ISO text (R-TIMECODEC)',
    'linkTypeToString': 'LinkType is stored by name (R-CODEC-LINK)',
    'dimensionTypeToStr': 'DimensionType is stored by name (R-CODEC-DIM)',
    'size': 'number of columns sizes the units vector in DataFrameHDF5::createData',
}


def run_store_verbatim(prog, rep, floor=25):
    """backend setters store the value they are given: parameter -> setAttr/setData with nothing but a tabled encoder between"""
    rule = rep.rule('R-STOREVERB', 'a backend function that stores a value derived from one of its parameters stores the parameter itself, or its image under a tabled encoder (time stamp, enum name)', floor=floor)
    sem = Sem(prog)
    n = 0
    for f in sorted(prog.funcs.values(), key=lambda f: (f.file, f.line)):
        if f.body is None or not (f.cls or '').startswith('nix::hdf5::') or not f.params:
            continue
        fl = None
        k = 0
        for c in f.calls():
            if c.callee.get('name') not in ('setAttr', 'setData') or len(real_args(c)) < 2:
                continue
            fl = fl or Flow(sem, f)
            org = fl.origins(real_args(c)[1])
            if not any(o[0] == 'param' for o in org):
                continue
            n += 1
            k += 1
            calls = sorted(set(o[1] for o in org if o[0] == 'call' and o[1] not in CONTAINER_ACCESS))
            bad = [x for x in calls if x not in STORE_ENCODERS]
            key = '%s%s|store%d' % (f.q, f.sig, k)
            if bad:
                rule.bad(key, rep.where(c), f.label(), 'the stored value is the parameter passed through %s: the getter returns something else than what was set for some values' % ', '.join(bad))
            else:
                rule.ok(key, rep.where(c), f.label(), 'stored verbatim' if not calls else 'stored through tabled encoder %s' % ', '.join(calls))
    if n < floor:
        raise AnalysisBroken('R-STOREVERB: only %d stores found' % n)
    return rule


def _strip_conv(n):
    while True:
        n = unwrap(n)
        if n is not None and n.k in ('construct', 'cast'):
            a = [c for c in n.c if c is not None and c.k != 'defarg']
            if len(a) == 1:
                n = a[0]
                continue
        return n


def run_getter_verbatim(prog, rep, floor=60):
    """a parameterless front-end getter returns what the backend getter of the same name returns"""
    rule = rep.rule('R-GETVERB', 'a parameterless front-end getter that asks the backend getter of the same name returns that answer itself (conversions to the front-end type only; for bool a conjunction with the handle test)', floor=floor)
    n = 0
    done = set()
    for f in sorted(prog.funcs.values(), key=lambda f: (f.file, f.line, f.q)):
        if f.body is None or f.params or not (f.cls or '').startswith('nix::') or f.ret == 'void':
            continue
        if any((f.cls or '').startswith(x) for x in ('nix::hdf5', 'nix::util', 'nix::valid')):
            continue
        same = [c for c in f.calls() if c.callee.get('name') == f.name and (c.callee.get('cls') or '').startswith('nix::base::I')]
        if not same:
            continue
        pat = (getattr(f, 'pattern', None) or f.q, f.file, f.line)
        if pat in done:
            continue        # one obligation per written function, not per instantiation
        done.add(pat)
        par = {}
        for x in f.walk():
            for c in x.c:
                if c is not None:
                    par[c.id] = x
        for i, c in enumerate(same):
            cur = c
            while cur.id in par and par[cur.id].k not in ('return', 'var', 'compound', 'if', 'declstmt'):
                cur = par[cur.id]
            top = par.get(cur.id)
            n += 1
            key = '%s%s|%d' % (re.sub(r'<.*?>', '<>', f.q), f.sig, i)
            s = _strip_conv(cur)
            if s is not None and s.id == c.id and top is not None and top.k == 'var':
                # named temporary: it must reach the return unmodified
                lid = top.get('lid')
                why = None
                if Sem(prog).mods(f).get(lid):
                    why = 'modified at line %s' % Sem(prog).mods(f)[lid][0].l
                for x in f.walk():
                    if why or x.k != 'ref' or x.decl.get('lid') != lid:
                        continue
                    y = x
                    through = False
                    while y.id in par:
                        p2 = par[y.id]
                        if p2.k == 'call' and p2.get('op') in ('->', '*', '[]') and p2.c and p2.c[0] is not None and unwrap(p2.c[0]).id == unwrap(y).id:
                            through = True
                        elif p2.k == 'call' and p2.get('member') and p2.c and unwrap(p2.c[0]).id == unwrap(y).id:
                            if through and not (p2.callee or {}).get('sig', '').endswith(' const'):
                                why = 'its value is changed by %s' % p2.src(40)
                            break
                        elif p2.k in ('cast', 'paren', 'member') or unwrap(p2).id == unwrap(y).id:
                            pass
                        else:
                            break
                        y = p2
                rets = [r for r in f.walk() if r.k == 'return' and r.c and r.c[0] is not None]
                direct = [r for r in rets if (lambda z: z is not None and z.k == 'ref' and z.decl.get('lid') == lid)(_strip_conv(r.c[0]))]
                if not why and not direct:
                    why = 'the named temporary is not what is returned'
                if why:
                    rule.bad(key, rep.where(c), f.label(), 'the backend answer is kept in %s and %s before it is returned' % (top.get('name'), why))
                else:
                    rule.ok(key, rep.where(c), f.label(), 'returns backend()->%s() through the unmodified temporary %s' % (f.name, top.get('name')))
                continue
            if s is not None and s.id == c.id:
                rule.ok(key, rep.where(c), f.label(), 'returns backend()->%s() itself' % f.name)
                continue
            # bool idiom: handle test && backend answer
            ops = []
            y = c
            okb = f.ret == 'bool'
            while okb and y.id != cur.id:
                y = par[y.id]
                if y.k in ('binop',) and y.get('op') in ('&&', '||'):
                    continue
                if y.k in ('cast', 'paren', 'construct', 'exprwithcleanups') or unwrap(y).id != y.id:
                    continue
                okb = False
            if okb:
                rule.ok(key, rep.where(c), f.label(), 'bool: the backend answer combined by && / || only (%s)' % cur.src(50))
            else:
                rule.bad(key, rep.where(c), f.label(), 'the backend answer is passed through %s before it is returned: the getter does not return what was stored for some values' % cur.src(60))
    if n < floor:
        raise AnalysisBroken('R-GETVERB: only %d getters found' % n)
    return rule


def run_ctor_pairs(prog, rep):
    """the creating and the opening constructor of a backend class bind every container member to the same group name"""
    rule = rep.rule('R-CTORPAIR', 'all constructors of a backend class open each container member under the same literal group name (what the creating handle writes is what a handle opened later reads)', floor=8)
    by = {}
    for f in sorted(prog.funcs.values(), key=lambda f: (f.file, f.line)):
        if f.body is None or f.kind != 'ctor' or not (f.cls or '').startswith('nix::hdf5::'):
            continue
        got = {}
        for x in f.walk():
            tgt = None
            if ((x.k == 'call' and x.get('op') == '=') or x.k == 'assign') and len(x.c) == 2 and x.c[1] is not None:
                tgt, src = term(unwrap(x.c[0])), x.c[1]
            elif x.k == 'ctorinit' and x.a.get('field'):
                tgt, src = ('f', x.a.get('field')), x
            if tgt is None:
                continue
            cs = [c for c in src.walk() if c.k == 'call' and (c.callee or {}).get('name') in ('openOptGroup', 'openGroup')]
            if cs:
                a = [term(unwrap(y)) for y in real_args(cs[0]) if y is not None]
                got[tgt] = (a[0] if a else None, cs[0])
        if got:
            by.setdefault(f.cls, []).append((f, got))
    n = 0
    for cls, lst in sorted(by.items()):
        if len(lst) < 2:
            continue
        members = sorted(set(k for f, g in lst for k in g), key=repr)
        for mbr in members:
            n += 1
            vals = [(f, g.get(mbr)) for f, g in lst]
            names = set((v[0] if v is not None else None) for f, v in vals)
            where = rep.where([v for f, v in vals if v is not None][0][1])
            rule.check(len(names) == 1 and None not in names, '%s|%s' % (cls, mbr[-1]), where, cls,
                       'every constructor opens %s under %r' % (mbr[-1], list(names)[0]),
                       'constructors disagree on the group behind %s: %s - what is written through the handle returned by create is not found by a handle opened later (after reopen)' % (
                           mbr[-1], ', '.join('%s%s -> %s' % (f.name, f.sig[:40], (v[0][1] if v is not None and isinstance(v[0], tuple) else v)) for f, v in vals)))
    if n < 8:
        raise AnalysisBroken('R-CTORPAIR: only %d container members with two constructors' % n)
    return rule


def run_getattr(prog, rep):
    """LocID::getAttr<T> answers 'absent' exactly when the attribute does not exist; otherwise it reads the whole attribute"""
    from ..absint import GenericInterp
    rule = rep.rule('R-GETATTR', 'LocID::getAttr reports false only for an absent attribute and otherwise opens, sizes and reads it (no further condition - stored width, shape, content - makes an existing attribute read as absent)', floor=3)
    fs = sorted([f for f in prog.funcs.values() if f.name == 'getAttr' and (f.cls or '') == 'nix::hdf5::LocID' and f.body is not None], key=lambda f: f.sig)
    if len(fs) < 3:
        raise AnalysisBroken('R-GETATTR: only %d instantiations of LocID::getAttr found' % len(fs))
    for f in fs:
        it = GenericInterp(prog, watch=lambda n: (n.callee or {}).get('name') in ('read', 'openAttr', 'resize'))
        probs = []
        for assign, out, log, fields in it.enumerate(f, this='THIS', args=[('name',), ('value',)]):
            if out[0] != 'ret':
                continue
            has = assign.get(('bool', 'hasAttr', 'THIS', ('name',)))
            other = [k for k in assign if k != ('bool', 'hasAttr', 'THIS', ('name',))]
            nm = [l[0] for l in log]
            if out[1] is False and (has is not False or other):
                probs.append('answers "absent" for an attribute that exists (decided by %s)' % ([repr(k)[:70] for k in other] or 'nothing'))
            if out[1] is True and nm != ['openAttr', 'resize', 'read']:
                probs.append('reports success after %s instead of openAttr, resize, read' % nm)
            if out[1] not in (True, False):
                probs.append('returns %r' % (out[1],))
        rule.check(not probs, 'LocID::getAttr%s' % f.sig[:60], rep.where(f), f.label(), 'false iff !hasAttr(name); otherwise open, size, read', '; '.join(sorted(set(probs))))
    return rule


MUTATING_ALGOS = ('sort', 'stable_sort', 'partial_sort', 'nth_element', 'reverse', 'rotate', 'unique', 'remove', 'remove_if', 'transform', 'replace', 'replace_if',
                  'fill', 'fill_n', 'generate', 'iota', 'for_each', 'shuffle', 'random_shuffle', 'partition', 'stable_partition', 'swap_ranges', 'copy', 'copy_backward', 'move')


def run_getter_raw(prog, rep):
    """a backend getter returns what it read: a local filled by getAttr / getData / read is not rewritten (sorted, trimmed,
    transformed) before it is returned"""
    rule = rep.rule('R-GETRAW', 'backend const getters hand back the value read from the file as it was read: the variable filled by getAttr / getData is not passed to a mutating algorithm or a non-const member function afterwards', floor=25)
    n = 0
    for f in sorted(prog.funcs.values(), key=lambda f: (f.file, f.line)):
        if f.body is None or not (f.cls or '').startswith('nix::hdf5::') or not f.is_const or (f.cls or '') in ('nix::hdf5::LocID', 'nix::hdf5::H5Group', 'nix::hdf5::DataSet'):
            continue
        fills = {}
        for c in f.calls():
            if (c.callee or {}).get('name') in ('getAttr', 'getData', 'read') and ((c.callee or {}).get('cls') or '').startswith('nix::hdf5::'):
                a = [x for x in real_args(c) if x is not None]
                if len(a) >= 2:
                    v = unwrap(a[1])
                    if v is not None and v.k == 'ref' and v.decl.get('kind') == 'local':
                        fills.setdefault(v.decl.get('lid'), (v.decl.get('name'), c))
        for lid, (name, c) in sorted(fills.items(), key=lambda kv: kv[1][0]):
            n += 1
            bad = []
            for m in f.calls():
                if m.id <= c.id:
                    continue
                nm = (m.callee or {}).get('name') or ''
                q = (m.callee or {}).get('q') or ''
                touches = any(x.k == 'ref' and x.decl.get('lid') == lid for x in m.walk())
                if not touches:
                    continue
                if nm in MUTATING_ALGOS and (q.startswith('std::') or q.startswith('boost::')):
                    dst = [x for x in real_args(m) if x is not None]
                    # the read variable is the range that is written (first range for in-place algorithms, last for copy/transform)
                    bad.append('%s(%s)' % (nm, m.src(40)))
                elif m.get('member') and m.c and unwrap(m.c[0]) is not None and unwrap(m.c[0]).k == 'ref' and unwrap(m.c[0]).decl.get('lid') == lid and \
                        not (m.callee or {}).get('sig', '').endswith(' const') and nm in ('erase', 'pop_back', 'resize', 'clear', 'insert', 'push_back', 'assign', 'replace', 'append'):
                    bad.append('%s.%s' % (name, nm))
            rule.check(not bad, '%s%s|%s' % (f.q, f.sig[:40], name), rep.where(c), f.label(), '%s is returned as read' % name,
                       '%s is rewritten after it was read (%s): the getter does not report what is stored (and a check that runs on the getter\'s answer cannot see the stored state)' % (name, ', '.join(bad[:2])))
    if n < 25:
        raise AnalysisBroken('R-GETRAW: only %d read variables found' % n)
    return rule
