"""R-FMODE / R-HDR (C09, C10 wiring): open-mode mapping, constructor branch structure,
header check verdict and version-gate wiring, decided by abstract interpretation of the
three functions over a boolean abstraction of every file/library query."""
import itertools

from ..absint import Interp, Unsupported, Free, SKIP
from ..extract import AnalysisBroken
from ..sem import term, unwrap, real_args
from ..tables import enum_switch_table, enumerators, first_return

FH = 'nix::hdf5::FileHDF5'


def str_arg(n):
    n = unwrap(n)
    if n is None:
        return None
    if n.k == 'str':
        return n.get('v')
    if n.k == 'construct':
        args = [x for x in n.c if x is not None and x.k != 'defarg']
        if len(args) == 1:
            return str_arg(args[0])
    if n.k == 'ref' and n.decl.get('kind') == 'global':
        return ('global', n.decl.get('q'))
    return None


def enum_value(prog, e):
    en, nm = e[1].rsplit('::', 1)
    for x in prog.enums[en]['enumerators']:
        if x['name'] == nm:
            return en, x['value']
    raise AnalysisBroken('unknown enumerator %s' % e[1])


def enum_by_value(prog, en, v):
    for x in prog.enums[en]['enumerators']:
        if x['value'] == v:
            return ('e', '%s::%s' % (en, x['name']))
    return ('e?', en, v)


class HdrInterp(Interp):
    """oracle for FileHDF5 member functions"""

    def __init__(self, prog, inline_names=()):
        Interp.__init__(self, prog, oracle=HdrInterp.orc, inline=lambda fn: fn.q in inline_names)

    def binop(self, op, l, r, n):
        if op in ('==', '!=') and isinstance(l, tuple) and isinstance(r, tuple) and l and r and l[0] == 'macro' and r[0] == 'macro':
            return (l == r) if op == '==' else (l != r)
        if op == '|' and isinstance(l, tuple) and isinstance(r, tuple) and l[0] == 'macro' and r[0] == 'macro':
            return ('macro', '|'.join(sorted(l[1].split('|') + r[1].split('|'))))
        return Interp.binop(self, op, l, r, n)

    def member(self, base, name, n, env):
        if base == env.get('this') or base == 'THIS':
            return self.fields.get(name, ('field', name))
        raise Unsupported('member %s of %r at %s' % (name, base, n.loc()))

    def orc(self, n, env):
        a = n.a
        if a.get('macro') and str(a['macro']).startswith('H5'):
            return ('macro', a['macro'])
        if a.get('macro') == 'NULL':
            return None
        if n.k == 'call':
            cal = n.callee or {}
            q = cal.get('q') or ''
            nm = cal.get('name') or ''
            op = a.get('op')
            if op == '<<':
                return SKIP
            if op == '=' and len(n.c) == 2:
                tgt = unwrap(n.c[0])
                v = self.ev(n.c[1], env)
                if tgt.k == 'member' and (not tgt.c or tgt.c[0] is None or unwrap(tgt.c[0]).k == 'this'):
                    self.fields[tgt.decl.get('name')] = v
                    self.log.append(('setfield', tgt.decl.get('name'), v))
                    return v
                if tgt.k == 'ref' and tgt.decl.get('lid') is not None:
                    env[tgt.decl['lid']] = v
                    return v
                raise Unsupported('operator= target at %s' % n.loc())
            if op in ('&', '|') and len(n.c) == 2:
                l = self.ev(n.c[0], env)
                r = self.ev(n.c[1], env)
                if isinstance(l, tuple) and isinstance(r, tuple) and l[0] == 'e' and r[0] == 'e':
                    en, lv = enum_value(self.prog, l)
                    en2, rv = enum_value(self.prog, r)
                    return enum_by_value(self.prog, en, (lv & rv) if op == '&' else (lv | rv))
                raise Unsupported('operator%s on %r,%r at %s' % (op, l, r, n.loc()))
            if op in ('!=', '==') and len(n.c) == 2:
                l = self.ev(n.c[0], env)
                r = self.ev(n.c[1], env)
                if isinstance(l, tuple) and isinstance(r, tuple) and l and r and l[0] in ('e', 'e?') and r[0] in ('e', 'e?'):
                    return (l == r) if op == '==' else (l != r)
                key = ('cmp', op, _show(l), _show(r))
                self.log.append(key)
                return Free(key)
            if op in ('>=', '<=', '<', '>') and len(n.c) == 2:
                l = self.ev(n.c[0], env)
                r = self.ev(n.c[1], env)
                key = ('cmp', op, _show(l), _show(r))
                self.log.append(key)
                return Free(key)
            if a.get('member'):
                obj = unwrap(n.c[0])
                objt = term(obj)
                args = n.c[1:]
                if nm == 'hasAttr':
                    return Free(('hasAttr', str_arg(args[0])))
                if nm == 'getAttr':
                    k = str_arg(args[0])
                    tgt = unwrap(args[1])
                    if tgt.k == 'ref' and tgt.decl.get('lid') is not None:
                        env[tgt.decl['lid']] = ('attr', k)
                    self.log.append(('getAttr', k))
                    return Free(('getAttr', k))
                if nm == 'setAttr':
                    self.log.append(('setAttr', str_arg(args[0])))
                    return None
                if nm in ('canWrite', 'canRead'):
                    recv = self.ev(n.c[0], env)
                    arg = self.ev(args[0], env)
                    self.log.append((nm, _show(recv), _show(arg)))
                    return Free((nm,))
                if nm in ('check', 'str', 'c_str', 'h5id', 'isError', 'close'):
                    if nm in ('c_str', 'str'):
                        return self.ev(n.c[0], env)
                    if nm == 'h5id':
                        return ('h5id', _show(self.ev(n.c[0], env)))
                    if nm == 'isError':
                        return Free(('isError', _show(self.ev(n.c[0], env))))
                    self.log.append((nm, _show(objt)))
                    return None
                if nm == 'openGroup':
                    self.log.append(('openGroup', str_arg(args[0])))
                    return ('group', str_arg(args[0]))
                if cal.get('cls') == FH or obj.k == 'this':
                    tgt = self.prog.funcs.get(cal.get('usr'))
                    if tgt is not None and self.inline(tgt):
                        return NotImplemented
                    vals = tuple(_show(self.ev(x, env)) for x in args)
                    self.log.append((nm,) + vals)
                    if nm == 'fileExists':
                        return Free(('fileExists',))
                    if nm in ('isOpen', 'isValid'):
                        return Free((nm,))
                    return ('ret', nm)
                raise Unsupported('member call %s at %s' % (q, n.loc()))
            if nm.startswith('H5'):
                vals = tuple(_show(self.ev(x, env)) for x in n.c)
                self.log.append((nm,) + vals)
                if nm == 'H5Iis_valid':
                    return True
                return ('h5', nm)
            if q in ('nix::hdf5::map_file_mode',):
                return NotImplemented
            if q in ('boost::filesystem::status', 'boost::filesystem::symlink_status'):
                # status follows symbolic links (same file the open call reaches), symlink_status does not
                return ('fsstatus', 'followed' if q.endswith('::status') else 'link')
            if q in ('boost::filesystem::exists', 'boost::filesystem::is_directory', 'boost::filesystem::is_regular_file', 'boost::filesystem::is_symlink'):
                ra = [x for x in real_args(n) if x is not None]
                v = self.ev(ra[0], env) if ra else None
                link = isinstance(v, tuple) and v[:2] == ('fsstatus', 'link')
                return Free((('l' if link else '') + nm,))
            if q in ('std::make_shared',):
                vals = tuple(_show(self.ev(x, env)) for x in n.c)
                self.log.append(('make_shared', (cal.get('targs') or ['?'])[0]) + vals)
                return ('shared', (cal.get('targs') or ['?'])[0])
        if n.k == 'construct':
            cal = n.callee or {}
            cls = cal.get('cls') or ''
            args = [x for x in n.c if x is not None and x.k != 'defarg']
            if cls.startswith('std::') or cls.startswith('boost::'):
                if len(args) == 1:
                    return self.ev(args[0], env)
                if len(args) == 0:
                    return ('new', cls)
                return ('new', cls) + tuple(self.ev(x, env) for x in args)
            if cls == 'nix::FormatVersion':
                if len(args) == 1:
                    v = self.ev(args[0], env)
                    return ('FormatVersion', v)
        return NotImplemented


def _show(v):
    if isinstance(v, tuple):
        return tuple(_show(x) for x in v)
    if isinstance(v, list):
        return tuple(_show(x) for x in v)
    return v


def run_mode_table(prog, rep):
    rule = rep.rule('R-FMODE', 'FileMode -> H5F_ACC_* table; constructor picks create/open, header creation/check by mode', floor=3)
    f = prog.fn('nix::hdf5::map_file_mode')
    sw, tab, after = enum_switch_table(f)
    want = {'nix::FileMode::ReadOnly': 'H5F_ACC_RDONLY', 'nix::FileMode::ReadWrite': 'H5F_ACC_RDWR', 'nix::FileMode::Overwrite': 'H5F_ACC_TRUNC'}
    for e in enumerators(prog, 'nix::FileMode'):
        stmts = tab.get(e, tab.get('default'))
        r = first_return(stmts or [])
        got = None
        if r is not None:
            x = unwrap(r.c[0])
            got = x.get('macro')
            if got is None:
                for y in x.walk():
                    if y.get('macro'):
                        got = y.get('macro')
                        break
        rule.check(got == want.get(e), 'map_file_mode|%s' % e, rep.where(r or f), f.q,
                   '%s -> %s' % (e, want.get(e)), '%s -> %s, expected %s' % (e, got, want.get(e)))
    return rule


def run_ctor(prog, rep, rule):
    ctor = [c for c in prog.fns(FH + '::FileHDF5') if 'nix::FileMode' in c.sig]
    if len(ctor) != 1:
        raise AnalysisBroken('anchor vanished: FileHDF5 opening constructor')
    ctor = ctor[0]
    modes = enumerators(prog, 'nix::FileMode')
    flagsv = ['nix::OpenFlags::None', 'nix::OpenFlags::Force']
    for mode in modes:
        for fl in flagsv:
            it = HdrInterp(prog, inline_names=('nix::hdf5::map_file_mode',))
            res = it.enumerate(ctor, this='THIS', args=[('name',), ('e', mode), ('e', 'nix::Compression::None'), ('e', fl)])
            for assign, out, log, fields in res:
                exists = assign.get(('fileExists',))
                names = [l[0] for l in log]
                key = 'ctor|mode=%s|flags=%s|exists=%s' % (mode.split('::')[-1], fl.split('::')[-1], exists)
                creates = [l for l in log if l[0] == 'H5Fcreate']
                opens = [l for l in log if l[0] == 'H5Fopen']
                is_create = (not exists) or mode.endswith('Overwrite')
                problems = []
                if out[0] != 'ret':
                    problems.append('constructor throws %s' % (out[1],))
                if is_create:
                    if len(creates) != 1 or opens:
                        problems.append('expected exactly one H5Fcreate and no H5Fopen, saw %s' % names)
                    elif creates[0][2] != ('macro', 'H5F_ACC_TRUNC'):
                        problems.append('H5Fcreate flag is %r, expected H5F_ACC_TRUNC' % (creates[0][2],))
                    if 'createHeader' not in names:
                        problems.append('createHeader not called on the create branch')
                    if 'checkHeader' in names:
                        problems.append('checkHeader called on the create branch')
                else:
                    wantflag = 'H5F_ACC_RDONLY' if mode.endswith('ReadOnly') else 'H5F_ACC_RDWR'
                    if len(opens) != 1 or creates:
                        problems.append('expected exactly one H5Fopen and no H5Fcreate, saw %s' % names)
                    elif opens[0][2] != ('macro', wantflag):
                        problems.append('H5Fopen flag is %r, expected %s' % (opens[0][2], wantflag))
                    if 'createHeader' in names:
                        problems.append('createHeader called when opening an existing file (would overwrite format/version/id)')
                    ch = [l for l in log if l[0] == 'checkHeader']
                    if len(ch) != 1:
                        problems.append('checkHeader not called exactly once on the open branch')
                    else:
                        if ch[0][1] != ('e', mode):
                            problems.append('checkHeader receives mode %r, expected %s' % (ch[0][1], mode))
                        want_throw = not fl.endswith('Force')
                        if ch[0][2] is not want_throw:
                            problems.append('checkHeader throw_error is %r, expected %r (Force bypass)' % (ch[0][2], want_throw))
                    # header check precedes the opening of the data/metadata groups
                    if ch and 'openGroup' in names and names.index('checkHeader') > names.index('openGroup'):
                        problems.append('data/metadata groups are opened (possibly created) before the header check')
                for forced in ('forceCreatedAt', 'forceUpdatedAt', 'forceId'):
                    if forced in names:
                        problems.append('%s reached from the constructor' % forced)
                if fields.get('mode') != (('e', 'nix::FileMode::Overwrite') if not exists else ('e', mode)):
                    problems.append('stored mode is %r' % (fields.get('mode'),))
                rule.check(not problems, key, rep.where(ctor), ctor.q,
                           'create=%s: %s' % (is_create, [l for l in log if l[0] in ('H5Fcreate', 'H5Fopen', 'createHeader', 'checkHeader')]),
                           '; '.join(problems))
    # link creation order on the file creation property list
    it = HdrInterp(prog, inline_names=('nix::hdf5::map_file_mode',))
    res = it.enumerate(ctor, this='THIS', args=[('name',), ('e', 'nix::FileMode::Overwrite'), ('e', 'nix::Compression::None'), ('e', 'nix::OpenFlags::None')])
    okc = True
    for assign, out, log, fields in res:
        co = [l for l in log if l[0] == 'H5Pset_link_creation_order']
        cr = [l for l in log if l[0] == 'H5Fcreate']
        if not co or co[0][2] != ('macro', 'H5P_CRT_ORDER_INDEXED|H5P_CRT_ORDER_TRACKED'):
            okc = False
        elif not cr or cr[0][3] != co[0][1]:
            okc = False
    rule.check(okc, 'ctor|fcpl-creation-order', rep.where(ctor), ctor.q,
               'H5Fcreate receives the fcpl on which link creation order TRACKED|INDEXED was set',
               'the file creation property list passed to H5Fcreate does not carry H5P_CRT_ORDER_TRACKED|INDEXED')
    return ctor


def run_file_open(prog, rep, rule):
    fo = prog.fn('nix::File::open')
    # the open flags and the compression asked for reach the backend, in every mode (Auto compression is resolved to None first)
    for mode in enumerators(prog, 'nix::FileMode'):
        for fl in enumerators(prog, 'nix::OpenFlags'):
            for comp in enumerators(prog, 'nix::Compression'):
                res = HdrInterp(prog).enumerate(fo, this=None, args=[('name',), ('e', mode), ('impl',), ('e', comp), ('e', fl)])
                for assign, out, log, fields in res:
                    made = [l for l in log if l[0] == 'make_shared']
                    if not made:
                        continue
                    m = made[0]
                    key = 'File::open|mode=%s|flags=%s|compression=%s|forwarded' % (mode.split('::')[-1], fl.split('::')[-1], comp.split('::')[-1])
                    want_comp = ('e', 'nix::Compression::None') if comp.endswith('::Auto') else ('e', comp)
                    got_fl = m[5] if len(m) > 5 else None
                    got_comp = m[4] if len(m) > 4 else None
                    probs = []
                    if got_fl is None and fl.endswith('::None'):
                        got_fl = ('e', fl)      # the constructor's default
                    if got_fl != ('e', fl):
                        probs.append('the backend is constructed with flags %r instead of %s (a missing argument means OpenFlags::None: Force is dropped)' % (got_fl, fl))
                    if got_comp != want_comp and not mode.endswith('ReadOnly'):
                        probs.append('the backend is constructed with compression %r instead of %s' % (got_comp, want_comp[1]))
                    rule.check(not probs, key, rep.where(fo), fo.q, 'flags and compression reach the backend', '; '.join(probs))
    for mode in enumerators(prog, 'nix::FileMode'):
        it = HdrInterp(prog)
        res = it.enumerate(fo, this=None, args=[('name',), ('e', mode), ('impl',), ('e', 'nix::Compression::None'), ('e', 'nix::OpenFlags::None')])
        for assign, out, log, fields in res:
            exists = assign.get(('exists',))
            made = [l for l in log if l[0] == 'make_shared']
            key = 'File::open|mode=%s|exists=%s|impl=%s' % (mode.split('::')[-1], exists, [v for k, v in assign.items() if k[0] == 'cmp'])
            if mode.endswith('ReadOnly') and exists is False:
                rule.check(out[0] == 'throw' and not made, key, rep.where(fo), fo.q,
                           'ReadOnly on a missing path throws before any backend is constructed',
                           'ReadOnly on a missing path: outcome %r, backend constructed: %s' % (out, bool(made)))
            elif made:
                m = made[0]
                problems = []
                if m[3] != ('e', mode):
                    problems.append('backend constructed with mode %r instead of %s' % (m[3], mode))
                if mode.endswith('ReadOnly') and exists is not True:
                    problems.append('ReadOnly: a backend is constructed on a path that never established that the file exists')
                rule.check(not problems, key, rep.where(fo), fo.q, 'backend receives the requested mode', '; '.join(problems))
            elif not mode.endswith('ReadOnly'):
                impl_ok = [v for k, v in assign.items() if k[0] == 'cmp']
                rule.check(not (impl_ok and all(impl_ok)), key, rep.where(fo), fo.q,
                           'refused only for an unknown implementation name',
                           '%s with a known implementation is refused (%r): ReadWrite/Overwrite must create a missing file' % (mode, out))


def run_check_header(prog, rep):
    rule = rep.rule('R-HDR', 'checkHeader verdict = format ok & version readable by mode & id (>=1.2.0); throws iff bad & throw_error', floor=20)
    ch = prog.fn(FH + '::checkHeader')
    # library version: the receiver of the gates must be initialised from HDF5_FF_VERSION
    keys_seen = set()
    npaths = 0
    for mode in enumerators(prog, 'nix::FileMode'):
        for throw_error in (True, False):
            it = HdrInterp(prog)
            res = it.enumerate(ch, this='THIS', args=[('e', mode), throw_error], fields={'file_format_version': ('libversion',)})
            for assign, out, log, fields in res:
                npaths += 1
                gate = 'canWrite' if mode.endswith('ReadWrite') else 'canRead'
                other = 'canRead' if gate == 'canWrite' else 'canWrite'

                def spec(full):
                    fmt_ne = [v for k, v in full.items() if k[0] == 'cmp' and k[1] == '!=' and ('attr', 'format') in (k[2], k[3])]
                    fmt_eq = [v for k, v in full.items() if k[0] == 'cmp' and k[1] == '==' and ('attr', 'format') in (k[2], k[3])]
                    fmt_ok = full.get(('hasAttr', 'format')) and full.get(('getAttr', 'format')) and \
                        ((fmt_ne and not fmt_ne[0]) or (fmt_eq and fmt_eq[0]))
                    ver_ok = full.get(('hasAttr', 'version')) and full.get(('getAttr', 'version')) and full.get((gate,))
                    ge = [v for k, v in full.items() if k[0] == 'cmp' and k[1] in ('>=',)]
                    lt = [v for k, v in full.items() if k[0] == 'cmp' and k[1] in ('<',)]
                    need_id = (ge and ge[0]) or (lt and not lt[0])
                    id_ok = (not need_id) or (full.get(('hasAttr', 'id')) and full.get(('getAttr', 'id')))
                    return bool(fmt_ok and ver_ok and id_ok)

                # all keys that can matter
                universe = [('hasAttr', 'format'), ('getAttr', 'format'), ('hasAttr', 'version'), ('getAttr', 'version'),
                            (gate,), ('hasAttr', 'id'), ('getAttr', 'id')]
                cmpkeys = [k for k in assign if k[0] == 'cmp']
                missing = [k for k in universe if k not in assign]
                # the spec must be determined by the decided keys (whatever the undecided ones are)
                vals = set()
                allcmp = set(cmpkeys)
                for l in log:
                    if l and l[0] == 'cmp':
                        allcmp.add(l)
                for combo in itertools.product((False, True), repeat=len(missing)):
                    full = dict(assign)
                    full.update(dict(zip(missing, combo)))
                    # undecided comparisons: both values
                    und = [k for k in KNOWN_CMPS if k not in full]
                    for c2 in itertools.product((False, True), repeat=len(und)):
                        full2 = dict(full)
                        full2.update(dict(zip(und, c2)))
                        if full2.get(('canWrite',)) and full2.get(('canRead',)) is False:
                            continue    # canWrite implies canRead (R-VER): not a state of the world
                        vals.add(spec(full2))
                keys_seen.update(assign.keys())
                akey = ','.join('%s=%s' % ('/'.join(str(x) for x in k[:2]) if k[0] != 'cmp' else 'cmp' + k[1], int(v)) for k, v in sorted(assign.items(), key=str))
                key = 'checkHeader|mode=%s|throw=%s|%s' % (mode.split('::')[-1], throw_error, akey)
                got = out[1] if out[0] == 'ret' else None
                problems = []
                if assign.get(('canWrite',)) and assign.get(('canRead',)) is False:
                    continue            # infeasible abstract path (canWrite implies canRead)
                if len(vals) != 1:
                    problems.append('verdict does not depend only on what the function inspected (missing query?)')
                else:
                    want = vals.pop()
                    if want:
                        if not (out[0] == 'ret' and got is True):
                            problems.append('header is acceptable but outcome is %r' % (out,))
                    else:
                        if throw_error:
                            if not (out[0] == 'throw' and 'InvalidFile' in str(out[1])):
                                problems.append('header is not acceptable and throw_error is set, but outcome is %r' % (out,))
                        elif not (out[0] == 'ret' and got is False):
                            problems.append('header is not acceptable but outcome is %r' % (out,))
                for l in log:
                    if l[0] in ('canWrite', 'canRead'):
                        if 'my_version' not in str(l[1]):
                            problems.append('%s receiver is %r, expected the library version' % (l[0], l[1]))
                        if l[2] != ('FormatVersion', ('attr', 'version')):
                            problems.append('%s argument is %r, expected the version read from the file' % (l[0], l[2]))
                    if l[0] == 'setAttr':
                        problems.append('checkHeader writes attribute %r' % (l[1],))
                rule.check(not problems, key, rep.where(ch), ch.q, 'outcome %r matches the specification' % (out,), '; '.join(problems))
    # the id threshold constant
    lits = []
    for n in ch.walk():
        if n.k == 'call' and n.get('op') in ('>=', '<') and n.callee and 'FormatVersion' in (n.callee.get('cls') or ''):
            lits.append(repr(term(n)))
    rule.check(any("('k', 1), ('k', 2), ('k', 0)" in s for s in lits), 'checkHeader|id-threshold', rep.where(ch), ch.q,
               'the id requirement is gated on file version >= 1.2.0', 'id requirement threshold is not {1,2,0}: %s' % lits)
    # my_version comes from HDF5_FF_VERSION
    v, node = prog.var_init('nix::hdf5::my_version')
    src = repr(term(node)) if node is not None else ''
    rule.check('HDF5_FF_VERSION' in src or (node is not None and any(x.get('macro') == 'HDF5_FF_VERSION' for x in node.walk())),
               'my_version|init', '%s:%s' % (prog.rel(v['file']), v['line']), 'nix::hdf5::my_version',
               'library version object is initialised from HDF5_FF_VERSION', 'library version object is not initialised from HDF5_FF_VERSION: %s' % src[:200])
    rep.extra['abstract_paths_checkHeader'] = npaths
    return rule


KNOWN_CMPS = []


def run(prog, rep, with_ctor=True):
    rule = run_mode_table(prog, rep)
    if with_ctor:
        run_ctor(prog, rep, rule)
        run_file_open(prog, rep, rule)
    run_check_header(prog, rep)


def run_write_free(prog, rep):
    """Opening an existing file writes only what is missing: every mutating call reachable
    from the constructor's open branch is dominated by an absence test of what it writes."""
    from ..sem import Sem
    from .r_err import MUTATING
    sem = Sem(prog)
    rule = rep.rule('R-WFREE', 'open path of the constructor writes nothing that already exists (absence test dominates each write)', floor=4)
    ctor = [c for c in prog.fns(FH + '::FileHDF5') if 'nix::FileMode' in c.sig][0]
    # functions called by the constructor on the open branch (from the abstract run)
    it = HdrInterp(prog, inline_names=('nix::hdf5::map_file_mode',))
    res = it.enumerate(ctor, this='THIS', args=[('name',), ('e', 'nix::FileMode::ReadWrite'), ('e', 'nix::Compression::None'), ('e', 'nix::OpenFlags::None')])
    called = set()
    for assign, out, log, fields in res:
        if assign.get(('fileExists',)):
            called.update(l[0] for l in log)
    for nm in sorted(called):
        for f in prog.fns('%s::%s' % (FH, nm)):
            for c in f.calls(name='setAttr'):
                k = str_arg(real_args(c)[0])
                facts = sem.facts_at(f, c.id)
                okf = any(t[:2] == ('m', 'hasAttr') and t[-1] == ('k', k) and pol is False for (t, pol) in facts)
                rule.check(okf, '%s|setAttr|%s' % (f.q, k), rep.where(c), f.q,
                           'setAttr("%s") only under !hasAttr("%s")' % (k, k),
                           'setAttr("%s") on the open path is not guarded by an absence test: a ReadWrite open would overwrite it and a ReadOnly open would throw' % k)
            for c in f.calls():
                if c.callee.get('name', '').startswith('force') and c.callee.get('cls') == FH:
                    rule.bad('%s|%s' % (f.q, c.callee['name']), rep.where(c), f.q, 'force* variant reachable from the open path')
    og = prog.fn('nix::hdf5::H5Group::openGroup')
    for c in og.calls():
        if MUTATING.match(c.callee.get('name') or ''):
            facts = sem.facts_at(og, c.id)
            no_group = any(t[:2] == ('m', 'hasGroup') and pol is False for (t, pol) in facts)
            create = any(t[0] == 'v' and t[2] == 'create' and pol is True for (t, pol) in facts)
            rule.check(no_group and create, '%s|%s' % (og.q, c.callee['name']), rep.where(c), og.q,
                       '%s only under !hasGroup(name) && create' % c.callee['name'],
                       '%s in openGroup is not guarded by !hasGroup(name) && create' % c.callee['name'])
    orr = prog.fn(FH + '::openRoot')
    rule.check(not any(MUTATING.match(c.callee.get('name') or '') for c in orr.calls()), '%s|no-write' % orr.q, rep.where(orr), orr.q,
               'openRoot performs no mutating HDF5 call')
    return rule


def run_exists(prog, rep):
    """The backend's existence test decides create-vs-open; it must be exactly 'the path can be opened':
    any further condition (size, content) makes it disagree with the front-end's exists() for some file and
    turns a ReadOnly/ReadWrite open of an existing file into a truncating create."""
    from ..absint import GenericInterp
    rule = rep.rule('R-EXISTS', 'FileHDF5::fileExists is true exactly when the named file can be opened; front and back end test the same path', floor=2)
    f = prog.fn(FH + '::fileExists')
    it = GenericInterp(prog)
    res = it.enumerate(f, this='THIS', args=[('name',)])
    problems = []
    for assign, out, log, fields in res:
        if out[0] != 'ret' or not isinstance(out[1], bool):
            problems.append('outcome %r' % (out,))
            continue
        opened = [v for k, v in assign.items() if k[0] == 'truthy' and 'ifstream' in repr(k) or (k[0] == 'bool' and k[1] in ('is_open', 'good'))]
        others = [k for k in assign if not (k[0] == 'truthy' and 'ifstream' in repr(k)) and not (k[0] == 'bool' and k[1] in ('is_open', 'good', 'fail'))]
        if others:
            problems.append('the verdict also depends on %s' % [repr(k)[:80] for k in others])
        if not opened:
            problems.append('verdict %s without testing that the stream opened' % out[1])
        elif out[1] is not opened[0]:
            problems.append('returns %s although the stream %s' % (out[1], 'opened' if opened[0] else 'did not open'))
    stream_on_name = any(n.k == 'var' and 'ifstream' in (n.get('type') or '') and "'name'" in repr(term(n.c[0])) for n in f.walk() if n.k == 'var' and n.c and n.c[0] is not None)
    if not stream_on_name:
        problems.append('the probe stream is not opened on the given name')
    rule.check(not problems, 'fileExists|predicate', rep.where(f), f.q, 'true iff a read stream on the name opens (%d abstract paths)' % len(res), '; '.join(sorted(set(problems))))
    # both existence tests are applied to the name that is opened
    fo = prog.fn('nix::File::open')
    ex = [c for c in fo.calls() if (c.callee.get('q') or '') == 'boost::filesystem::exists']
    okp = bool(ex) and ("'name'" in repr(term(ex[0])))
    if ex and not okp:
        # exists(st) with st = status(path{name}) (the link-following query) is the same test
        ra = [unwrap(x) for x in real_args(ex[0]) if x is not None]
        if ra and ra[0].k == 'ref':
            for v in fo.walk():
                if v.k == 'var' and v.get('lid') == ra[0].decl.get('lid') and v.c and v.c[0] is not None:
                    st = [c for c in v.c[0].walk() if c.k == 'call' and (c.callee or {}).get('q') == 'boost::filesystem::status']
                    okp = bool(st) and "'name'" in repr(term(st[0]))
    rule.check(okp, 'File::open|exists-same-path', rep.where(fo), fo.q, 'the front-end existence test is applied to the path that is opened')
    return rule
