"""R-PAIR / R-MATCH (C07): range-pair composition, per-rule decision structure of the four
position->index helpers (symbolic results on every abstract path), dispatch completeness."""
from ..absint import GenericInterp, Opaque, Unsupported
from ..extract import AnalysisBroken
from ..sem import Sem, Flow, term, unwrap, real_args
from ..tables import enumerators

PM = 'nix::PositionMatch::'
RM = 'nix::RangeMatch::'


def find_calls(v, names, out=None):
    """opaque call values ('call', name, args...) inside an abstract value"""
    if out is None:
        out = []
    if isinstance(v, tuple):
        if len(v) >= 2 and v[0] == 'call' and v[1] in names:
            out.append(v)
        for x in v:
            find_calls(x, names, out)
    return out


def contains(v, x):
    if v == x:
        return True
    if isinstance(v, tuple):
        return any(contains(y, x) for y in v)
    return False


PAIRS = [
    ('nix::SampledDimension::indexOf', '(double, double, const double, const double, const nix::RangeMatch)', 'getSampledIndex'),
    ('nix::RangeDimension::indexOf', '(double, double, std::vector<double>, nix::RangeMatch)', 'getIndex'),
    ('nix::SetDimension::indexOf', '(double, double, std::vector<std::string> &, const nix::RangeMatch)', 'getSetIndex'),
    ('nix::DataFrameDimension::indexOf', '(double, double, nix::ndsize_t, const nix::RangeMatch)', 'getDataFrameIndex'),
]


def run_pairs(prog, rep):
    rule = rep.rule('R-PAIR', 'range pair = (GreaterOrEqual(start), LessOrEqual|Less(end)); valid iff start<=end, both exist and ordered', floor=8)
    for q, sigpart, helper in PAIRS:
        cands = [f for f in prog.fns(q) if f.sig.replace(' const', '').strip() == sigpart or sigpart in f.sig]
        if len(cands) != 1:
            cands = [f for f in prog.fns(q) if len(f.params) >= 4 and f.params[0]['type'] == 'double' and 'RangeMatch' in f.params[-1]['type']]
        if len(cands) != 1:
            raise AnalysisBroken('anchor vanished: pair function %s%s (%d candidates)' % (q, sigpart, len(cands)))
        f = cands[0]
        for rm in ('Inclusive', 'Exclusive'):
            args = []
            for i, p in enumerate(f.params):
                if i == 0:
                    args.append(('start',))
                elif i == 1:
                    args.append(('end',))
                elif 'RangeMatch' in p['type']:
                    args.append(('e', RM + rm))
                else:
                    args.append((p['name'],))
            it = GenericInterp(prog)
            res = it.enumerate(f, this='THIS', args=args)
            want_end = PM + ('LessOrEqual' if rm == 'Inclusive' else 'Less')
            problems = []
            npairs = 0
            for assign, out, log, fields in res:
                if out[0] != 'ret':
                    problems.append('throws %s' % (out[1],))
                    continue
                val = out[1]
                gt = assign.get(('cmp', '<', ('end',), ('start',)))
                is_pair = contains(val, 'std::pair') or (isinstance(val, tuple) and len(val) > 1 and val[0] == 'new' and 'pair' in str(val[1]))
                if gt is True:
                    if is_pair:
                        problems.append('a pair is produced although start > end')
                    continue
                if gt is None and is_pair:
                    problems.append('a pair is produced on a path that never compared start with end')
                    continue
                if not is_pair:
                    # must be because a helper result is missing or the pair is not ordered
                    tr = [(k, v) for k, v in assign.items() if k[0] == 'truthy']
                    un = [(k, v) for k, v in assign.items() if k[0] == 'cmp' and k[1] == '<' and 'deref' in repr(k)]
                    if not (any(v is False for k, v in tr) or any(v is True for k, v in un)):
                        problems.append('no pair although both indices exist and are ordered: %r' % sorted(assign.items(), key=repr))
                    continue
                npairs += 1
                calls = find_calls(val, (helper,))
                si = [c for c in calls if len(c) > 2 and c[2] == ('start',)]
                ei = [c for c in calls if len(c) > 2 and c[2] == ('end',)]
                if not si or not ei:
                    problems.append('pair is not built from %s(start) and %s(end): %r' % (helper, helper, val))
                    continue
                if ('e', PM + 'GreaterOrEqual') not in si[0]:
                    problems.append('start index uses %r instead of GreaterOrEqual' % ([x for x in si[0] if isinstance(x, tuple) and x and x[0] == 'e'],))
                if ('e', want_end) not in ei[0]:
                    problems.append('end index in %s mode uses %r instead of %s' % (rm, [x for x in ei[0] if isinstance(x, tuple) and x and x[0] == 'e'], want_end.split('::')[-1]))
                # order of the pair: (first derives from start, second from end)
                flat = _pair_args(val)
                if flat and not (contains(flat[0], ('start',)) and contains(flat[1], ('end',))):
                    problems.append('pair elements are swapped')
                # validity: both truthy and ordered
                tr = {repr(k): v for k, v in assign.items() if k[0] == 'truthy'}
                need_true = [k for k, v in assign.items() if k[0] == 'truthy' and find_calls(k, (helper,))]
                if len(need_true) < 2 or not all(assign[k] for k in need_true):
                    problems.append('pair produced without testing that both indices exist')
                un = [v for k, v in assign.items() if k[0] == 'cmp' and k[1] == '<' and 'deref' in repr(k) and
                      find_calls(k[2], (helper,)) and find_calls(k[2], (helper,))[0][2] == ('end',) and
                      find_calls(k[3], (helper,)) and find_calls(k[3], (helper,))[0][2] == ('start',)]
                if not un or un[0] is not False:
                    problems.append('pair produced without establishing *start_index <= *end_index')
            if npairs == 0:
                problems.append('no abstract path produces a pair')
            rule.check(not problems, '%s|%s' % (f.q, rm), rep.where(f), f.label(),
                       '%s: (GE(start), %s(end)) iff start<=end, both exist, ordered (%d abstract paths)' % (rm, want_end.split('::')[-1], len(res)),
                       '; '.join(sorted(set(problems))[:4]))
    return rule


def _pair_args(val):
    if isinstance(val, tuple):
        if len(val) == 4 and val[0] == 'new' and 'pair' in str(val[1]):
            return (val[2], val[3])
        for x in val:
            r = _pair_args(x)
            if r:
                return r
    return None


def run_vectors(prog, rep):
    """vector overloads delegate element-wise to the pair function with equal-length guard"""
    sem = Sem(prog)
    rule = rep.rule('R-PAIR-VEC', 'vector overloads convert element i of both vectors with the pair function; lengths are checked', floor=5)
    n = 0
    for cls in ('nix::SampledDimension', 'nix::RangeDimension', 'nix::SetDimension', 'nix::DataFrameDimension'):
        for f in prog.fns(cls + '::indexOf'):
            if len(f.params) < 2 or 'vector<double>' not in f.params[0]['type'] or 'vector<double>' not in f.params[1]['type']:
                continue
            inner = [c for c in f.calls(name='indexOf') if (c.callee.get('cls') or '') == cls]
            if not inner:
                continue
            c = inner[0]
            args = real_args(c)
            n += 1
            key = '%s%s' % (f.q, f.sig)
            if 'vector<double>' in (c.callee.get('sig') or '').split(',')[0]:
                # delegates to another vector overload: arguments forwarded in order
                fwd = term(args[0]) == ('v', f.params[0]['lid'], f.params[0]['name']) and term(args[1]) == ('v', f.params[1]['lid'], f.params[1]['name'])
                rule.check(fwd, key + '|forward', rep.where(c), f.label(), 'forwards (starts, ends) to the optional-returning overload in order')
                continue
            t0, t1 = term(args[0]), term(args[1])
            p0 = ('v', f.params[0]['lid'], f.params[0]['name'])
            p1 = ('v', f.params[1]['lid'], f.params[1]['name'])
            same_idx = t0[0] == 'op' and t0[1] == '[]' and t1[0] == 'op' and t1[1] == '[]' and t0[2] == p0 and t1[2] == p1 and t0[3] == t1[3]
            facts = sem.facts_at(f, c.id)
            eqlen = any(t[0] == 'b' and t[1] == '!=' and pol is False and {t[2], t[3]} == {('m', 'size', p0), ('m', 'size', p1)} for (t, pol) in facts) or \
                any(t[0] == 'b' and t[1] == '==' and pol is True and {t[2], t[3]} == {('m', 'size', p0), ('m', 'size', p1)} for (t, pol) in facts)
            # the RangeMatch handed down: the parameter, or the constant Inclusive for the deprecated overloads
            rmparam = [p for p in f.params if 'RangeMatch' in p['type']]
            rmarg = [term(a) for a in args if 'RangeMatch' in (a.t or '')]
            if rmparam:
                rmok = rmarg and rmarg[0] == ('v', rmparam[0]['lid'], rmparam[0]['name'])
            else:
                rmok = rmarg and rmarg[0] == ('e', RM + 'Inclusive')
            # every element is converted on its own: apart from starts[i] / ends[i] the call's arguments do not change from one iteration to the next
            carried = []
            loops = [a for a in c.ancestors() if a.k in ('for', 'rangefor', 'while')]
            if loops:
                lp = loops[0]
                idxv = t0[3] if same_idx else None
                modified_in_loop = set()
                for lid, ms in sem.mods(f).items():
                    for m in ms:
                        direct = m.k in ('assign', 'unop') or (m.k == 'call' and m.get('op') in ('=', '+=', '-=', '*=', '/=', '++', '--'))
                        if direct and any(x is lp for x in m.ancestors()):
                            modified_in_loop.add(lid)
                fl_ = Flow(sem, f)
                for a in args[2:]:
                    for x in a.walk():
                        if x.k == 'ref' and x.decl.get('kind') in ('local', 'param') and x.decl.get('lid') in modified_in_loop and ('v', x.decl.get('lid'), x.decl.get('name')) != idxv:
                            carried.append(x.decl.get('name'))
                # the result of element i must not be rewritten with loop-carried state either
                for m in f.walk():
                    if any(x is lp for x in m.ancestors()) and (m.k == 'assign' or (m.k == 'call' and m.get('op') == '=')) and m.id > c.id:
                        for x in m.c[1].walk():
                            if x.k == 'ref' and x.decl.get('kind') == 'local' and x.decl.get('lid') in modified_in_loop and ('v', x.decl.get('lid'), x.decl.get('name')) != idxv:
                                v = sem.local_vars(f).get(x.decl.get('lid'))
                                if v is not None and not any(y is lp for y in v.ancestors()) and 'vector' not in (v.get('type') or '') and 'optional' not in (v.get('type') or ''):
                                    carried.append(x.decl.get('name'))
            # every element is answered by the pair function: no result is appended, and no iteration is left, before it was called
            if loops:
                lp = loops[0]
                for m in f.walk():
                    if m.id >= c.id or not any(x is lp for x in m.ancestors()) or any(x is m for x in c.ancestors()):
                        continue
                    if m.k in ('continue', 'break') or (m.k == 'call' and (m.callee or {}).get('name') in ('push_back', 'emplace_back') and not m.get('op')):
                        rule.bad(key + '|bypass', rep.where(m), f.label(), 'an element of the list is answered (%s) before the pair function was asked: list and single conversion can disagree for the elements that take this path' % m.src(40))
                        break
            rule.check(same_idx and eqlen and bool(rmok) and not carried, key + '|elementwise', rep.where(c), f.label(),
                       'element i of starts and ends, equal lengths enforced, range mode handed down, no state carried between elements',
                       'same index for both vectors: %s, equal-length guard: %s, range mode handed down: %s%s' % (same_idx, eqlen, bool(rmok),
                        '; the conversion of element i depends on %s, which earlier elements modify: overlapping or repeated ranges in one list are converted differently from the single conversions' % sorted(set(carried)) if carried else ''))
    if n < 5:
        raise AnalysisBroken('R-PAIR-VEC: only %d vector overloads found' % n)
    return rule


def run_dispatch(prog, rep):
    rule = rep.rule('R-DISPATCH', 'util::positionToIndex(.., Dimension) routes every DimensionType to the overload of the matching dimension class', floor=8)
    kinds = {'nix::DimensionType::Sample': 'SampledDimension', 'nix::DimensionType::Set': 'SetDimension',
             'nix::DimensionType::Range': 'RangeDimension', 'nix::DimensionType::DataFrame': 'DataFrameDimension'}
    fs = [f for f in prog.fns('nix::util::positionToIndex') if f.params and f.params[-1]['type'] == 'const nix::Dimension &']
    if len(fs) != 2:
        raise AnalysisBroken('anchor vanished: the two positionToIndex(.., const Dimension &) dispatchers (%d found)' % len(fs))
    for f in fs:
        it = GenericInterp(prog, watch=lambda n: (n.callee or {}).get('q') == 'nix::util::positionToIndex')
        calls_by_node = {}
        res = it.enumerate(f, this=None, args=[(p['name'],) for p in f.params])
        # map: enumerator tested true -> overload called (from the tree, per path)
        for e, clsname in kinds.items():
            ok = False
            seen = []
            for assign, out, log, fields in res:
                true_keys = [k for k, v in assign.items() if v and k[0] == 'cmp' and k[1] == '==' and contains(k, ('e', e))]
                other_true = [k for k, v in assign.items() if v and k[0] == 'cmp' and k[1] == '==' and not contains(k, ('e', e))]
                false_keys = [k for k, v in assign.items() if (not v) and k[0] == 'cmp' and k[1] == '==']
                if true_keys and not other_true:
                    seen.append(out)
            # structural: find the call made on the branch where dimensionType() == e holds
            target = _dispatch_target(prog, f, e)
            rule.check(target == clsname, '%s%s|%s' % (f.q, f.sig[:40], e.split('::')[-1]), rep.where(f), f.label(),
                       '%s -> positionToIndex(.., %s)' % (e.split('::')[-1], clsname),
                       '%s is routed to the %s overload' % (e.split('::')[-1], target))
    return rule


def _dispatch_target(prog, f, enumerator):
    """class of the dimension parameter of the overload called when dimensionType()==enumerator"""
    sem = Sem(prog)
    order = []
    for c in f.calls(q='nix::util::positionToIndex'):
        facts = sem.facts_at(f, c.id)
        pos = [t for (t, pol) in facts if pol and t[0] == 'b' and t[1] == '==' and t[3][0] == 'e']
        neg = [t for (t, pol) in facts if (not pol) and t[0] == 'b' and t[1] == '==' and t[3][0] == 'e']
        sig = c.callee.get('sig') or ''
        cls = [k for k in ('SampledDimension', 'SetDimension', 'RangeDimension', 'DataFrameDimension') if ('const nix::%s &' % k) in sig]
        order.append((pos, neg, cls[0] if cls else None))
    for pos, neg, cls in order:
        if any(t[3] == ('e', enumerator) for t in pos):
            return cls
    # fall-through branch: all tested enumerators are known false and this one was not tested
    for pos, neg, cls in order:
        if not pos and not any(t[3] == ('e', enumerator) for t in neg):
            return cls
    return None


# ---------------------------------------------------------------------------------------------
def run_match_tables(prog, rep):
    """Symbolic decision structure of the three arithmetic helpers per PositionMatch rule."""
    rule = rep.rule('R-MATCH', 'per matching rule the helper uses the documented rounding and exact-hit adjustment (symbolic result on every abstract path)', floor=15)
    for q, posname, extra in (('getSampledIndex', 'position', True), ('getSetIndex', 'position', False), ('getDataFrameIndex', 'position', False)):
        f = prog.fn(q)
        for m in enumerators(prog, 'nix::PositionMatch'):
            args = []
            for p in f.params:
                if 'PositionMatch' in p['type']:
                    args.append(('e', m))
                else:
                    args.append((p['name'],))
            it = GenericInterp(prog)
            res = it.enumerate(f, this=None, args=args)
            mm = m.split('::')[-1]
            problems = []
            for assign, out, log, fields in res:
                if out[0] != 'ret':
                    problems.append('throws')
                    continue
                val = out[1]
                fn_used = [c[1] for c in find_calls(val, ('ceil', 'floor', 'round', 'std::ceil', 'std::floor', 'std::round'))]
                fn_used = set(x.replace('std::', '') for x in fn_used)
                is_none = not fn_used and not contains(val, 0.0) and not _has_count(val)
                clipped_count = _has_count(val) and not fn_used
                want_fn = {'GreaterOrEqual': 'ceil', 'Greater': 'ceil', 'Less': 'floor', 'LessOrEqual': 'floor', 'Equal': 'round'}[mm]
                # exactness flag decided on this path?
                eq = [v for k, v in assign.items() if k[0] == 'cmp' and 'fabs' in repr(k)]
                exact = None
                if eq:
                    # key is ('cmp','<', eps, fabs(..)) negated for <= : recover the truth of "fabs(..) <= eps"
                    k = [k for k in assign if k[0] == 'cmp' and 'fabs' in repr(k)][0]
                    v = assign[k]
                    exact = (not v) if (k[1] == '<' and 'fabs' in repr(k[3]) and 'fabs' not in repr(k[2])) else v
                if fn_used and fn_used != {want_fn}:
                    problems.append('%s uses %s, expected %s' % (mm, sorted(fn_used), want_fn))
                    continue
                if extra and eq:
                    # the exact-hit test compares the position with the coordinate of the rounded sample: |r * interval + offset - position| <= eps
                    # (judged as polynomials over the atoms, so any algebraically equal spelling is accepted)
                    k = [k for k in assign if k[0] == 'cmp' and 'fabs' in repr(k)][0]
                    fa = [c for c in find_calls(k, ('fabs', 'std::fabs', 'std::abs', 'abs'))]
                    if fa:
                        inner = fa[0][2]
                        rounded = [c for c in find_calls(inner, ('ceil', 'floor', 'round', 'std::ceil', 'std::floor', 'std::round'))]
                        R = rounded[0] if rounded else None
                        got = _poly(inner)
                        # (a negative rounded value is clipped to sample 0 before the test: r = 0)
                        want = _poly(('bin', '-', ('bin', '+', ('bin', '*', R if R is not None else 0.0, ('sampling_interval',)), ('offset',)), ('position',)))
                        neg = {m_: -c for m_, c in (want or {}).items()}
                        if want is None or (got != want and got != neg):
                            problems.append('the exact-hit test is |%s|, which is not |r * interval + offset - position| (the coordinate of sample r): positions on a sample are misjudged when offset != 0 and interval != 1' % _show_poly(got))
                plus = contains(val, '+') and _adjust(val, '+')
                minus = _adjust(val, '-')
                if mm == 'Greater' and fn_used and exact is True and not plus:
                    problems.append('Greater on an exact hit does not step to the next index')
                if mm == 'Greater' and fn_used and exact is False and plus:
                    problems.append('Greater steps to the next index although the position is not on a sample')
                if mm == 'GreaterOrEqual' and (plus or minus):
                    problems.append('GreaterOrEqual adjusts the rounded index')
                if mm == 'LessOrEqual' and (plus or minus):
                    problems.append('LessOrEqual adjusts the rounded index')
                if mm == 'Less' and fn_used and exact is True and not minus:
                    problems.append('Less on an exact hit does not step to the previous index')
                if mm == 'Less' and fn_used and exact is False and minus:
                    problems.append('Less steps back although the position is not on a sample')
                if mm == 'Equal' and fn_used and exact is not True:
                    problems.append('Equal returns an index although the position is not on a sample')
                if mm == 'Equal' and exact is True and is_none and not _clip_none(assign):
                    problems.append('Equal returns no index on an exact hit')
            rule.check(not problems, '%s|%s' % (q, mm), rep.where(f), f.label(),
                       '%s: %s with the documented exact-hit adjustment (%d abstract paths)' % (mm, {'GreaterOrEqual': 'ceil', 'Greater': 'ceil', 'Less': 'floor', 'LessOrEqual': 'floor', 'Equal': 'round'}[mm], len(res)),
                       '; '.join(sorted(set(problems))[:4]))
    return rule


def _poly(t):
    """expand a symbolic arithmetic value into {monomial (sorted tuple of atoms): coefficient}; non-arithmetic subterms are atoms"""
    if isinstance(t, bool):
        return {('?',): 1.0}
    if isinstance(t, (int, float)):
        return {(): float(t)} if t != 0 else {}
    if isinstance(t, tuple) and len(t) == 4 and t[0] == 'bin' and t[1] in ('+', '-', '*'):
        a, b = _poly(t[2]), _poly(t[3])
        out = {}
        if t[1] in ('+', '-'):
            sgn = 1.0 if t[1] == '+' else -1.0
            for m, c in a.items():
                out[m] = out.get(m, 0.0) + c
            for m, c in b.items():
                out[m] = out.get(m, 0.0) + sgn * c
        else:
            for m1, c1 in a.items():
                for m2, c2 in b.items():
                    m = tuple(sorted(m1 + m2, key=repr))
                    out[m] = out.get(m, 0.0) + c1 * c2
        return {m: c for m, c in out.items() if abs(c) > 1e-12}
    if isinstance(t, tuple) and len(t) == 3 and t[0] in ('cast', 'paren'):
        return _poly(t[2])
    return {(t,): 1.0}


def _show_poly(p):
    def atom(a):
        if isinstance(a, tuple) and len(a) == 1:
            return str(a[0])
        if isinstance(a, tuple) and a and a[0] == 'call':
            return 'r'
        return '?'
    return ' + '.join('%s%s' % ('' if c == 1 else ('-' if c == -1 else '%g*' % c), '*'.join(atom(a) for a in m) or '1') for m, c in sorted(p.items(), key=repr)) or '0'


def _has_count(val):
    return contains(val, 'size') or 'tick_count' in repr(val) or 'label_count' in repr(val)


def _clip_none(assign):
    return any(k[0] == 'cmp' and ('count' in repr(k) or 'size' in repr(k)) for k in assign)


def _adjust(val, op):
    """the returned index is rounded (+|-) 1"""
    if isinstance(val, tuple):
        if len(val) == 4 and val[0] == 'bin' and val[1] == op and val[3] in (1, 1.0) and ('ceil' in repr(val[2]) or 'floor' in repr(val[2]) or 'round' in repr(val[2]) or val[2] == 0.0):
            return True
        return any(_adjust(x, op) for x in val)
    return False


def run_match_range(prog, rep):
    """getIndex (range dimension): symbolic result per matching rule on every consistent abstract path."""
    rule = rep.rule('R-MATCH-RANGE', 'range helper: boundary cases and lower_bound adjustment per matching rule (symbolic, consistent abstract paths)', floor=5)
    f = prog.fn('getIndex')
    P = ('p',)
    T = ('ticks',)
    B = ('call', 'begin', T)
    E = ('call', 'end', T)
    for m in enumerators(prog, 'nix::PositionMatch'):
        mm = m.split('::')[-1]
        it = GenericInterp(prog)
        res = it.enumerate(f, this=None, args=[P, T, ('e', m)])
        problems = []
        npaths = 0
        for assign, out, log, fields in res:
            if out[0] != 'ret':
                problems.append('throws')
                continue
            val = out[1]
            lbs = find_calls(val, ('std::lower_bound', 'lower_bound')) or [c for k in assign for c in find_calls(k, ('std::lower_bound', 'lower_bound'))]
            L = lbs[0] if lbs else None

            def A(key):
                return assign.get(key)
            empty = A(('cmp', '==') + tuple(sorted([('call', 'size', T), 0], key=repr)))
            if empty is None:
                emp = [v for k, v in assign.items() if k[0] == 'bool' and k[1] == 'empty']
                empty = emp[0] if emp else None
            none = (val == ('g', 'boost::none')) or (isinstance(val, tuple) and len(val) == 2 and val[0] == 'new' and 'optional' in str(val[1]))
            if empty:
                if not none:
                    problems.append('no ticks but an index is returned')
                continue
            below = [v for k, v in assign.items() if k[0] == 'cmp' and k[1] == '<' and k[2] == P and k[3] == ('deref', B)]
            above = [v for k, v in assign.items() if k[0] == 'cmp' and k[1] == '<' and k[3] == P and 'prev' in repr(k[2])]
            if below and below[0]:
                want0 = mm in ('Greater', 'GreaterOrEqual')
                if want0 and val != 0:
                    problems.append('position before the first tick with %s should give index 0, gives %r' % (mm, val))
                if not want0 and not none:
                    problems.append('position before the first tick with %s should give no index' % mm)
                continue
            if above and above[0]:
                wantl = mm in ('Less', 'LessOrEqual')
                if wantl and not (isinstance(val, tuple) and val[:2] == ('bin', '-') and 'prev' in repr(val[2]) and val[3] == B):
                    problems.append('position after the last tick with %s should give the last index, gives %r' % (mm, val))
                if not wantl and not none:
                    problems.append('position after the last tick with %s should give no index' % mm)
                continue
            if L is None:
                problems.append('in-range position handled without lower_bound')
                continue
            dL = ('deref', L)
            exact = A(('cmp', '==') + tuple(sorted([dL, P], key=repr)))
            gt = A(('cmp', '<', P, dL))        # *lower > position
            lt = A(('cmp', '<', dL, P))        # *lower < position : impossible for lower_bound in range
            at_end = A(('cmp', '==') + tuple(sorted([L, E], key=repr)))
            # consistency of the abstract path with the meaning of lower_bound
            if lt is True or at_end is True:
                continue
            if exact is True and gt is True:
                continue
            if exact is False and gt is False:
                continue
            npaths += 1
            idx = lambda x: ('bin', '-', x, B)
            Lp1 = ('bin', '+', L, 1)
            Lm1 = ('bin', '-', L, 1)
            has_next = A(('cmp', '<', Lp1, E))
            has_prev = A(('cmp', '<', Lm1, B))   # (lower-1) >= begin  ==  not (lower-1 < begin)
            is_exact = exact if exact is not None else (None if gt is None else (not gt))
            want = 'unknown'
            if mm == 'GreaterOrEqual':
                want = idx(L)
            elif mm == 'Greater':
                if is_exact is True:
                    want = idx(Lp1) if has_next else ('none' if has_next is False else 'unknown')
                elif is_exact is False:
                    want = idx(L)
            elif mm == 'LessOrEqual':
                if is_exact is True:
                    want = idx(L)
                elif is_exact is False:
                    want = idx(Lm1) if has_prev is False else ('none' if has_prev else 'unknown')
            elif mm == 'Less':
                want = idx(Lm1) if has_prev is False else ('none' if has_prev else 'unknown')
            elif mm == 'Equal':
                if is_exact is True:
                    want = idx(L)
                elif is_exact is False:
                    want = 'none'
            # accepted alternative idiom: std::upper_bound(first, end, p) = first tick > p
            ubs = find_calls(val, ('std::upper_bound', 'upper_bound')) or [c for k in assign for c in find_calls(k, ('std::upper_bound', 'upper_bound'))]
            if mm == 'Greater' and ubs:
                U = ubs[0]
                okargs = len(U) >= 5 and U[3] == E and U[4] == P and (U[2] == B or U[2] == L)
                u_end = A(('cmp', '==') + tuple(sorted([U, E], key=repr)))
                u_in = A(('cmp', '<', U, E))
                inside = (u_end is False) or (u_in is True)
                outside = (u_end is True) or (u_in is False)
                if not okargs:
                    problems.append('Greater: upper_bound is not taken over [.., end) for the position: %r' % (U,))
                elif inside:
                    if val != idx(U):
                        problems.append('Greater: expected the index of the first tick > position, got %r' % (val,))
                elif outside:
                    if not none:
                        problems.append('Greater: no tick is greater than the position but %r is returned' % (val,))
                else:
                    problems.append('Greater: the upper_bound result is turned into an index without comparing it with end(): a position on the last tick gives index n (one past the axis) instead of no index')
                continue
            if want == 'unknown':
                problems.append('%s: result %r decided without establishing the facts it depends on (%r)' % (mm, val, sorted(assign.items(), key=repr)[-3:]))
            elif want == 'none':
                if not none:
                    problems.append('%s: expected no index, got %r' % (mm, val))
            elif val != want:
                problems.append('%s: expected %r, got %r' % (mm, want, 'no index' if none else val))
        if npaths == 0:
            problems.append('no consistent in-range path')
        rule.check(not problems, 'getIndex|%s' % mm, rep.where(f), f.label(), '%s: boundary cases and lower_bound adjustment as specified (%d in-range paths)' % (mm, npaths),
                   '; '.join(sorted(set(problems))[:3]))
    return rule


def run_pos_pass(prog, rep, floor=8):
    """positionToIndex overloads hand the position they were given to the overload they delegate to, unchanged"""
    from ..sem import split_sig
    rule = rep.rule('R-POSPASS', 'a positionToIndex overload that delegates to another overload passes its own position and its own unit (scalar or vector) unchanged: no rounding, truncation, rescaling or substitution on the way', floor=floor)
    n = 0
    for f in sorted(prog.funcs.values(), key=lambda f: (f.file, f.line)):
        if f.body is None or not f.q.startswith('nix::util::positionToIndex'):
            continue
        PASS_T = ('double', 'std::vector<double>', 'std::string', 'std::vector<std::string>', 'std::vector<basic_string<char>>', 'string', 'vector<string>')
        pp = [p for p in f.params if p['type'].replace('const ', '').replace(' &', '').strip() in PASS_T]
        if not pp:
            continue
        own = {('v', p['lid'], p['name']): p for p in pp}
        for c in f.calls():
            if c.callee.get('name') != 'positionToIndex':
                continue
            sig = split_sig(c.callee.get('sig') or '()')
            args = real_args(c)
            for j, t in enumerate(sig):
                tt = t.replace('const ', '').replace(' &', '').strip()
                if tt not in PASS_T or j >= len(args) or args[j] is None:
                    continue
                a = unwrap(args[j])
                refs = [x for x in a.walk() if x.k == 'ref' and ('v', x.decl.get('lid'), x.decl.get('name')) in own]
                if not refs and tt in ('double', 'std::vector<double>'):
                    continue        # built from other data (element of a vector, computed end): other rules
                if not refs and not [p for p in pp if 'string' in p['type']]:
                    continue        # the caller has no unit of its own to pass on
                n += 1
                k = len([x for x in f.calls() if x.id < c.id and x.callee.get('name') == 'positionToIndex'])
                key = '%s(%s)|call%d|arg%d' % (f.q, ','.join(p['type'] for p in f.params)[:90], k, j)
                if term(a) in own:
                    rule.ok(key, rep.where(c), f.label(), 'passes %s unchanged' % a.src(30))
                elif a.k in ('initlist', 'construct') and len([x for x in a.c if x is not None]) == 1 and term(unwrap([x for x in a.c if x is not None][0])) in own:
                    rule.ok(key, rep.where(c), f.label(), 'wraps %s unchanged' % a.src(30))
                elif ((a.k == 'call' and a.get('op') == '[]') or a.k == 'subscript') and term(unwrap(a.c[0])) in own and tt in ('double', 'std::string', 'string'):
                    rule.ok(key, rep.where(c), f.label(), 'passes the element %s unchanged' % a.src(30))
                else:
                    rule.bad(key, rep.where(c), f.label(), 'delegates with %s instead of the position it was given: positions that differ from the transformed value select other elements' % a.src(50))
    if n < floor:
        raise AnalysisBroken('R-POSPASS: only %d delegating position arguments found' % n)
    return rule


def run_dispatch_total(prog, rep):
    """the positionToIndex dispatchers (the overloads taking a generic Dimension) answer only through the overload of the matching
    dimension class: no path returns before that overload was asked"""
    rule = rep.rule('R-DISPATCH-TOTAL', 'the positionToIndex overloads that take a generic Dimension return nothing but what the overload of the matching dimension class answered (no return ahead of the dispatch)', floor=2)
    n = 0
    for f in sorted(prog.funcs.values(), key=lambda f: (f.file, f.line)):
        if f.body is None or not f.q.startswith('nix::util::positionToIndex') or not any(p['type'].replace('const ', '').replace(' &', '').strip() in ('nix::Dimension', 'Dimension') for p in f.params):
            continue
        calls = [c for c in f.calls() if (c.callee or {}).get('name') == 'positionToIndex']
        if not calls:
            continue
        n += 1
        first = min(c.id for c in calls)
        early = [r for r in f.walk() if r.k == 'return' and r.id < first]
        rule.check(not early, '%s(%s)' % (f.q, ','.join(p['type'] for p in f.params)[:90]), rep.where(early[0] if early else f), f.label(),
                   'every return follows the dispatch (%d typed overloads called)' % len(calls),
                   'returns at line %s before any typed overload was asked: for the inputs that take this path the list / position is answered by the dispatcher itself and can differ from the single conversions' % (early[0].l if early else '?'))
    if n < 2:
        raise AnalysisBroken('R-DISPATCH-TOTAL: only %d dispatchers found' % n)
    return rule
