"""R-VAL validate-before-create (C03, C08, C12).

Every front-end function that calls a backend interface method create<K>(name, ...)
must, on every path to that call, have (a) validated the same name (non-empty, no '/')
and the type where the callee takes one (non-empty), and (b) tested for an existing
entity of the same kind K under the same name, with the positive outcome leading away
(throw) from the call."""
import re

from ..extract import AnalysisBroken
from ..sem import Sem, term, fact_nonempty, fact_noslash, real_args


def iface_params(prog, cal):
    """parameter names of an interface method from the record table"""
    rec = prog.records.get(cal.get('cls'))
    if not rec:
        return None
    for m in rec['methods']:
        if m['usr'] == cal.get('usr'):
            return m['params']
    return None


def kind_of_has_function(prog, fn):
    """If fn is 'bool has<K>(const string &x) const' whose verdict is exactly
    backend()->hasEntity({x, ObjectType::K}) return K, else None."""
    if fn.body is None or not fn.params:
        return None
    rets = [n for n in fn.walk() if n.k == 'return']
    if len(rets) != 1:
        return None
    r = rets[0]
    calls = [n for n in r.walk() if n.k == 'call' and n.callee and n.callee.get('name') == 'hasEntity']
    if len(calls) != 1:
        return None
    t = term(calls[0])
    # ('m','hasEntity', backend, ('new','nix::Identity', ('v',lid,name), ('e','nix::ObjectType::K')))
    lid0 = fn.params[0]['lid']
    s = repr(t)
    if "('v', %d," % lid0 not in s:
        return None
    m = re.search(r"\('e', 'nix::ObjectType::(\w+)'\)", s)
    if not m:
        return None
    # the return expression must be the call itself (no negation)
    if term(r.c[0]) != t:
        return None
    return m.group(1)


def has_test_kind(prog, t):
    """t is the term of a condition known false. If it is a same-name existence test,
    return (kind, name_term)"""
    if not isinstance(t, tuple) or not t:
        return None
    if t[0] == 'm' and t[1] and t[1].startswith('has') and len(t) == 4:
        name = t[3]
        obj = t[2]
        if t[1] == 'hasEntity':
            s = repr(name)
            m = re.search(r"\('e', 'nix::ObjectType::(\w+)'\)", s)
            if m and name[0] == 'new' and len(name) >= 3:
                return (m.group(1), name[2])
            return None
        kind = t[1][3:]
        return (kind, name, obj)
    return None


def run(prog, rep, props_note=''):
    sem = Sem(prog)
    rule = rep.rule('R-VAL', 'front-end create<K>(name,..): name/type validated and same-kind duplicate test on every path', floor=27)
    # sub-obligation: nameCheck really is the no-slash predicate
    nc = prog.fn('nix::util::nameCheck')
    rets = [n for n in nc.walk() if n.k == 'return']
    okp = False
    if len(rets) == 1:
        t = term(rets[0].c[0])
        p0 = ('v', nc.params[0]['lid'], nc.params[0]['name'])
        if t[0] == 'b' and t[1] == '==' and t[2][:3] == ('m', 'find', p0) and t[2][3] in (('k', '/'), ('k', 47)) and 'npos' in repr(t[3]):
            okp = True
        if t[0] == 'b' and t[1] == '==' and t[3][:3] == ('m', 'find', p0) and 'npos' in repr(t[2]):
            okp = True
    rule.check(okp, 'nix::util::nameCheck|predicate', rep.where(nc), nc.q,
               'nameCheck(name) is name.find("/") == npos', 'nameCheck no longer returns name.find("/") == npos; the no-slash fact cannot be derived from it')

    entries = 0
    for fn in sorted(prog.funcs.values(), key=lambda f: (f.file, f.line)):
        if not fn.q.startswith('nix::') or fn.q.startswith('nix::hdf5::') or fn.q.startswith('nix::base::I'):
            continue
        if fn.body is None:
            continue
        for call in fn.calls():
            cal = call.callee
            if not (cal.get('cls') or '').startswith('nix::base::I'):
                continue
            nm = cal.get('name') or ''
            if not nm.startswith('create') or not cal.get('virtual'):
                continue
            ps = iface_params(prog, cal)
            if not ps or ps[0]['name'] != 'name' or 'string' not in ps[0]['type']:
                continue
            kind = nm[len('create'):]
            args = real_args(call)
            name_t = term(args[0])
            entries += 1
            facts = sem.facts_at(fn, call.id)
            key = '%s%s|%s' % (fn.q, fn.sig, nm)
            where = rep.where(call)
            # (a) name / type validation
            miss = []
            if not fact_nonempty(facts, name_t):
                miss.append('name not known non-empty')
            if not fact_noslash(facts, name_t):
                miss.append("name not known free of '/'")
            if len(ps) > 1 and ps[1]['name'] == 'type' and 'string' in ps[1]['type']:
                type_t = term(args[1])
                if not fact_nonempty(facts, type_t):
                    miss.append('type not known non-empty')
            rule.check(not miss, key + '|validate', where, fn.label(),
                       'name%s validated before backend %s' % ('/type' if len(ps) > 1 and ps[1]['name'] == 'type' else '', nm),
                       'no dominating validation before backend %s(%s): %s' % (nm, args[0].src(), ', '.join(miss)))
            # (b) same-kind duplicate test
            found = None
            wrongkind = []
            for (t, pol) in facts:
                if pol is not False:
                    continue
                hk = has_test_kind(prog, t)
                if not hk:
                    continue
                k2 = hk[0]
                if hk[1] != name_t:
                    continue
                if t[1] != 'hasEntity' and len(hk) > 2:
                    # resolve the has-function: front-end helper or backend interface method
                    cands = [c for c in fn.calls(name=t[1]) if term(c) == t]
                    if cands:
                        tgt = cands[0].callee
                        if (tgt.get('cls') or '').startswith('nix::base::I'):
                            k2 = t[1][3:]
                        else:
                            f2 = prog.funcs.get(tgt.get('usr'))
                            k2 = kind_of_has_function(prog, f2) if f2 is not None else None
                if k2 == kind:
                    found = t
                else:
                    wrongkind.append((t[1], k2))
            if found is not None:
                rule.ok(key + '|duplicate', where, fn.label(), 'existence test %s(%s) of kind %s leads away from backend %s' % (found[1], args[0].src(), kind, nm))
            else:
                rule.bad(key + '|duplicate', where, fn.label(),
                         'no dominating same-kind existence test on %s before backend %s%s' %
                         (args[0].src(), nm, (' (tests of another kind: %s)' % wrongkind) if wrongkind else ''))
    if entries < 13:
        raise AnalysisBroken('R-VAL: only %d named-create entry points found (13 confirmed by hand)' % entries)
    return rule


def run_link_first(prog, rep):
    """R-LINKFIRST (C12i): inside H5Group, whether a child 'exists' is answered by the link test (hasObject -> H5Lexists) - the
    test the duplicate-name checks use - before the name is opened by path: every call of objectOfType / H5Oopen on a name is
    reached only where hasObject(<same name>) is known to be true.  H5Oopen resolves paths ('.', 'a/..'), H5Lexists answers for
    links: without the guard 'has' and 'create' disagree for such names and a creating constructor re-identifies an existing group."""
    from ..sem import term, unwrap, real_args
    rule = rep.rule('R-LINKFIRST', 'H5Group opens a child by name (objectOfType / H5Oopen) only under a true hasObject(name) link test', floor=2)
    n = 0
    for f in sorted(prog.methods_of('nix::hdf5::H5Group'), key=lambda f: (f.file, f.line)):
        if f.body is None or f.cfg is None:
            continue
        for c in f.calls():
            nm = c.callee.get('name')
            if nm not in ('objectOfType', 'H5Oopen'):
                continue
            args = real_args(c)
            narg = args[0] if nm == 'objectOfType' else (args[1] if len(args) > 1 else None)
            if narg is None:
                continue
            base = unwrap(narg)
            # H5Oopen(hid, name.c_str(), ..): the name variable under .c_str()
            while base is not None and base.k == 'call' and base.get('member') and (base.callee or {}).get('name') in ('c_str', 'data') and base.c:
                base = unwrap(base.c[0])
            if base is None or base.k != 'ref':
                continue
            lid = base.decl.get('lid')
            n += 1
            x = c
            while x is not None and f.cfg.pos.get(x.id) is None:
                x = x.p
            guards = f.cfg.guards_at(x.id) if x is not None else []
            ok = False
            for gid, pol in guards or []:
                g = f.nodes.get(gid)
                if g is None:
                    continue
                g = unwrap(g)
                while g is not None and g.k == 'unop' and g.get('op') == '!' and g.c:
                    g = unwrap(g.c[0])
                    pol = not pol
                if g is None or not pol:
                    continue
                if g.k == 'call' and (g.callee or {}).get('name') == 'hasObject':
                    ga = real_args(g)
                    r = unwrap(ga[0]) if ga else None
                    if r is not None and r.k == 'ref' and r.decl.get('lid') == lid:
                        ok = True
            # objectOfType itself may open the name it is given: its callers carry the obligation
            if nm == 'H5Oopen' and f.name == 'objectOfType':
                rule.ok('%s|%s|delegated' % (f.q, nm), rep.where(c), f.label(), 'opened inside objectOfType: the guard is checked at its call sites')
                continue
            rule.check(ok, '%s|%s' % (f.q, nm), rep.where(c), f.label(), 'reached only where hasObject(%s) holds' % base.decl.get('name'),
                       '%s(%s) is not guarded by hasObject(%s): H5Oopen follows paths (".", "x/..") that are not links, so hasGroup/hasData can be true for a '
                       'name the duplicate test (H5Lexists) reports as free - the creating constructor then writes a new entity_id onto an existing group' % (nm, base.decl.get('name'), base.decl.get('name')))
    if n < 3:
        raise AnalysisBroken('R-LINKFIRST: only %d open-by-name sites found in H5Group' % n)
    return rule
