"""R-SEED / R-ID (C12): entropy behind util::createId, ids flow from createId into every
creating constructor, id keys are written only by the creating constructors."""
import re

from ..extract import AnalysisBroken
from ..sem import term, unwrap, real_args, Sem, split_sig
from .r_hdr import str_arg

ENGINE = re.compile(r'(mt19937|mersenne_twister|minstd_rand|linear_congruential|ranlux|knuth_b|default_random_engine|taus88|lagged_fibonacci|rand48|ecuyer|kreutzer|hellekalek)')
ENTROPY_TYPE = re.compile(r'(random_device|random_generator_pure|boost::uuids::random_generator$|boost::uuids::random_generator\b(?!_))')
SHARED_CALLS = ('time', 'clock', 'getTime', 'now', 'gettimeofday', 'clock_gettime')
PROCESS_CALLS = ('getpid',)


def seed_sources(node):
    """classify what a seed expression is computed from"""
    uniq = []
    shared = []
    for n in node.walk():
        if n.k in ('call', 'construct') and n.callee:
            nm = n.callee.get('name') or ''
            cls = n.callee.get('cls') or ''
            q = n.callee.get('q') or ''
            if 'random_device' in cls or 'random_device' in q:
                uniq.append(q)
            elif nm in SHARED_CALLS:
                shared.append(q)
            elif nm in PROCESS_CALLS:
                shared.append(q + ' (process id: recycled, not entropy)')
    return uniq, shared


def entropy_of(fn, sem, var, depth=0):
    """('unique'|'shared', explanation) for a (static) local PRNG / generator variable"""
    if depth > 4:
        raise AnalysisBroken('R-SEED: generator chain too deep in %s' % fn.q)
    ty = var.get('ctype') or var.get('type') or ''
    init = var.c[0] if var.c else None
    args = []
    if init is not None:
        i = unwrap(init)
        if i.k == 'construct':
            args = [x for x in i.c if x is not None and x.k != 'defarg']
        else:
            args = [i]
    if 'random_generator_pure' in ty:
        return 'unique', '%s draws every id from operating-system entropy (stateless)' % var.get('name')
    if 'basic_random_generator' in ty or re.search(r'uuids::random_generator', ty):
        if not args:
            if var.get('static') or True:
                return 'shared', ('%s is a pseudo-random generator seeded once: its in-process state is duplicated by fork(), so parent and child '
                                  '(or two children) generate the same id sequence' % var.get('name'))
        # constructed over an engine: &ran / ran
        a = unwrap(args[0])
        while a is not None and a.k == 'unop' and a.get('op') == '&':
            a = unwrap(a.c[0])
        if a is not None and a.k == 'ref' and a.decl.get('kind') in ('local', 'staticlocal'):
            v = sem.local_vars(fn).get(a.decl.get('lid'))
            if v is not None:
                return entropy_of(fn, sem, v, depth + 1)
        raise AnalysisBroken('R-SEED: cannot resolve the engine behind %s at %s' % (var.get('name'), var.loc()))
    if 'random_device' in ty:
        return 'unique', '%s is a random_device' % var.get('name')
    if ENGINE.search(ty):
        if not args:
            return 'shared', 'engine %s is default-constructed (constant seed)' % var.get('name')
        uniq, shared = [], []
        for a in args:
            u, s = seed_sources(a)
            uniq += u
            shared += s
            # a seed read from another local
            for r in a.walk():
                if r.k == 'ref' and r.decl.get('kind') in ('local', 'staticlocal'):
                    v = sem.local_vars(fn).get(r.decl.get('lid'))
                    if v is not None and v is not var:
                        try:
                            kind, why = entropy_of(fn, sem, v, depth + 1)
                            (uniq if kind == 'unique' else shared).append(why)
                        except AnalysisBroken:
                            if v.c and v.c[0] is not None:
                                u2, s2 = seed_sources(v.c[0])
                                uniq += u2
                                shared += s2
        if uniq:
            return 'shared', ('engine %s is seeded from %s but keeps in-process state that fork() duplicates: parent and child generate the same '
                              'id sequence' % (var.get('name'), ', '.join(uniq)))
        return 'shared', 'engine %s is seeded only from %s: two processes started in the same second generate the same id sequence' % (
            var.get('name'), ', '.join(shared) if shared else 'constants')
    raise AnalysisBroken('R-SEED: unrecognised generator type %s for %s at %s' % (ty, var.get('name'), var.loc()))


def run_seed(prog, rep):
    sem = Sem(prog)
    rule = rep.rule('R-SEED', 'the generator behind util::createId has a process-unique entropy source; createId returns the formatted uuid', floor=2)
    f = prog.fn('nix::util::createId')
    rets = [n for n in f.walk() if n.k == 'return']
    if len(rets) != 1:
        raise AnalysisBroken('createId: expected a single return')
    r = unwrap(rets[0].c[0])
    ok_fmt = r.k == 'call' and (r.callee or {}).get('q') == 'boost::uuids::to_string'
    rule.check(ok_fmt, 'createId|format', rep.where(rets[0]), f.q, 'returns boost::uuids::to_string(uuid)', 'createId does not return boost::uuids::to_string of a uuid: %s' % r.src())
    gen_var = None
    if ok_fmt:
        u = unwrap(r.c[0])
        src = None
        if u.k == 'ref' and u.decl.get('kind') == 'local':
            v = sem.local_vars(f).get(u.decl.get('lid'))
            if v is not None and v.c and v.c[0] is not None and not sem.mods(f).get(u.decl.get('lid')):
                src = unwrap(v.c[0])
        elif u.k == 'call':
            src = u
        if src is not None and src.k == 'call' and src.get('op') == '()':
            g = unwrap(src.c[0])
            if g.k == 'ref' and g.decl.get('kind') in ('local', 'staticlocal'):
                gen_var = sem.local_vars(f).get(g.decl.get('lid'))
            elif g.k == 'construct':
                # temporary generator: random_generator()()
                ty = g.t or ''
                if ENTROPY_TYPE.search(ty) and not [x for x in g.c if x is not None and x.k != 'defarg']:
                    rule.ok('createId|entropy', rep.where(src), f.q, 'temporary %s default-constructed' % ty)
                    return rule
    if gen_var is None:
        raise AnalysisBroken('R-SEED: cannot find the uuid generator object in createId (unrecognised shape)')
    kind, why = entropy_of(f, sem, gen_var)
    rule.check(kind == 'unique', 'createId|entropy', rep.where(gen_var), f.q, why, why)
    return rule


def run_ids(prog, rep):
    sem = Sem(prog)
    rule = rep.rule('R-ID', 'every creating constructor receives util::createId(); id keys are written only by creating constructors', floor=16)
    # creating constructors: backend ctors with a string parameter named id
    ctors = {}
    for f in prog.funcs.values():
        if f.kind == 'ctor' and f.q.startswith('nix::hdf5::') and f.cls and f.cls.endswith('HDF5'):
            for i, p in enumerate(f.params):
                if p['name'] == 'id' and 'string' in p['type']:
                    ctors[f.usr] = (f, i)
    if len(ctors) < 10:
        raise AnalysisBroken('R-ID: only %d creating constructors found' % len(ctors))
    sites = 0
    for fn in sorted(prog.funcs.values(), key=lambda f: (f.file, f.line)):
        if not fn.q.startswith('nix::hdf5::') or fn.body is None:
            continue
        if fn.kind == 'ctor':
            continue  # base-class delegation passes the parameter on
        for n in fn.walk():
            if n.k not in ('call', 'construct') or not n.callee:
                continue
            seen_site = False
            for tgt in prog.resolve_call(n):
                if tgt.usr not in ctors or seen_site:
                    continue
                seen_site = True
                idx = ctors[tgt.usr][1]
                args = real_args(n)
                if idx >= len(args):
                    continue
                a = unwrap(args[idx])
                sites += 1
                okc = False
                why = a.src()
                if a.k == 'call' and (a.callee or {}).get('q') == 'nix::util::createId':
                    okc = True
                elif a.k == 'ref' and a.decl.get('kind') == 'local':
                    v = sem.local_vars(fn).get(a.decl.get('lid'))
                    if v is not None and v.c and v.c[0] is not None and not sem.mods(fn).get(a.decl.get('lid')):
                        i = unwrap(v.c[0])
                        okc = i.k == 'call' and (i.callee or {}).get('q') == 'nix::util::createId'
                        why = '%s = %s' % (v.get('name'), i.src())
                rule.check(okc, '%s|%s' % (fn.q, tgt.cls), rep.where(n), fn.label(),
                           'new %s receives id %s' % (tgt.cls.split('::')[-1], why),
                           'new %s receives id %s, which is not a fresh util::createId()' % (tgt.cls.split('::')[-1], why))
    if sites < 12:
        raise AnalysisBroken('R-ID: only %d entity creation sites found (12 confirmed by hand)' % sites)
    # who writes the id keys
    for fn in sorted(prog.funcs.values(), key=lambda f: (f.file, f.line)):
        if not fn.q.startswith('nix::hdf5::') or fn.body is None:
            continue
        for c in fn.calls(name='setAttr'):
            args = real_args(c)
            k = str_arg(args[0]) if args else None
            if k == 'entity_id':
                is_creating = fn.kind == 'ctor' and fn.usr in ctors
                val_ok = False
                if is_creating:
                    v = unwrap(args[1])
                    val_ok = v.k == 'ref' and v.decl.get('kind') == 'param' and v.decl.get('name') == 'id'
                rule.check(is_creating and val_ok, '%s|writes-entity_id' % fn.q, rep.where(c), fn.label(),
                           'entity_id written by a creating constructor from its id parameter',
                           'entity_id is written outside a creating constructor (an existing entity would be re-identified)')
            elif k == 'id' and fn.cls == 'nix::hdf5::FileHDF5':
                v = unwrap(args[1])
                okv = v.k == 'call' and (v.callee or {}).get('q') == 'nix::util::createId'
                rule.check(fn.name in ('createHeader', 'forceId') and okv, '%s|writes-file-id' % fn.q, rep.where(c), fn.label(),
                           'file id written by %s from util::createId()' % fn.name,
                           'file id written by %s (only createHeader and forceId may) or not from createId' % fn.name)
    return rule


def run_id_forward(prog, rep):
    """the id a creating constructor is given travels unchanged through the constructor chain down to EntityHDF5"""
    from ..sem import term, unwrap, real_args, split_sig
    rule = rep.rule('R-ID-FWD', 'creating constructors of the backend entity classes hand the id (and the name, type) they are given to the base / delegated constructor unchanged', floor=30)
    n = 0
    for f in sorted(prog.funcs.values(), key=lambda f: (f.file, f.line)):
        if f.body is None or f.kind != 'ctor' or not (f.cls or '').startswith('nix::hdf5::'):
            continue
        own = {p['name']: ('v', p['lid'], p['name']) for p in f.params if p['name'] in ('id', 'name', 'type') and 'string' in p['type']}
        if 'id' not in own:
            continue
        k = 0
        for x in f.walk():
            if x.k != 'ctorinit' or x.a.get('what') == 'member':
                continue
            cons = [c for c in x.c if c is not None and c.k == 'construct']
            if not cons:
                continue
            tgt = prog.funcs.get((cons[0].callee or {}).get('usr'))
            args = [a for a in real_args(cons[0]) if a is not None]
            if tgt is None or not tgt.params:
                continue
            for j, p in enumerate(tgt.params):
                if p['name'] not in own or j >= len(args) or 'string' not in p['type']:
                    continue
                n += 1
                k += 1
                t = term(unwrap(args[j]))
                rule.check(t == own[p['name']], '%s%s|%s->%s|%d' % (f.q, f.sig[:50], p['name'], tgt.cls.split('::')[-1], k), rep.where(cons[0]), f.label(),
                           '%s handed on unchanged' % p['name'],
                           'the %s given to the constructor reaches %s as %s: the entity is created under another %s than the one the caller generated / asked for' % (p['name'], tgt.cls.split('::')[-1], args[j].src(50), p['name']))
    if n < 30:
        raise AnalysisBroken('R-ID-FWD: only %d forwarded constructor arguments found' % n)
    return rule
