"""C15: DataFrame cell codec (Janus), compound layouts, row/cell/column I/O shapes, schema order, front-end column buffers."""
import re

from ..absint import GenericInterp
from ..extract import AnalysisBroken
from ..sem import Sem, Flow, term, unwrap, real_args
from ..tables import enum_switch_table
from .r_prop import ctype_table, PROP_TYPES

DF = 'nix::hdf5::DataFrameHDF5'


def _case_info(stmts):
    """(local var name -> ctype, calls, memcpy calls) of one switch group"""
    vars_ = {}
    calls = []
    for s in stmts:
        if s is None:
            continue
        for n in s.walk():
            if n.k == 'var':
                vars_[n.get('name')] = (n.get('ctype') or n.get('type') or '').strip()
            elif n.k == 'call' and n.callee:
                calls.append(n)
    return vars_, calls


def run_cell_codec(prog, rep):
    rule = rep.rule('R-DF-CODEC', 'Janus: a cell of DataType E is copied to/from the row buffer through a C object of the type of E, with its own size', floor=14)
    T2E = ctype_table(prog)
    cv = prog.fn('nix::hdf5::Janus::copyValue')
    cd = [f for f in prog.fns('nix::hdf5::Janus::copyData') if len(f.params) == 3]
    if len(cd) != 1:
        raise AnalysisBroken('anchor vanished: Janus::copyData(Variant &, size_t, DataType)')
    cd = cd[0]
    for f, direction in ((cv, 'to-buffer'), (cd, 'from-buffer')):
        sw, tab, after = enum_switch_table(f)
        # the switch operand: the cell's own type / the member's decoded type
        for e in PROP_TYPES:
            key = 'Janus::%s|%s' % ('copyValue' if f is cv else 'copyData', e)
            stmts = tab.get('nix::DataType::' + e)
            if stmts is None:
                rule.bad(key, rep.where(sw), f.label(), 'no case for %s: cells of this type cannot be transferred' % e)
                continue
            vars_, calls = _case_info(stmts)
            mc = [c for c in calls if c.callee.get('name') == 'memcpy']
            acc = [c for c in calls if c.callee.get('name') in ('get', 'set')]
            probs = []
            if len(vars_) != 1:
                probs.append('expected one transfer object, found %s' % sorted(vars_))
            vn, vt = (list(vars_.items())[0] if vars_ else (None, None))
            if vt is not None and T2E.get(vt) != e:
                probs.append('the transfer object %s has C type %s (to_data_type: %s)' % (vn, vt, T2E.get(vt)))
            if len(mc) != 1:
                probs.append('expected one memcpy')
            else:
                a = [x.src(30).replace(' ', '') for x in real_args(mc[0])]
                want = ['mem', '&' + str(vn)] if direction == 'to-buffer' else ['&' + str(vn), 'mem']
                if a[:2] != want:
                    probs.append('memcpy(%s, %s, ...) does not copy %s' % (a[0], a[1], 'the object into the buffer' if direction == 'to-buffer' else 'the buffer into the object'))
                if a[2] != 'sizeof(%s)' % vn:
                    probs.append('memcpy size is %s, not sizeof(%s)' % (a[2], vn))
            if not acc:
                probs.append('the Variant is not accessed')
            else:
                g = acc[0]
                if direction == 'to-buffer':
                    # v.get(var)  or  var = v.get<T>()
                    if real_args(g):
                        if real_args(g)[0].src(20) != vn:
                            probs.append('get() fills %s' % real_args(g)[0].src(20))
                    elif (g.callee.get('targs') or [None])[0] != vt:
                        probs.append('get<%s>() does not yield the transfer type' % (g.callee.get('targs') or [None])[0])
                    if mc and not g.id < mc[0].id:
                        probs.append('the buffer is filled before the value is fetched')
                else:
                    if not real_args(g) or real_args(g)[0].src(20) != vn:
                        probs.append('set() is not given the transfer object')
                    if mc and not mc[0].id < g.id:
                        probs.append('the Variant is set before the bytes are copied')
            rule.check(not probs, key, rep.where(stmts[0]) if stmts and stmts[0] is not None else rep.where(sw), f.label(), '%s via %s %s' % (e, vt, vn), '; '.join(probs))
    # Janus(dst, cells): the member a cell is written to is named by the cell (its name, or member_name(its col)), never by its position in the list
    jc = [f for f in prog.fns('nix::hdf5::Janus::Janus') if f.body is not None and 'Cell' in f.params[1]['type']]
    if len(jc) != 1:
        raise AnalysisBroken('anchor vanished: Janus(dst, cells)')
    jc = jc[0]
    sem = Sem(prog)
    fl = Flow(sem, jc)
    ins = [c for c in jc.calls(name='insert') if len(real_args(c)) == 3]
    probs = []
    if not ins:
        probs.append('no member is inserted')
    else:
        org = fl.origins(real_args(ins[0])[0])
        cellvars = [v for v in sem.local_vars(jc).values() if 'Cell' in (v.get('type') or '') and 'vector' not in (v.get('type') or '')]
        cname = cellvars[0].get('name') if cellvars else None
        for o in org:
            if o[0] == 'call' and o[1] == 'member_name':
                a = real_args(o[2])[0].src(30).replace(' ', '')
                aorg = fl.origins(real_args(o[2])[0])
                from_cell = any(x[0] == 'field' for x in aorg) or a == '%s.col' % cname
                idx_leak = [x for x in aorg if x[0] == 'lit' or (x[0] == 'call' and x[1] in ('size', 'member_count'))]
                defs_ok = a == '%s.col' % cname
                if not defs_ok:
                    # follow a local: every definition must be the cell's own column
                    t = term(unwrap(real_args(o[2])[0]))
                    v = sem.local_vars(jc).get(t[1]) if t[0] == 'v' else None
                    init = v.c[0].src(60).replace(' ', '') if v is not None and v.c and v.c[0] is not None else ''
                    defs_ok = init == '%s.col' % cname
                if not defs_ok:
                    probs.append('the member name is looked up with %s, which is not the cell\'s own column: a complete list of cells in non-schema order is written to the wrong columns' % real_args(o[2])[0].src(30))
        names = [x for x in org if x[0] == 'call' and x[1] in ('member_name', 'haveName')]
        if not any(x[1] == 'member_name' for x in names):
            probs.append('index-addressed cells are not resolved through member_name')
    rule.check(not probs, 'Janus(cells)|member-of-cell', rep.where(jc), jc.label(), 'member = cell.name or member_name(cell.col)', '; '.join(sorted(set(probs))))
    # copyData(v, i): offset and type of the same member i
    ci = [f for f in prog.fns('nix::hdf5::Janus::copyData') if len(f.params) == 2][0]
    mo = [c for c in ci.calls(name='member_offset')]
    mt = [c for c in ci.calls(name='member_type')]
    iv = ci.params[1]['name']
    ok = bool(mo) and bool(mt) and real_args(mo[0])[0].src(10) == iv and real_args(mt[0])[0].src(10) == iv
    inner = [c for c in ci.calls(name='copyData')]
    fl = Flow(Sem(prog), ci)
    if inner:
        a = real_args(inner[0])
        ok = ok and 'member_offset' in fl.call_names(a[1]) and {'data_type_from_h5', 'member_type'} <= fl.call_names(a[2]) and a[0].src(10) == ci.params[0]['name']
    rule.check(ok and bool(inner), 'Janus::copyData(v, i)|same-member', rep.where(ci), ci.label(), 'offset and decoded type of member i are used together', 'offset and type are not taken from the same member index')
    # copyData() / copyData(res): all members, result slot i <- member i, name/col of member i
    for f in [g for g in prog.fns('nix::hdf5::Janus::copyData') if len(g.params) <= 1 and (not g.params or 'vector' in g.params[0]['type'])]:
        loops = [n for n in f.walk() if n.k == 'for']
        probs = []
        if len(loops) != 1:
            probs.append('expected one loop over the members')
        else:
            lp = loops[0]
            cond = term(unwrap(lp.c[1])) if lp.c[1] is not None else None
            fl = Flow(Sem(prog), f)
            if not (cond and cond[0] == 'b' and cond[1] == '<' and 'member_count' in fl.call_names(lp.c[1])):
                probs.append('the loop does not run over member_count() members')
            inner = [c for c in lp.calls(name='copyData') if len(real_args(c)) == 2] if hasattr(lp, 'calls') else [c for c in lp.walk() if c.k == 'call' and (c.callee or {}).get('name') == 'copyData']
            if not inner:
                probs.append('members are not copied')
            else:
                a = real_args(inner[0])
                m = re.match(r'^(\w+)\[(\w+)\]$', a[0].src(20).replace(' ', ''))
                if not m or m.group(2) != a[1].src(10):
                    probs.append('result slot %s is filled from member %s' % (a[0].src(20), a[1].src(10)))
            for n in lp.walk():
                if n.k == 'assign':
                    l, r = n.c[0].src(30).replace(' ', ''), n.c[1].src(40).replace(' ', '')
                    m = re.match(r'^\w+\[(\w+)\]\.(\w+)$', l)
                    if m and m.group(2) == 'name' and 'member_name(%s)' % m.group(1) not in r:
                        probs.append('cell name is %s' % r)
                    if m and m.group(2) == 'col' and r != m.group(1):
                        probs.append('cell column index is %s' % r)
        rule.check(not probs, 'Janus::copyData%s|all-members' % ('(res)' if f.params else '()'), rep.where(f), f.label(), 'slot i <- member i for all member_count() members', '; '.join(probs))
    return rule


def _monotone_scalar(fl, fn, lid):
    """defs of a scalar accumulator: initialised with 0 and otherwise only increased by a size"""
    defs = fl.defs.get(lid, [])
    why = []
    ninc = 0
    for d in defs:
        if d[0] != 'expr':
            why.append('defined through %s' % d[0])
            continue
        node = d[2] if len(d) > 2 else None
        if node is None:
            t = term(unwrap(d[1]))
            if not (t == ('k', 0) or (isinstance(t, tuple) and t and t[-1] == ('k', 0)) or repr(t).endswith("('k', 0))")):
                why.append('initialised with %s' % d[1].src(20))
        else:
            op = node.get('op')
            if op == '+=':
                ninc += 1
                # unsigned += is monotone (padding for alignment is fine: packed is not required, ordered is)
                ty = (unwrap(d[1]).t or '').replace('const ', '')
                if not (ty in ('size_t', 'unsigned long', 'std::size_t', 'unsigned int', 'unsigned long long', 'hsize_t') or 'size_type' in ty):
                    why.append('increased by %s of signed type %s (may move backwards)' % (d[1].src(20), ty))
            elif op == '=':
                t = term(unwrap(d[1]))
                selfplus = isinstance(t, tuple) and len(t) == 4 and t[0] == 'b' and t[1] == '+' and (t[2] == ('v', lid, t[2][2] if len(t[2]) > 2 else None) or t[3][:2] == ('v', lid))
                if t != ('k', 0) and not selfplus:
                    why.append('reassigned (%s = %s)' % (node.c[0].src(12), d[1].src(20)))
            else:
                why.append('modified by %s' % op)
    return why, ninc


def run_layout(prog, rep):
    """member offsets handed to insert() come from one monotone running sum of member sizes, in member order"""
    rule = rep.rule('R-DF-LAYOUT', 'every compound built for frame I/O places member i at the running sum of the sizes of members 0..i-1 (one monotone counter, member order = offset order)', floor=5)
    sem = Sem(prog)
    builders = [prog.fn(DF + '::createData')] + [f for f in prog.fns('nix::hdf5::Janus::Janus')] + [prog.fn(DF + '::writeColumn'), prog.fn(DF + '::readColumn')]
    for f in builders:
        if f.body is None:
            raise AnalysisBroken('anchor vanished: body of %s' % f.q)
        fl = Flow(sem, f)
        ins = [c for c in f.calls(name='insert') if 'DataType' in (c.callee.get('cls') or '') and len(real_args(c)) == 3]
        key = '%s%s|offsets' % (f.q, '(%s)' % f.params[1]['type'].replace('const ', '').replace(' &', '').replace('std::', '') if f.kind == 'ctor' else '')
        if not ins:
            rule.bad(key, rep.where(f), f.label(), 'no member is inserted into the compound type')
            continue
        probs = []
        for c in ins:
            off = unwrap(real_args(c)[1])
            t = term(off)
            in_loop = any(a.k in ('for', 'while', 'rangefor') for a in c.ancestors())
            if t == ('k', 0):
                if in_loop:
                    probs.append('every member is placed at offset 0')
                continue
            if t[0] == 'v':
                why, ninc = _monotone_scalar(fl, f, t[1])
                if why:
                    probs.append('offset counter %s is %s' % (t[2], '; '.join(why)))
                elif in_loop and ninc == 0:
                    probs.append('offset counter %s is never advanced' % t[2])
                elif in_loop:
                    # the increment must follow the insert inside the same loop body (offset of i excludes size of i)
                    incs = [d[2] for d in fl.defs.get(t[1], []) if len(d) > 2 and d[2] is not None and d[2].get('op') == '+=']
                    if not any(i.id > c.id for i in incs):
                        probs.append('counter %s is advanced before member i is inserted (offset includes its own size)' % t[2])
                continue
            m = off
            base = unwrap(m.c[0]) if m.k in ('subscript', 'call') and m.c else None
            if base is not None and base.k == 'ref' and base.decl.get('lid') in fl.defs:
                edefs = [d for d in fl.defs[base.decl['lid']] if d[0] == 'elem' and len(d) > 2 and d[2] is not None]
                if len(edefs) != 1:
                    srcs = sorted(set(d[1].src(12) for d in edefs))
                    probs.append('the offset of member i is taken from %d assignment sites (%s): member order and offset order can disagree, and code that walks members by index then reads another column' % (len(edefs), ', '.join(srcs)))
                    continue
                st = term(unwrap(edefs[0][1]))
                if st[0] != 'v':
                    probs.append('offset table is filled with %s' % edefs[0][1].src(20))
                    continue
                why, ninc = _monotone_scalar(fl, f, st[1])
                if why or ninc == 0:
                    probs.append('offset counter %s is %s' % (st[2], '; '.join(why) or 'never advanced'))
                else:
                    incs = [d[2] for d in fl.defs.get(st[1], []) if len(d) > 2 and d[2] is not None and d[2].get('op') == '+=']
                    if not any(i.id > edefs[0][2].id for i in incs):
                        probs.append('counter %s is advanced before the offset of member i is recorded' % st[2])
                continue
            probs.append('offset %s is not a running sum' % off.src(20))
        # total size handed to makeCompound derives from member sizes
        mk = [c for c in f.calls(name='makeCompound')]
        if not mk:
            probs.append('no compound type is made')
        else:
            n = fl.call_names(real_args(mk[0])[0])
            if not ({'size', 'accumulate'} & n):
                probs.append('compound size %s does not derive from the member sizes' % real_args(mk[0])[0].src(20))
        rule.check(not probs, key, rep.where(ins[0]), f.label(), '%d insert site(s): running-sum offsets' % len(ins), '; '.join(sorted(set(probs))[:3]))
    return rule


def _janus_pair(sem, f, buf, typ):
    """buf is X.data and typ is X.dtype of one local Janus X"""
    tb, tt = term(unwrap(buf)), term(unwrap(typ))
    if not (tb[:2] == ('mem', 'data') and tt[:2] == ('mem', 'dtype') and tb[2] == tt[2] and tb[2][0] == 'v'):
        return False
    v = sem.local_vars(f).get(tb[2][1])
    return v is not None and 'Janus' in (v.get('type') or '')


def run_io(prog, rep):
    rule = rep.rule('R-DF-IO', 'row/cell access transfers exactly row r; column access selects (offset, count) with a one-member compound of the requested type; strings copied before reclaim', floor=8)
    sem = Sem(prog)

    def lit_of(n):
        return lit(n)

    for nm, sink in (('writeCells', 'write'), ('writeRow', 'write')):
        f = prog.fn('%s::%s' % (DF, nm))
        w = [c for c in f.calls(name=sink)]
        probs = []
        rowp = f.params[0]['name']
        if len(w) != 1:
            probs.append('expected one write')
        else:
            a = real_args(w[0])
            if not _janus_pair(sem, f, a[0], a[1]):
                probs.append('does not write the Janus buffer with its own type')
            if lit_of(a[2]) != '{1}' or lit_of(a[3]) != '{%s}' % rowp:
                probs.append('selection is count=%s offset=%s, expected {1} / {%s}' % (lit_of(a[2]), lit_of(a[3]), rowp))
        # every cell the caller gave is transferred: the Janus is built from the parameter itself (writeCells) / from one cell per value (writeRow)
        jv = [v for v in sem.local_vars(f).values() if 'Janus' in (v.get('type') or '')]
        if not jv or jv[0].c[0] is None:
            probs.append('no Janus is built')
        else:
            jargs = [term(unwrap(x)) for x in jv[0].c[0].walk() if x.k == 'ref' and x.decl.get('kind') in ('param', 'local')]
            if nm == 'writeCells':
                pv_ = ('v', f.params[1]['lid'], f.params[1]['name'])
                if pv_ not in jargs:
                    lst = [t for t in jargs if t[0] == 'v' and t[2] != 'dt']
                    probs.append('the cells handed to HDF5 are %s, not the list the caller gave: a filtered or rewritten list can drop cells (index-addressed cells all carry the empty name)' % (lst[0][2] if lst else '?'))
        rule.check(not probs, '%s::%s' % (DF, nm), rep.where(f), f.label(), 'write(j.data, j.dtype, {1}, {row})', '; '.join(probs))
    for nm in ('readCells', 'readRow'):
        f = prog.fn('%s::%s' % (DF, nm))
        rowp = f.params[0]['name']
        rd = [c for c in f.calls(name='read')]
        cp = [c for c in f.calls(name='copyData')]
        vr = [c for c in f.calls(name='vlenReclaim')]
        probs = []
        lv = sem.local_vars(f)
        if len(rd) != 1:
            probs.append('expected one read')
        else:
            a = real_args(rd[0])
            if not _janus_pair(sem, f, a[0], a[1]):
                probs.append('does not read into the Janus buffer with its own type')
            cnt = [v for v in lv.values() if v.get('name') == a[2].src(20)]
            off = [v for v in lv.values() if v.get('name') == a[3].src(20)]
            if not cnt or not off or lit_of(cnt[0].c[0]) != '{1}' or lit_of(off[0].c[0]) != '{%s}' % rowp:
                probs.append('selection is not count {1} at offset {%s}' % rowp)
        if not cp:
            probs.append('the buffer is not decoded')
        if not vr:
            probs.append('variable-length memory is not reclaimed')
        if rd and cp and not rd[0].id < cp[0].id:
            probs.append('decoded before read')
        if cp and vr and not cp[0].id < vr[0].id:
            probs.append('strings are reclaimed before they are copied into the result')
        rets = [n for n in f.walk() if n.k == 'return' and n.c and n.c[0] is not None]
        if cp and rets:
            res = rets[-1].c[0].src(20)
            tgt = real_args(cp[0])[0].src(20) if real_args(cp[0]) else None
            if tgt is not None and tgt != res:
                probs.append('the decoded vector %s is not the one returned (%s)' % (tgt, res))
            if tgt is None:
                v = [x for x in lv.values() if x.get('name') == res]
                if not v or v[0].c[0] is None or 'copyData' not in v[0].c[0].src(30):
                    probs.append('the returned cells are not the decoded ones')
        rule.check(not probs, '%s::%s' % (DF, nm), rep.where(f), f.label(), 'read(j.data, j.dtype, {1}, {row}) -> copyData -> vlenReclaim', '; '.join(probs))
    # readRow requests all members in member order; writeRow names cell k after member k
    f = prog.fn(DF + '::readRow')
    gen = [c for c in f.calls(name='generate')]
    okg = False
    if gen:
        src = lam_src(f)
        m = re.search(r'(\w+) = (?:\([\w ]+\))?\s*(\w+)\+\+', src)
        okg = m is not None and ('member_name(%s)' % m.group(1)) in src
        colsv = [v for v in sem.local_vars(f).values() if v.get('name') == 'cols']
        nv = [v for v in sem.local_vars(f).values() if m is not None and v.get('name') == m.group(2)]
        okg = okg and bool(colsv) and 'member_count' in repr(term(colsv[0].c[0])) and bool(nv) and term(nv[0].c[0]) == ('k', 0)
        ga = [x.src(20) for x in real_args(gen[0])[:2]]
        okg = okg and ga == ['cols.begin()', 'cols.end()']
    rule.check(okg, DF + '::readRow|all-columns-in-order', rep.where(f), f.label(), 'requests member_name(0..member_count-1) in order', 'the requested column list is not the members in order')
    f = prog.fn(DF + '::writeRow')
    src = lam_src(f)
    m = re.search(r'(\w+) = (?:\([\w ]+\))?\s*(\w+)\+\+', src)
    flat = src.replace(' ', '')
    okw = m is not None and ('member_name(%s)' % m.group(1)) in src and re.search(r'member_name\(%s\),v' % m.group(1), flat) is not None
    if not okw:
        # index-addressed cells: Cell{k, v} with k = i++ (the cell carries the member index instead of its name)
        m2 = re.search(r'Cell\((?:\(unsignedint\))?(\w+)\+\+,v\)', flat)
        if m2:
            m = re.match(r'()(.*)', m2.group(1))
            okw = True
    iv = [v for v in sem.local_vars(f).values() if m is not None and v.get('name') == m.group(2)]
    okw = okw and bool(iv) and term(iv[0].c[0]) == ('k', 0)
    tr = [c for c in f.calls(name='transform')]
    okw = okw and bool(tr) and [x.src(20) for x in real_args(tr[0])[:2]] == ['vals.cbegin()', 'vals.cend()']
    rule.check(okw, DF + '::writeRow|value-k-to-member-k', rep.where(f), f.label(), 'value k is written under the name of member k, for all values', 'values are not paired with the members in order')
    # rows
    f = [x for x in prog.fns(DF + '::rows') if x.params][0]
    se = [c for c in f.calls(name='setExtent')]
    rule.check(bool(se) and lit_of(real_args(se[0])[0]) == '{%s}' % f.params[0]['name'], DF + '::rows(n)', rep.where(f), f.label(), 'setExtent({n})', 'the row count is not set to n')
    g = [x for x in prog.fns(DF + '::rows') if not x.params][0]
    fl = Flow(sem, g)
    rets = [n for n in g.walk() if n.k == 'return' and n.c and n.c[0] is not None]
    rule.check(bool(rets) and 'size' in fl.call_names(rets[0].c[0]) and '[0]' in rets[0].c[0].src(40), DF + '::rows()', rep.where(g), g.label(), 'rows() = extent[0] of the data set', 'rows() is not the first extent')
    # column access
    for nm, sink in (('writeColumn', 'write'), ('readColumn', 'read')):
        f = prog.fn('%s::%s' % (DF, nm))
        pn = [p['name'] for p in f.params]   # name, offset, count, dtype, data
        it = GenericInterp(prog, watch=lambda n: (n.callee or {}).get('name') in ('write', 'read', 'offsetCount2DataSpaces', 'insert', 'finish', 'vlenReclaim', 'data_type_to_h5_memtype'))
        res = it.enumerate(f, this='THIS', args=[(p,) for p in pn])
        probs = []
        nstr = nnum = 0
        for assign, out, log, fields in res:
            if out[0] != 'ret':
                continue
            names = [l[0] for l in log]
            isstr = [v for k, v in assign.items() if k[0] == 'cmp' and k[1] == '==' and ('e', 'nix::DataType::String') in k]
            oc = [l for l in log if l[0] == 'offsetCount2DataSpaces']
            ins = [l for l in log if l[0] == 'insert']
            io = [l for l in log if l[0] == sink]
            mt = [l for l in log if l[0] == 'data_type_to_h5_memtype']
            if not oc or not ins or not io or not mt:
                probs.append('path without selection/insert/%s (%s)' % (sink, names))
                continue
            if mt[0][1] != (pn[3],):
                probs.append('memory type is made from %r, not from the requested element type' % (mt[0][1],))
            if ins[0][2] != (pn[0],) or ins[0][3] != 0:
                probs.append('the compound member is %r at %r, expected the column name at 0' % (ins[0][2], ins[0][3]))
            c, o = oc[0][2], oc[0][3]
            if pn[2] not in repr(c) or pn[1] in repr(c) or pn[1] not in repr(o) or pn[2] in repr(o):
                probs.append('selection (count=%r, offset=%r) does not keep the roles of count and offset' % (c, o))
            if isstr and isstr[0]:
                nstr += 1
                if sink == 'read':
                    if 'finish' not in names or 'vlenReclaim' not in names or not (names.index('read') < names.index('finish') < names.index('vlenReclaim')):
                        probs.append('string column: read -> finish (copy out) -> vlenReclaim order not kept (%s)' % names)
                    if pn[4] in repr(io[0][2]) and 'StringWriter' not in repr(io[0][2]):
                        probs.append('string column is read into the caller buffer directly')
                else:
                    if 'StringReader' not in repr(io[0][2]):
                        probs.append('string column is written from the std::string objects directly (not marshalled to char*)')
            else:
                nnum += 1
                if io[0][2] != (pn[4],):
                    probs.append('numeric column does not use the caller buffer')
        if not (nstr and nnum):
            probs.append('paths do not cover string and numeric columns (%d/%d)' % (nstr, nnum))
        rule.check(not probs, '%s::%s' % (DF, nm), rep.where(f), f.label(), 'one-member compound (name, 0, memtype(dtype)); selection (count, offset); %s' % ('marshalled strings' if sink == 'write' else 'strings copied out before reclaim'), '; '.join(sorted(set(probs))[:3]))
    return rule


def run_schema(prog, rep):
    rule = rep.rule('R-DF-SCHEMA', 'column i keeps name, type and unit i: createData writes member i / units[i] from column i, columns() reads them back with the same index', floor=3)
    sem = Sem(prog)
    f = prog.fn(DF + '::createData')
    cols = f.params[0]['name']
    probs = []
    ins = [c for c in f.calls(name='insert') if len(real_args(c)) == 3]
    if len(ins) != 1:
        probs.append('expected one insert site')
    else:
        a = [x.src(30).replace(' ', '') for x in real_args(ins[0])]
        m = re.match(r'^%s\[(\w+)\]\.name$' % cols, a[0])
        if not m or a[2] != 'dtypes[%s]' % m.group(1) or not re.match(r'^\w+\[%s\]$' % m.group(1), a[1]):
            probs.append('insert(%s, %s, %s) does not use one index for name, offset and type' % tuple(a))
    ft = [c for c in f.calls(name='data_type_to_h5_filetype')]
    if not ft or not re.match(r'^%s\[(\w+)\]\.dtype$' % cols, real_args(ft[0])[0].src(30).replace(' ', '')):
        probs.append('the member type is not the file type of the column type')
    else:
        i = re.match(r'^%s\[(\w+)\]\.dtype$' % cols, real_args(ft[0])[0].src(30).replace(' ', '')).group(1)
        asg = [n for n in f.walk() if n.k in ('assign', 'call') and n.get('op') == '=' and n.c[0].src(20).replace(' ', '') == 'dtypes[%s]' % i]
        if not asg:
            probs.append('dtypes[i] is not filled from column i')
    lam = lam_src(f).replace(' ', '')
    loop_form = False
    for x in f.walk():      # units[i] = cols[i].unit
        if x.k in ('assign', 'call') and x.get('op') == '=' and len(x.c) == 2:
            lt, rt = term(unwrap(x.c[0])), term(unwrap(x.c[1]))
            if isinstance(lt, tuple) and lt[0] == 'op' and lt[1] == '[]' and isinstance(rt, tuple) and rt[0] == 'mem' and rt[1] == 'unit' \
                    and isinstance(rt[2], tuple) and rt[2][0] == 'op' and rt[2][1] == '[]' and rt[2][3] == lt[3] and rt[2][2][0] == 'v' and rt[2][2][2] == cols:
                loop_form = True
    if not loop_form and not re.search(r'%s\[\w+\+\+\]\.unit' % cols, lam):
        probs.append('units are not generated from the columns in order')
    # verbatim: wherever a column's unit or name is read in createData, the value stored is that field itself
    for x in f.walk():
        if x.k == 'member' and (x.decl or {}).get('name') in ('unit', 'name') and (x.decl or {}).get('cls', '').endswith('Column'):
            par = _full_expr(f, x)
            if par is not None and term(unwrap(par)) != term(x):
                probs.append('the column %s is stored as %s, not verbatim' % (x.decl.get('name'), par.src(50)))
    sa = [c for c in f.calls(name='setAttr')]
    if not sa or real_args(sa[0])[0].src(10) != '"units"':
        probs.append('units are not stored under "units"')
    cdt = [c for c in f.calls(name='createData')]
    if not cdt or lit(real_args(cdt[0])[2]) != '{0}':
        probs.append('the frame is not created with 0 rows')
    hd = [c for c in f.calls(name='hasData')]
    rule.check(not probs and bool(hd), DF + '::createData', rep.where(f), f.label(), 'member i = (cols[i].name, running offset, filetype(cols[i].dtype)); units[i] = cols[i].unit', '; '.join(probs))
    g = prog.fn(DF + '::columns')
    probs = []
    seen = {}
    for n in g.walk():
        if n.k in ('assign', 'call') and n.get('op') == '=' and len(n.c) == 2:
            l, r = n.c[0].src(30).replace(' ', ''), n.c[1].src(60).replace(' ', '')
            m = re.match(r'^cols\[(\w+)\]\.(\w+)$', l)
            if m:
                seen[m.group(2)] = (m.group(1), r)
    for n in g.walk():
        if n.k in ('assign', 'call') and n.get('op') == '=' and len(n.c) == 2:
            lt, rt = term(unwrap(n.c[0])), term(unwrap(n.c[1]))
            if isinstance(lt, tuple) and lt[0] == 'mem' and lt[1] in ('unit', 'name') and isinstance(lt[2], tuple) and lt[2][0] == 'op' and lt[2][1] == '[]':
                idx = lt[2][3]
                exact = (isinstance(rt, tuple) and rt[0] == 'op' and rt[1] == '[]' and rt[3] == idx) if lt[1] == 'unit' else \
                        (isinstance(rt, tuple) and rt[0] == 'm' and rt[1] == 'member_name' and rt[-1] == idx)
                if not exact:
                    probs.append('the %s of a column is read back as %s, not verbatim' % (lt[1], n.c[1].src(50)))
    want = {'dtype': 'data_type_from_h5(dt.member_type(%s))', 'name': 'dt.member_name(%s)', 'unit': 'units[%s]'}
    for k, pat in want.items():
        if k not in seen:
            probs.append('%s of a column is not filled' % k)
        elif (pat % seen[k][0]) not in seen[k][1]:
            probs.append('cols[%s].%s = %s' % (seen[k][0], k, seen[k][1]))
    ga = [c for c in g.calls(name='getAttr')]
    if not ga or real_args(ga[0])[0].src(10) != '"units"':
        probs.append('units are not read from "units"')
    rule.check(not probs, DF + '::columns', rep.where(g), g.label(), 'cols[i] = (decoded member_type(i), member_name(i), units[i])', '; '.join(probs))
    # name -> index -> name helpers use the stored compound
    h = [x for x in prog.fns(DF + '::colIndex') if 'string' in x.params[0]['type'] and 'vector' not in x.params[0]['type']][0]
    rule.check(any(c.callee.get('name') == 'member_index' for c in h.calls()), DF + '::colIndex', rep.where(h), h.label(), 'index of a name is member_index(name) of the stored type', 'column lookup does not use the stored compound type')
    return rule


def _full_expr(f, x):
    """the largest value expression x is part of: a return value, the right side of an assignment, or a call argument"""
    par = {}
    for n in f.walk():
        for c in n.c:
            if c is not None:
                par[c.id] = n
    cur = x
    while True:
        p = par.get(cur.id)
        if p is None:
            return None
        if p.k == 'return':
            return cur
        if p.k in ('assign',) or (p.k == 'call' and p.get('op') == '='):
            return cur if (len(p.c) == 2 and p.c[1] is not None and p.c[1].id == cur.id) else None
        if p.k == 'call' and not p.get('op') and (p.callee or {}).get('name') in ('insert', 'push_back', 'emplace_back', 'setAttr'):
            return cur
        if p.k in ('compound', 'if', 'for', 'while', 'declstmt', 'var', 'lambda'):
            return cur if p.k == 'var' else None
        cur = p


def lit(n):
    x = nd1(term(unwrap(n)))
    return '{%s}' % (x[1] if x is not None and x[0] == 'k' else (x[2] if x is not None and x[0] == 'v' else '?'))


def nd1(t):
    """X for the term of a one-element NDSize{X} / {X}"""
    while isinstance(t, tuple) and t and t[0] in ('new', 'list', 'cast'):
        inner = [y for y in t[1:] if isinstance(y, tuple)]
        if t[0] == 'new' and 'NDSize' not in str(t[1]):
            return None
        if len(inner) != 1:
            return None
        t = inner[0]
    return t if isinstance(t, tuple) else None


def lam_src(f):
    out = []
    for n in f.walk():
        if n.k == 'lambda':
            for st in n.walk():
                if st.k in ('declstmt', 'return', 'call', 'assign') and st.p is not None and st.p.k == 'compound':
                    out.append(st.src(200))
    return ';'.join(out)


def run_front(prog, rep):
    """front-end: createDataFrame checks, column buffers"""
    rule = rep.rule('R-DF-FRONT', 'createDataFrame validates column types and duplicate names before the backend creates anything; column buffers cover the count handed to the backend', floor=6)
    sem = Sem(prog)
    cf = [f for f in prog.fns('nix::Block::createDataFrame') if len(f.params) == 4 and f.body is not None]
    if len(cf) != 1:
        raise AnalysisBroken('anchor vanished: Block::createDataFrame(name, type, cols, compression)')
    cf = cf[0]
    bc = [c for c in cf.calls(name='createDataFrame')]
    loops = [n for n in cf.walk() if n.k in ('rangefor', 'for')]
    probs = []
    if not bc:
        probs.append('backend create call gone')
    else:
        okt = okd = False
        for lp in loops:
            if not max(x.id for x in lp.walk()) < bc[0].id:
                continue
            for i in lp.walk():
                if i.k == 'if' and i.c[3] is not None and any(x.k == 'throw' for x in i.c[3].walk()):
                    cs = i.c[2].src(80)
                    if 'supports_type' in cs and cs.strip().startswith('!'):
                        okt = True
                    if 'second' in cs and cs.strip().startswith('!'):
                        okd = True
        if not okd:
            # other complete idiom: sort a copy by name, then adjacent_find / unique; adjacent_find on the list as given only sees neighbours
            adj = [c for c in cf.calls() if c.callee.get('name') in ('adjacent_find', 'unique') and c.id < bc[0].id]
            for a in adj:
                rng = unwrap(real_args(a)[0])
                base = [x for x in rng.walk() if x.k == 'ref' and x.decl.get('kind') in ('local', 'param')]
                bname = base[0].decl.get('name') if base else None
                sorted_before = any(c.callee.get('name') in ('sort', 'stable_sort') and c.id < a.id and any(x.k == 'ref' and x.decl.get('name') == bname for x in c.walk()) for c in cf.calls())
                guarded = any(i.k == 'if' and any(x is a for x in i.c[2].walk()) and i.c[3] is not None and any(x.k == 'throw' for x in i.c[3].walk()) for i in cf.walk() if i.k == 'if' and i.c[2] is not None)
                if sorted_before and guarded:
                    okd = True
                elif guarded:
                    probs.append('duplicate column names are looked for with %s on the list as given (%s is not sorted first): only neighbouring duplicates are rejected, {a, b, a} reaches the backend, which fails after the frame group exists' % (a.callee.get('name'), bname))
        if not okt:
            probs.append('column types are not checked with Variant::supports_type before the backend call')
        if not okd and not any('neighbouring' in x for x in probs):
            probs.append('duplicate column names are not rejected before the backend call (accepted idioms: set insert .second; sort + adjacent_find)')
    rule.check(not probs, 'Block::createDataFrame|column-checks', rep.where(cf), cf.label(), 'unsupported type and duplicate name both throw before backend()->createDataFrame', '; '.join(probs))
    # what libhdf5 itself refuses only after the frame group exists: an empty compound (no columns) and a Nothing column
    if bc:
        facts = sem.facts_at(cf, bc[0].id)
        cols = cf.params[2]['name']
        nonempty = any((isinstance(t, tuple) and t[0] == 'm' and t[1] == 'empty' and pol is False and cols in repr(t)) or
                       (isinstance(t, tuple) and t[0] == 'b' and 'size' in repr(t) and cols in repr(t) and ((t[1] == '==' and pol is False) or (t[1] in ('>', '!=') and pol is True)) and ('k', 0) in t) for t, pol in facts)
        rule.check(nonempty, 'Block::createDataFrame|non-empty', rep.where(bc[0]), cf.label(), 'an empty column list is refused before the backend call',
                   'the backend is reached with an empty column list: the compound type cannot be created, the call throws and the frame group stays behind')
        nothing = False
        for lp in loops:
            if not max(x.id for x in lp.walk()) < bc[0].id:
                continue
            for i in lp.walk():
                if i.k == 'if' and i.c[3] is not None and any(x.k == 'throw' for x in i.c[3].walk()) and "'nix::DataType::Nothing'" in repr(term(unwrap(i.c[2]))):
                    nothing = True
        rule.check(nothing, 'Block::createDataFrame|no-nothing-column', rep.where(cf), cf.label(), 'a column of type Nothing is refused before the backend call',
                   'a column of type Nothing passes Variant::supports_type and reaches the backend, which has no file type for it and throws after the frame group exists')
    nw = nr = 0
    for f in sorted(prog.fns('nix::DataFrame::writeColumn'), key=lambda f: f.sig):
        if f.body is None or 'string' not in f.params[0]['type']:
            continue
        nw += 1
        pn = [p['name'] for p in f.params]
        it = GenericInterp(prog, watch=lambda n: (n.callee or {}).get('name') in ('writeColumn',))
        res = it.enumerate(f, this='THIS', args=[(p,) for p in pn])
        probs = []
        nret = 0
        for assign, out, log, fields in res:
            w = [l for l in log if l[0] == 'writeColumn']
            if out[0] != 'ret' or not w:
                continue
            nret += 1
            name, off, cnt, dt, buf = w[0][2:7]
            if name != (pn[0],) or off != (pn[2],):
                probs.append('name/offset are not passed through')
            zero = [v for k, v in assign.items() if k[0] == 'cmp' and k[1] == '==' and (pn[3],) in k and 0 in k]
            over = [v for k, v in assign.items() if k[0] == 'cmp' and k[1] == '<' and k[2] == ('call', 'size', (pn[1],)) and k[3] == (pn[3],)]
            if cnt == (pn[3],):
                if not (over and over[0] is False):
                    probs.append('count is handed to the backend without count <= vals.size()')
            elif cnt != ('call', 'size', (pn[1],)):
                probs.append('count handed to the backend is %r' % (cnt,))
            if pn[1] not in repr(buf) or pn[1] not in repr(dt):
                probs.append('buffer/element type are not those of vals')
        if not nret:
            probs.append('no path reaches the backend')
        rule.check(not probs, 'DataFrame::writeColumn<%s>|buffer' % f.targs[0], rep.where(f), f.label(), 'count = vals.size() or count <= vals.size() is established (%d paths)' % nret, '; '.join(sorted(set(probs))[:2]))
    for f in sorted(prog.fns('nix::DataFrame::readColumn'), key=lambda f: f.sig):
        if f.body is None or 'string' not in f.params[0]['type']:
            continue
        pn = [p['name'] for p in f.params]
        if len(pn) == 5:
            nr += 1
            it = GenericInterp(prog, watch=lambda n: (n.callee or {}).get('name') in ('resize', 'readColumn'))
            res = it.enumerate(f, this='THIS', args=[(p,) for p in pn])
            probs = []
            nret = 0
            for assign, out, log, fields in res:
                r = [l for l in log if l[0] == 'readColumn']
                if out[0] != 'ret' or not r:
                    continue
                nret += 1
                name, off, cnt, dt, buf = r[0][2:7]
                if name != (pn[0],) or off != (pn[4],) or cnt != (pn[2],):
                    probs.append('name/offset/count are not passed through')
                rs = [l for l in log if l[0] == 'resize' and l[1] == (pn[1],) and l[2] == (pn[2],)]
                over = [v for k, v in assign.items() if k[0] == 'cmp' and k[1] == '<' and k[2] == ('call', 'size', (pn[1],)) and k[3] == (pn[2],)]
                if not rs and not (over and over[0] is False):
                    probs.append('the backend writes count elements into vals although vals was neither resized to count nor tested to hold count elements')
                if rs and log.index(rs[0]) > log.index(r[0]):
                    probs.append('vals is resized after the read')
            if not nret:
                probs.append('no path reaches the backend')
            rule.check(not probs, 'DataFrame::readColumn<%s>(count)|buffer' % f.targs[0], rep.where(f), f.label(), 'vals.resize(count) or count <= vals.size() on all %d paths' % nret, '; '.join(sorted(set(probs))[:2]))
        elif len(pn) == 4:
            it = GenericInterp(prog, watch=lambda n: (n.callee or {}).get('name') in ('readColumn',))
            res = it.enumerate(f, this='THIS', args=[(p,) for p in pn])
            probs = []
            nret = 0
            for assign, out, log, fields in res:
                r = [l for l in log if l[0] == 'readColumn']
                if out[0] != 'ret' or not r:
                    continue
                nret += 1
                a = r[0][2:]
                rsz = [v for k, v in assign.items() if k == ('truthy', (pn[2],))]
                cnt = a[2]
                if rsz and rsz[0]:
                    g = [v for k, v in assign.items() if k[0] == 'cmp' and k[1] == '<' and k[2] == ('call', 'rows', 'THIS') and k[3] == (pn[3],)]
                    if not (g and g[0] is False):
                        probs.append('rows() - offset is computed without offset <= rows()')
                    if 'rows' not in repr(cnt) or pn[3] not in repr(cnt):
                        probs.append('count for a resizing read is %r, not rows() - offset' % (cnt,))
                elif cnt != ('call', 'size', (pn[1],)):
                    probs.append('count for a non-resizing read is %r, not vals.size()' % (cnt,))
            if not nret:
                probs.append('no path reaches the inner readColumn')
            rule.check(not probs, 'DataFrame::readColumn<%s>(resize)|count' % f.targs[0], rep.where(f), f.label(), 'count = vals.size(), or rows() - offset after offset <= rows() (%d paths)' % nret, '; '.join(sorted(set(probs))[:2]))
    if nw < 2 or nr < 2:
        raise AnalysisBroken('R-DF-FRONT: %d writeColumn / %d readColumn instantiations' % (nw, nr))
    return rule


def run_overload_defaults(prog, rep, floor=3):
    """name-keyed and index-keyed overloads of one operation take the same trailing parameters with the same defaults:
    otherwise a call that omits a trailing argument compiles for both spellings but, for one of them, binds to a
    different overload through implicit conversions (size_t -> bool -> ndsize_t) and reads other rows"""
    rule = rep.rule('R-DF-OVERLOAD', 'sibling overloads that differ only in how the column / entity is named (text or index) agree on their trailing parameters and on which of them have default values', floor=floor)
    groups = {}
    seen = set()
    for f in sorted(prog.funcs.values(), key=lambda f: (f.file, f.line, f.q)):
        if not (f.cls or '').startswith('nix::') or (f.cls or '').startswith('nix::hdf5') or not f.params or (f.file, f.line) in seen:
            continue
        seen.add((f.file, f.line))
        tail = tuple(re.sub(r'<.*>', '<>', p['type']) for p in f.params[1:])
        groups.setdefault((f.cls, f.name, tail), []).append(f)
    n = 0
    for (cls, name, tail), fs in sorted(groups.items()):
        if len(fs) < 2 or not any(p.get('hasdefault') for f in fs for p in f.params):
            continue
        firsts = [f.params[0]['type'] for f in fs]
        if not (any('string' in t for t in firsts) and any('string' not in t for t in firsts)):
            continue
        n += 1
        pats = set(tuple(bool(p.get('hasdefault')) for p in f.params[1:]) for f in fs)
        rule.check(len(pats) == 1, '%s::%s(%s)' % (cls, name, ', '.join(tail)), rep.where(fs[0]), cls,
                   'text- and index-keyed overloads default the same trailing parameters',
                   'the overloads %s default different trailing parameters (%s): a call without the trailing argument binds to another overload for one spelling' % (
                       ', '.join('%s(%s, ...) line %s' % (name, f.params[0]['type'], f.line) for f in fs), sorted(pats)))
    if n < floor:
        raise AnalysisBroken('R-DF-OVERLOAD: only %d sibling overload groups found' % n)
    return rule


def run_count_respected(prog, rep):
    """DataFrame::writeColumn / readColumn: the number of rows the caller asked for is what the backend is given; the parameter is
    only replaced by the vector's length where the caller left it at 0 ('all')"""
    rule = rep.rule('R-DF-COUNT', 'DataFrame::writeColumn hands the caller\'s count to the backend; count is replaced by vals.size() only under count == 0', floor=1)
    sem = Sem(prog)
    seen = set()
    n = 0
    for f in sorted(prog.fns('nix::DataFrame::writeColumn'), key=lambda f: (f.file, f.line, f.sig)):
        if f.body is None or (f.file, f.line) in seen or 'string' not in f.params[0]['type']:
            continue
        seen.add((f.file, f.line))
        cp = [p for p in f.params if p['name'] == 'count']
        if not cp:
            continue
        n += 1
        cv = ('v', cp[0]['lid'], 'count')
        probs = []
        for a in f.walk():
            if (a.k == 'assign' or (a.k == 'call' and a.get('op') == '=')) and len(a.c) == 2 and term(unwrap(a.c[0])) == cv:
                facts = sem.facts_at(f, a.id)
                zero = any(isinstance(t, tuple) and len(t) == 4 and t[0] == 'b' and cv in t[2:4] and ('k', 0) in t[2:4] and ((t[1] == '==' and pol) or (t[1] == '!=' and not pol)) for t, pol in facts)
                if not zero:
                    probs.append('count is overwritten with %s at line %s although the caller may have asked for fewer rows: the rows behind the requested window are overwritten with the rest of the vector' % (a.c[1].src(30), a.l))
        bc = [c for c in f.calls() if (c.callee or {}).get('name') == 'writeColumn' and ((c.callee or {}).get('cls') or '').startswith('nix::base::I')]
        if not bc or cv not in [term(unwrap(x)) for x in real_args(bc[0]) if x is not None]:
            probs.append('the backend is not given the count parameter')
        rule.check(not probs, 'DataFrame::writeColumn(name)|count', rep.where(f), f.label(), 'count replaced only when it is 0, then handed to the backend', '; '.join(probs))
    if n < 1:
        raise AnalysisBroken('R-DF-COUNT: DataFrame::writeColumn(name, ...) not found')
    return rule
