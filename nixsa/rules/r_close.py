"""R-CLOSE (C11): flush scope, close sequence, front-end nullify."""
import re
from ..extract import AnalysisBroken
from ..sem import term, unwrap, real_args, Sem
from .r_hdr import HdrInterp, FH
from .r_err import throw_free_postdom, listed


def run(prog, rep):
    rule = rep.rule('R-CLOSE', 'flush is global-scope and reports failure; close releases every open object id then the file id; File::close drops the backend', floor=8)
    sem = Sem(prog)
    # ---- flush
    fl = prog.fn(FH + '::flush')
    calls = fl.calls(name='H5Fflush')
    if len(calls) != 1:
        raise AnalysisBroken('anchor vanished: H5Fflush in FileHDF5::flush')
    c = calls[0]
    scope = unwrap(c.c[1])
    rule.check(term(scope) == ('e', 'H5F_SCOPE_GLOBAL') or scope.get('macro') == 'H5F_SCOPE_GLOBAL',
               'flush|scope', rep.where(c), fl.q, 'H5Fflush(hid, H5F_SCOPE_GLOBAL)', 'H5Fflush scope is %s, not H5F_SCOPE_GLOBAL' % scope.src())
    rule.check(term(c.c[0]) == ('f', 'hid'), 'flush|id', rep.where(c), fl.q, 'flushes the file id of this object')
    # every path on which flush() reports success contains the H5Fflush call and its error state answered 'no error'
    from ..absint import GenericInterp
    it = GenericInterp(prog, watch=lambda n: (n.callee or {}).get('name') in ('H5Fflush',))
    res = it.enumerate(fl, this='THIS', args=[])
    probs = []
    n_true = 0
    for assign, out, log, fields in res:
        if out[0] != 'ret':
            continue
        if out[1] is False:
            continue        # reporting failure promises nothing
        if out[1] is not True:
            probs.append('returns %r, not a verdict derived from the H5Fflush result' % (out[1],))
            continue
        n_true += 1
        flushed = [l for l in log if l[0] == 'H5Fflush']
        ie = [v for k, v in assign.items() if k[0] == 'bool' and k[1] == 'isError' and 'H5Fflush' in repr(k)]
        ro = [v for k, v in assign.items() if k[0] == 'cmp' and k[1] == '==' and ('e', 'nix::FileMode::ReadOnly') in k and "'mode'" in repr(k)]
        if not flushed and ro == [True]:
            continue        # a file opened ReadOnly has nothing to write back
        if not flushed:
            probs.append('returns true on a path that never calls H5Fflush (taken when %s)' % ' && '.join(('' if v else '!') + repr(k)[:60] for k, v in sorted(assign.items(), key=repr)))
        elif ie != [False]:
            probs.append('returns true without having seen that H5Fflush did not fail')
    if not n_true:
        probs.append('no path reports success')
    rule.check(not probs, 'flush|verdict', rep.where(fl), fl.q, 'flush() returns true only after H5Fflush ran and did not fail (%d abstract paths)' % len(res),
               '; '.join(sorted(set(probs))))
    # ---- close
    cl = prog.fn(FH + '::close')
    it = HdrInterp(prog)
    # abstract run with an open file: loops are not interpreted here; structural obligations below
    body_calls = cl.calls()
    names = [x.callee.get('name') for x in body_calls]
    # (1) the three root handles are closed
    closed = set()
    for x in body_calls:
        if x.get('member') and x.callee.get('name') == 'close' and x.c:
            t = term(x.c[0])
            if t[0] == 'f':
                closed.add(t[1])
    rule.check({'data', 'metadata', 'root'} <= closed, 'close|root-handles', rep.where(cl), cl.q,
               'data, metadata and root handles are closed', 'root handles closed: %s (expected data, metadata, root)' % sorted(closed))
    # (2) object enumeration mask
    need = {'H5F_OBJ_GROUP', 'H5F_OBJ_DATASET', 'H5F_OBJ_DATATYPE'}

    def mask_of(node):
        ms = set()
        node = unwrap(node)
        for y in node.walk():
            if y.get('macro'):
                ms.add(y.get('macro'))
        if node.k == 'ref' and node.decl.get('kind') == 'local':
            v = sem.local_vars(cl).get(node.decl.get('lid'))
            if v is not None and v.c and v.c[0] is not None and not sem.mods(cl).get(node.decl.get('lid')):
                for y in v.c[0].walk():
                    if y.get('macro'):
                        ms.add(y.get('macro'))
        if 'H5F_OBJ_ALL' in ms:
            ms |= need
        return ms
    cnt = cl.calls(name='H5Fget_obj_count')
    ids = cl.calls(name='H5Fget_obj_ids')
    if not ids:
        raise AnalysisBroken('anchor vanished: FileHDF5::close no longer enumerates open objects with H5Fget_obj_ids')
    for c in cnt:
        rule.check(need <= mask_of(c.c[1]), 'close|count-mask', rep.where(c), cl.q,
                   'H5Fget_obj_count asks for groups, datasets and datatypes', 'H5Fget_obj_count mask lacks one of %s' % sorted(need))
    for c in ids:
        rule.check(need <= mask_of(c.c[1]), 'close|ids-mask', rep.where(c), cl.q,
                   'H5Fget_obj_ids asks for groups, datasets and datatypes', 'H5Fget_obj_ids mask lacks one of %s' % sorted(need))
    # (2b) the enumeration is unconditional: every normally returning path of close() on an open file asks libhdf5 how many
    # objects are open, and fetches their ids unless that count is 0 (no mode, flag or state decides to skip the sweep)
    from ..absint import GenericInterp
    itp = GenericInterp(prog, watch=lambda n: (n.callee or {}).get('name') in ('H5Fget_obj_count', 'H5Fget_obj_ids', 'H5Oclose', 'close', 'H5Iget_ref'))
    itp.loop_once = True
    pprobs = []
    npaths = 0
    for assign, out, log, fields in itp.enumerate(cl, this='THIS', args=[]):
        if out[0] != 'ret' or assign.get(('bool', 'isOpen', 'THIS')) is not True:
            continue
        npaths += 1
        nm = [l[0] for l in log]
        if 'H5Fget_obj_ids' in nm:
            if nm[-1:] != ['close']:
                pprobs.append('a path does not end with H5Object::close() on the file id')
            continue        # the ids were asked for on this path (with or without a count query before)
        if 'H5Fget_obj_count' not in nm:
            pprobs.append('a path closes the file without asking for the open objects (taken when %s)' % ' && '.join(('' if v else '!') + repr(k)[:60] for k, v in sorted(assign.items(), key=repr) if 'isOpen' not in repr(k) and 'loop' not in repr(k)))
            continue
        pos = [v for k, v in assign.items() if k[0] == 'cmp' and k[1] == '<' and k[2] == 0 and 'H5Fget_obj_count' in repr(k[3])]
        if 'H5Fget_obj_ids' not in nm and not (pos and pos[0] is False):
            pprobs.append('a path skips H5Fget_obj_ids although the count of open objects was not established to be 0')
        if nm[-1:] != ['close']:
            pprobs.append('a path does not end with H5Object::close() on the file id')
    if not npaths:
        pprobs.append('no returning path on an open file')
    rule.check(not pprobs, 'close|sweep-unconditional', rep.where(cl), cl.q, 'every returning path on an open file enumerates the open objects (%d abstract paths)' % npaths, '; '.join(sorted(set(pprobs))[:2]))
    # (2c) the guard of close() is the validity of the file id and nothing else: while the file id is valid, isOpen() is true
    # (C11j: isOpen() && root.isValid() - after another File object swept the shared file, close() returned at its guard and kept the id)
    io = prog.fn('nix::hdf5::FileHDF5::isOpen')
    itq = GenericInterp(prog)
    oprobs = []
    nq = 0
    for assign, out, log, fields in itq.enumerate(io, this='THIS', args=[]):
        nq += 1
        own = [v for k, v in assign.items() if k[0] == 'bool' and k[1] == 'isValid' and k[2:] == ('THIS',)]
        if out[0] != 'ret' or not own:
            oprobs.append('isOpen() has a path that does not ask isValid() of the file id (%r)' % (out,))
            continue
        if out[1] is not own[0]:
            others = [repr(k)[:60] for k in assign if not (k[0] == 'bool' and k[1] == 'isValid' and k[2:] == ('THIS',))]
            oprobs.append('isOpen() returns %r while isValid() of the file id is %r (depends on %s): close() returns at its guard and never releases a file id that is still valid' % (out[1], own[0], ', '.join(others) or '?'))
    rule.check(not oprobs and nq >= 2, 'close|guard-is-file-id', rep.where(io), io.q, 'isOpen() == isValid() of the file id on all %d abstract paths' % nq, '; '.join(sorted(set(oprobs))[:2]) or 'isOpen() does not test isValid()')
    # (3) every open object id is obtained and closed H5Iget_ref(id) times
    from ..sem import Flow
    fl = Flow(sem, cl)
    okloop = False
    detail = 'no loop that closes each enumerated id ref-count times'
    if ids:
        args = real_args(ids[0])
        cap = fl.origins(args[2])
        cap_from_count = any(o[0] == 'call' and o[1] == 'H5Fget_obj_count' for o in cap)
        # alternative: a loop that repeats the query until nothing is returned
        requery = False
        for anc in ids[0].ancestors():
            if anc.k in ('while', 'do', 'for'):
                cnd = anc.c[0] if anc.k == 'while' else (anc.c[1] if anc.k in ('do', 'for') else None)
                if cnd is not None:
                    names = fl.call_names(cnd)
                    ct = repr(term(cnd))
                    if 'H5Fget_obj_ids' in names and ("('k', 0)" in ct):
                        requery = True
        if not (cap_from_count or requery):
            detail = ('the id list handed to H5Fget_obj_ids has room for %s ids, which is not derived from H5Fget_obj_count and the query is not '
                      'repeated until it returns nothing: objects beyond that number stay open and keep the file open' % args[2].src())
        bufn = unwrap(args[3])
        while bufn is not None and bufn.k in ('call', 'cast', 'unop') and bufn.c:
            bufn = unwrap(bufn.c[0])
        buflid = bufn.decl.get('lid') if bufn is not None and bufn.k == 'ref' else None
        refc = [y for y in cl.body.walk() if y.k == 'call' and (y.callee or {}).get('name') == 'H5Iget_ref']
        for rc in refc:
            e = term(rc.c[0])
            src = fl.origins(rc.c[0])
            from_buf = any(r.k == 'ref' and r.decl.get('lid') == buflid for r in rc.c[0].walk()) or _derives_from_lid(fl, rc.c[0], buflid)
            if not from_buf:
                continue
            # the enclosing loop that produces e
            outer = None
            for anc in rc.ancestors():
                if anc.k in ('rangefor', 'for', 'while'):
                    outer = anc
                    break
            if outer is None:
                continue
            body = outer.c[7] if outer.k == 'rangefor' else (outer.c[3] if outer.k == 'for' else outer.c[1])
            if outer.k == 'for':
                # indexed loop: from 0, strictly below a bound that derives from the number of ids
                iv = [y for y in outer.c[0].walk() if y.k == 'var'] if outer.c[0] is not None else []
                ocond = unwrap(outer.c[1]) if outer.c[1] is not None else None
                okidx = bool(iv) and iv[0].c and iv[0].c[0] is not None and term(iv[0].c[0]) == ('k', 0) and ocond is not None and ocond.k == 'binop' and ocond.get('op') == '<'
                if okidx:
                    bnames = fl.call_names(ocond.c[1])
                    okidx = bool(bnames & {'H5Fget_obj_ids', 'H5Fget_obj_count', 'size'})
                if not okidx:
                    detail = 'the loop over the id list does not run from 0 to the number of ids'
                    continue
            rcvar = None
            for y in body.walk():
                if y.k == 'var' and y.c and y.c[0] is not None and unwrap(y.c[0]) is rc:
                    rcvar = ('v', y.get('lid'), y.get('name'))
            for inn in [y for y in body.walk() if y.k == 'for']:
                closes = [y for y in inn.c[3].walk() if y.k == 'call' and (y.callee or {}).get('name') in ('H5Oclose', 'H5Idec_ref') and term(y.c[0]) == e]
                cond = unwrap(inn.c[1]) if inn.c[1] is not None else None
                init = [y for y in inn.c[0].walk() if y.k == 'var'] if inn.c[0] is not None else []
                if not (closes and cond is not None and init):
                    continue
                iv = ('v', init[0].get('lid'), init[0].get('name'))
                start = term(init[0].c[0]) if init[0].c and init[0].c[0] is not None else None
                ct = term(cond)
                bound_ok = start == ('k', 0) and ct[0] == 'b' and ct[1] == '<' and ct[2] == iv and (ct[3] == rcvar or ct[3] == term(rc))
                bound_ok = bound_ok or (start == ('k', 1) and ct[0] == 'b' and ct[1] == '<=' and ct[2] == iv and (ct[3] == rcvar))
                inc = unwrap(inn.c[2]) if inn.c[2] is not None else None
                inc_ok = inc is not None and inc.k == 'unop' and inc.get('op') == '++' and term(inc.c[0]) == iv
                if bound_ok and inc_ok:
                    if cap_from_count or requery:
                        okloop = True
                else:
                    detail = 'inner close loop does not run exactly H5Iget_ref(obj) times: init %s, cond %s' % (start, cond.src())
    rule.check(okloop, 'close|refcount-loop', rep.where(ids[0] if ids else cl), cl.q, 'every open object id is obtained and closed H5Iget_ref(id) times', detail)
    # (4) the file id itself is closed last, on every path from a valid id
    fin = [x for x in body_calls if x.callee.get('q') == 'nix::hdf5::H5Object::close' and (not x.c or unwrap(x.c[0]).k == 'this')]
    okfin = False
    if fin:
        a = listed(cl, (cnt or ids)[0])
        b = listed(cl, fin[0])
        okfin = a is not None and b is not None and throw_free_postdom(cl, a.id, b.id)
        # and nothing touches the ids after it
    rule.check(okfin, 'close|file-id-last', rep.where(fin[0] if fin else cl), cl.q, 'H5Object::close() on the file id post-dominates the object enumeration',
               'the file id is not closed on every path after the open objects were released')
    # ---- front end
    fc = prog.fn('nix::File::close')
    be = [x for x in fc.calls(name='close') if (x.callee.get('cls') or '').startswith('nix::base::IFile')]
    nul = fc.calls(name='nullify')
    okfront = False
    if be and nul:
        a = listed(fc, be[0])
        b = listed(fc, nul[0])
        okfront = a is not None and b is not None and throw_free_postdom(fc, a.id, b.id)
    rule.check(okfront, 'File::close|nullify', rep.where(fc), fc.q, 'backend()->close() is followed by nullify() on every path',
               'File::close does not drop its backend pointer after closing (old handle would keep the file object alive)')
    # every other File member reaches the implementation through backend() (throws when none)
    n_acc = 0
    for f in prog.methods_of('nix::File'):
        if f.body is None:
            continue
        for m in f.walk():
            if m.k == 'call' and m.get('member') and (m.callee.get('cls') or '') == 'nix::base::IFile' and m.c:
                obj = unwrap(m.c[0])
                # obj is 'x->' : operator-> of shared_ptr whose argument is backend()
                src = repr(term(obj))
                n_acc += 1
                rule.check("'backend'" in src, 'File::%s|via-backend|%s' % (f.name, m.callee.get('name')), rep.where(m), f.label(),
                           'IFile::%s reached through backend()' % m.callee.get('name'),
                           'IFile::%s is called on %s, not through backend(): no UninitializedEntity after close' % (m.callee.get('name'), obj.src()))
    if n_acc < 10:
        raise AnalysisBroken('R-CLOSE: only %d front-end accesses to IFile found' % n_acc)
    bk = [f for f in prog.byname.get('backend', []) if f.cls == 'nix::base::ImplContainer' and f.clstargs and 'IFile' in f.clstargs[0]]
    okb = False
    for f in bk[:2]:
        for t in [n for n in f.walk() if n.k == 'throw']:
            if 'UninitializedEntity' in (t.get('extype') or ''):
                facts = sem.facts_at(f, t.id)
                # thrown exactly when the implementation pointer is empty
                if any(pol is True and t2[:2] == ('m', 'isNone') for (t2, pol) in facts) or any('impl_ptr' in repr(t2) for (t2, pol) in facts):
                    okb = True
    rule.check(okb, 'ImplContainer::backend|throws', rep.where(bk[0]) if bk else 'include/nix/base/ImplContainer.hpp:0', 'nix::base::ImplContainer::backend',
               'backend() throws UninitializedEntity when the implementation pointer is empty')
    return rule


def _derives_from_lid(fl, node, lid):
    """the expression is (transitively) computed from the local with this id (e.g. a range-for variable over it)"""
    if lid is None:
        return False
    seen = set()
    st = [node]
    while st:
        n = st.pop()
        for r in n.walk():
            if r.k == 'ref' and r.decl.get('kind') in ('local', 'param'):
                l = r.decl.get('lid')
                if l == lid:
                    return True
                if l in seen:
                    continue
                seen.add(l)
                for d in fl.defs.get(l, []):
                    if d[0] in ('expr', 'elem'):
                        st.append(d[1])
                # range-for variable: defined by the loop's range
                for x in fl.fn.walk():
                    if x.k == 'rangefor' and x.c[6] is not None and any(v.k == 'var' and v.get('lid') == l for v in x.c[6].walk()):
                        if x.c[1] is not None:
                            st.append(x.c[1])
    return False


# settings of the property lists handed to H5Fcreate / H5Fopen that are known (libhdf5 documentation) to break a clause of C11/C02
FILE_PLIST_DENY = {
    'H5Pset_libver_bounds': 'with a LATEST low bound libhdf5 writes a version-3 superblock whose "open for write" flag is only cleared by a real close: '
                            'a writer killed after flush() leaves a file that no process can open',
    'H5Pset_fclose_degree': 'a WEAK/SEMI close degree keeps the file open (or makes H5Fclose fail) while object ids are alive: close() no longer releases the file',
    'H5Pset_fapl_core': 'the core driver keeps the file in memory; without backing store nothing reaches the disk',
    'H5Pset_fapl_split': 'split/multi drivers scatter the file over several files; a single path no longer holds the data',
    'H5Pset_fapl_multi': 'split/multi drivers scatter the file over several files; a single path no longer holds the data',
    'H5Pset_fapl_family': 'the family driver scatters the file over several files',
    'H5Pset_file_locking': 'disabling file locking lets a second writer open the file',
}


def run_fapl(prog, rep):
    """the property lists given to H5Fcreate/H5Fopen carry no setting that is known to defeat flush/close completeness"""
    rule = rep.rule('R-FAPL', 'property lists handed to H5Fcreate / H5Fopen carry no setting known to defeat flush/close completeness (deny list with reasons)', floor=2)
    from ..sem import Sem, Flow, term, unwrap, real_args
    sem = Sem(prog)
    n = 0
    for f in sorted(prog.funcs.values(), key=lambda f: (f.file, f.line)):
        if f.body is None or not (f.cls or '').startswith('nix::hdf5::'):
            continue
        opens = [c for c in f.calls() if c.callee.get('name') in ('H5Fcreate', 'H5Fopen')]
        if not opens:
            continue
        denied = [c for c in f.calls() if c.callee.get('name') in FILE_PLIST_DENY]
        for c in opens:
            n += 1
            args = real_args(c)
            plists = args[2:]
            bad = []
            for a in plists:
                t = term(unwrap(a))
                if a.get('macro') == 'H5P_DEFAULT' or (isinstance(t, tuple) and t and t[0] == 'k'):
                    continue
                # a property list object: every denied setter applied to the same object in this function
                base = [x for x in a.walk() if x.k == 'ref' and x.decl.get('kind') in ('local', 'param')]
                names = set(x.decl.get('name') for x in base)
                for d in denied:
                    if any(x.k == 'ref' and x.decl.get('name') in names for x in d.walk()):
                        bad.append('%s on %s (line %s): %s' % (d.callee.get('name'), '/'.join(sorted(names)), d.l, FILE_PLIST_DENY[d.callee.get('name')]))
            rule.check(not bad, '%s|%s' % (f.q, c.callee.get('name')), rep.where(c), f.label(), '%s with %s' % (c.callee.get('name'), ', '.join(a.src(20) for a in plists)), '; '.join(bad[:2]))
    # nobody else opens files
    if n < 2:
        raise AnalysisBroken('R-FAPL: H5Fcreate/H5Fopen call sites vanished (%d)' % n)
    return rule


HIDOWN_TABLE = {
    ('nix::hdf5::H5Group::objectOfType', 'obj'): 'err.check follows H5Oget_info on an id that H5Iis_valid just accepted; the query does not fail for a valid object (error path not reachable in practice)',
}


def run_hid_owner(prog, rep):
    """a raw HDF5 id kept in a local is handed to its owner (member hid / wrapper object) or closed before anything that can throw:
    an exception in between leaves the object (for a file: the file, with its access mode) open inside libhdf5"""
    from ..sem import Sem, term, unwrap, real_args
    sem = Sem(prog)
    rule = rep.rule('R-HIDOWN', 'a raw HDF5 id held in a local reaches its owner or is closed before any statement that can throw', floor=1)
    n = 0
    for f in sorted(prog.funcs.values(), key=lambda f: (f.file, f.line)):
        if f.body is None or not (f.q.startswith('nix::hdf5::')):
            continue
        for v in sem.local_vars(f).values():
            if (v.get('ctype') or v.get('type') or '') not in ('hid_t', 'long', 'int64_t') or (v.get('type') or '') != 'hid_t':
                continue
            if not v.c or v.c[0] is None:
                continue
            src = [c for c in v.c[0].walk() if c.k == 'call' and (c.callee or {}).get('name', '').startswith('H5') and not (c.callee or {}).get('cls')]
            if not src:
                continue
            n += 1
            lid, name = v.get('lid'), v.get('name')
            V = ('v', lid, name)
            key = '%s|%s' % (f.q, name)

            def uses(node):
                return any(x.k == 'ref' and x.decl.get('lid') == lid for x in node.walk())
            transfer = None
            for x in f.walk():
                if x.id <= v.id:
                    continue
                if x.k == 'assign' and term(unwrap(x.c[1])) == V and unwrap(x.c[0]).k == 'member':
                    transfer = x
                    break
                if x.k == 'call' and (x.callee or {}).get('name', '').startswith('H5') and (x.callee or {}).get('name', '').endswith('close') and uses(x):
                    transfer = x
                    break
                if x.k == 'construct' and 'nix::hdf5' in ((x.callee or {}).get('cls') or '') and any(term(unwrap(a)) == V for a in x.c if a is not None):
                    transfer = x
                    break
            tab = HIDOWN_TABLE.get((f.q, name))
            if transfer is None:
                rule.check(bool(tab), key, rep.where(v), f.label(), 'tabled: %s' % tab, 'the id obtained from %s is never handed to an owner or closed' % src[0].callee.get('name'))
                continue
            risky = []
            for x in f.walk():
                if not (v.id < x.id < transfer.id):
                    continue
                if x.k == 'throw':
                    facts = sem.facts_at(f, x.id)
                    invalid = any(('H5Iis_valid' in repr(t) and name in repr(t) and not pol) or (t[0] == 'b' and t[1] == '<' and t[2] == V and pol) for (t, pol) in facts)
                    if not invalid:
                        risky.append('throw at line %s' % x.l)
                elif x.k == 'call' and x.callee and not ((x.callee.get('name') or '').startswith('H5') and not x.callee.get('cls')):
                    q = x.callee.get('q') or ''
                    if q.startswith('nix::') or (x.callee.get('cls') or '').startswith('nix::'):
                        if x.callee.get('name') in ('h5id', 'isValid', 'c_str'):
                            continue
                        risky.append('%s (line %s)' % (x.callee.get('name'), x.l))
            if risky and tab:
                rule.ok(key, rep.where(v), f.label(), 'tabled: %s' % tab, nontrivial=False)
            else:
                rule.check(not risky, key, rep.where(v), f.label(), 'id from %s goes straight to %s' % (src[0].callee.get('name'), transfer.src(30)),
                           'the id from %s sits in the local %s while %s can throw: the exception leaves the object open inside libhdf5 (for a file: a refused open keeps the file open with the refused access mode, '
                           'a later ReadOnly open of the same path inherits write access)' % (src[0].callee.get('name'), name, ', '.join(risky[:3])))
    # a wrapper constructed with is_copy = true takes an ADDITIONAL reference: correct for an id somebody else owns, a leak for an id
    # that an HDF5 call has just returned (the caller already owns that reference)
    NEWID = re.compile(r'^H5(F(open|create|reopen)|I(get_file_id)|G(open|create)\d?|D(open|create)\d?|A(open|create)\w*|T(copy|create|open)\d?|S(create\w*|copy)|P(create|copy)|Oopen\w*|Dget_(space|type)|Aget_(space|type)|Tget_member_type|Tget_super)$')
    ncopy = 0
    for f in sorted(prog.funcs.values(), key=lambda f: (f.file, f.line)):
        if f.body is None or not f.q.startswith('nix::hdf5::'):
            continue
        for x in f.walk():
            if x.k != 'construct' or not ((x.callee or {}).get('cls') or '').startswith('nix::hdf5::'):
                continue
            args = [a for a in x.c if a is not None]
            if len(args) != 2:
                continue
            flag = term(unwrap(args[1]))
            src = unwrap(args[0])
            if flag != ('k', True):
                continue
            ncopy += 1
            fresh = src.k == 'call' and not (src.callee or {}).get('cls') and NEWID.match((src.callee or {}).get('name') or '')
            if not fresh and src.k == 'ref' and src.decl.get('kind') == 'local':
                lv_ = sem.local_vars(f).get(src.decl.get('lid'))
                if lv_ is not None and lv_.c and lv_.c[0] is not None:
                    ini = unwrap(lv_.c[0])
                    if ini.k == 'call' and not (ini.callee or {}).get('cls') and NEWID.match((ini.callee or {}).get('name') or ''):
                        fresh = True
                        src = ini
            rule.check(not fresh, '%s|is_copy@%s' % (f.q, x.l), rep.where(x), f.label(), 'is_copy = true on an id owned elsewhere (%s)' % args[0].src(30),
                       'the id just returned by %s is wrapped with is_copy = true: the wrapper adds a second reference and releases only one, so every call leaks a reference '
                       '(for H5Iget_file_id: on the file id - close() returns but libhdf5 keeps the file open, unflushed and locked)' % ((src.callee or {}).get('name')))
    # the dual: a wrapper constructed WITHOUT is_copy adopts the reference; handing it an id that another wrapper owns (this
    # object's own hid, other.h5id()) makes its destructor release the owner's reference
    def derives_h5object(cls, depth=0):
        r = prog.records.get(cls)
        if cls == 'nix::hdf5::H5Object':
            return True
        if r is None or depth > 6:
            return False
        return any(derives_h5object(b if isinstance(b, str) else b.get('q', ''), depth + 1) for b in r.get('bases', []))
    nadopt = 0
    for f in sorted(prog.funcs.values(), key=lambda f: (f.file, f.line)):
        if f.body is None or not f.q.startswith('nix::hdf5::'):
            continue
        inits = set()
        for ci in f.walk():
            if ci.k == 'ctorinit':
                for y in ci.walk():
                    inits.add(y.id)
        for x in f.walk():
            if x.k != 'construct' or x.id in inits or not derives_h5object((x.callee or {}).get('cls') or ''):
                continue
            args = [a for a in x.c if a is not None and a.k != 'defarg']
            if not args or len(args) > 2 or 'hid_t' not in ((x.callee or {}).get('sig') or ''):
                continue
            if len(args) == 2 and term(unwrap(args[1])) == ('k', True):
                continue
            t = term(unwrap(args[0]))
            # only ids held by this object itself (its own hid, the id of a member wrapper): for a *local* wrapper the early release is
            # masked by the H5Iis_valid guard in dec() - six such conversions exist (vlenReclaim(memType.h5id(), ...)) and are left alone
            owned = t == ('f', 'hid') or (isinstance(t, tuple) and t[0] == 'm' and t[1] in ('h5id',) and isinstance(t[2], tuple) and t[2][0] == 'f')
            nadopt += 1
            rule.check(not owned, '%s|adopt@%s' % (f.q, x.l), rep.where(x), f.label(), 'adopts an id that no other wrapper owns (%s)' % args[0].src(30),
                       'a temporary %s adopts %s, an id that another wrapper owns, without is_copy: its destructor releases the owner\'s reference (for the file id: isOpen() turns false, close() returns at its guard, nothing is swept or flushed)' % (((x.callee or {}).get('cls') or '').split('::')[-1], args[0].src(30)))
    if n < 1:
        raise AnalysisBroken('R-HIDOWN: no raw local HDF5 id found (anchor: H5Group::objectOfType)')
    return rule


def run_release(prog, rep):
    """the RAII wrapper releases its id unconditionally: ~H5Object -> close() -> dec() -> H5Idec_ref whenever the id is valid"""
    from ..absint import GenericInterp
    rule = rep.rule('R-HIDREL', 'H5Object releases its id unconditionally: the destructor calls close(), every path of close() runs dec() before invalidate(), dec() decrements whenever the id is valid', floor=3)
    HO = 'nix::hdf5::H5Object'
    dt = [x for x in prog.funcs.values() if x.q == HO + '::~H5Object' and x.body is not None]
    if not dt:
        raise AnalysisBroken('R-HIDREL: ~H5Object not found')
    names = [c.callee.get('name') for c in dt[0].calls()]
    conds = [x for x in dt[0].walk() if x.k in ('if', 'cond', 'try')]
    rule.check('close' in names and not conds, 'H5Object::~H5Object', rep.where(dt[0]), dt[0].label(), 'calls close() unconditionally', 'the destructor does not call close() unconditionally (%s)' % names)
    watch = lambda n: (n.callee or {}).get('name') in ('dec', 'invalidate', 'H5Idec_ref', 'H5Iis_valid')
    cl = prog.fn(HO + '::close')
    probs = []
    res = GenericInterp(prog, watch=watch).enumerate(cl, this='THIS', args=[])
    for assign, out, log, fields in res:
        if out[0] != 'ret':
            probs.append('close() can leave by %r' % (out[0],))
            continue
        nm = [l[0] for l in log]
        if 'dec' not in nm:
            probs.append('a path of close() does not release the id (taken when %s): the id stays open in the library, close() of the file returns while libhdf5 keeps the file open' % (' && '.join(('' if v else '!') + repr(k)[:70] for k, v in sorted(assign.items(), key=repr)) or 'always'))
        elif 'invalidate' in nm and nm.index('invalidate') < nm.index('dec'):
            probs.append('close() forgets the id before releasing it')
    rule.check(not probs and bool(res), 'H5Object::close', rep.where(cl), cl.label(), 'dec() then invalidate() on every path (%d)' % len(res), '; '.join(sorted(set(probs))))
    de = prog.fn(HO + '::dec')
    probs = []
    res = GenericInterp(prog, watch=watch).enumerate(de, this='THIS', args=[])
    for assign, out, log, fields in res:
        valid = [v for k, v in assign.items() if 'H5Iis_valid' in repr(k)]
        other = [k for k in assign if 'H5Iis_valid' not in repr(k)]
        dec = [l for l in log if l[0] == 'H5Idec_ref']
        if other:
            probs.append('the release also depends on %s' % [repr(k)[:60] for k in other])
        if (not valid or valid[0]) and (not dec or dec[0][1] != ('mem', 'hid', 'THIS')):
            probs.append('a valid id is not handed to H5Idec_ref')
    rule.check(not probs and bool(res), 'H5Object::dec', rep.where(de), de.label(), 'H5Idec_ref(hid) iff H5Iis_valid(hid)', '; '.join(sorted(set(probs))))
    # assignment into a live wrapper: H5Object's move assignment takes the other id without releasing its own. That is harmless only
    # while no wrapper whose id kind close() does not sweep (attributes: the mask is GROUP|DATASET|DATATYPE) can be move-assigned,
    # i.e. while Attribute declares its own copy assignment (which suppresses the implicit move assignment) - or once the move
    # assignment releases first
    mv = [f for f in prog.fns(HO + '::operator=') if '&&' in f.sig and f.body is not None]
    mv_releases = bool(mv) and any((c.callee or {}).get('name') in ('dec', 'close') for c in mv[0].calls())
    att = prog.records.get('nix::hdf5::Attribute')
    if att is None:
        raise AnalysisBroken('R-HIDREL: nix::hdf5::Attribute not found')
    own_copy = any(m['name'] == 'operator=' and 'const nix::hdf5::Attribute &' in m['sig'] for m in att['methods'])
    rule.check(mv_releases or own_copy or not mv, 'Attribute|no-leaking-move-assignment', '%s:%s' % (prog.rel(att['file']), att['line']), 'nix::hdf5::Attribute',
               'Attribute declares its copy assignment (no implicit move assignment)' if own_copy else 'H5Object move assignment releases the id it held',
               'Attribute can be move-assigned (no user-declared copy assignment) and H5Object::operator=(H5Object&&) does not release the id the target held: an attribute id assigned over leaks, close() does not sweep attribute ids, libhdf5 keeps the file open and unflushed after close()')
    # the same for every wrapper (C04j): while the move assignment of H5Object does not release the id its target holds, nothing may call it -
    # a derived wrapper that forwards its own move assignment to it leaks the overwritten id (optGroup re-resolves its cached group on
    # every call), and a leaked id on a container group keeps that group - and its hard links - alive after the holder was deleted
    if mv and not mv_releases:
        users = []
        for f in prog.funcs.values():
            if f.body is None or f.usr == mv[0].usr:
                continue
            for c in f.calls():
                if (c.callee or {}).get('usr') == mv[0].usr:
                    users.append((f, c))
        for f, c in sorted(users, key=lambda t: (t[0].file or '', t[1].l or 0)):
            rule.bad('H5Object::operator=(&&)|called-from|%s' % f.q, rep.where(c), f.label(),
                     '%s move-assigns through H5Object::operator=(H5Object&&), which overwrites the id the target holds without releasing it: every assignment over a live handle '
                     'leaks an open id (a leaked id on a container group keeps the unlinked group and its links to other entities alive: a later delete of the target leaves its link count > 0)' % f.q)
        if not users:
            rule.ok('H5Object::operator=(&&)|no-caller', rep.where(mv[0]), mv[0].label(), 'the non-releasing move assignment has no caller (all wrappers declare copy assignment only)')
    return rule
