"""A7: a small abstract interpreter over the structured syntax tree.

Expressions the rule declares *opaque* (queries of the file, library calls) are
answered by an oracle: either with a fixed abstract value or as a free boolean.  Free
booleans are enumerated exhaustively (path by path), so a function is decided on its
complete finite abstract input space.  Anything the interpreter does not understand
raises Unsupported (-> exit 2), never a verdict."""
from .extract import AnalysisBroken
from .sem import term, unwrap, real_args, LOCAL_KINDS, is_copy_construct
from .tables import switch_groups


class Unsupported(AnalysisBroken):
    pass


class Throw(Exception):
    def __init__(self, extype, node):
        Exception.__init__(self, extype)
        self.extype = extype
        self.node = node


class _Return(Exception):
    def __init__(self, v):
        self.v = v


class _Break(Exception):
    pass


class _Continue(Exception):
    pass


class Free(object):
    """marker returned by an oracle: 'this expression is a free boolean named key'"""

    def __init__(self, key):
        self.key = key


SKIP = object()  # oracle: expression has no value of interest (evaluates to None)


class Interp(object):
    def __init__(self, prog, oracle=None, inline=None, max_loop=64):
        self.prog = prog
        self.oracle = oracle or (lambda interp, n, env: NotImplemented)
        self.inline = inline or (lambda fn: False)
        self.max_loop = max_loop
        self.assign = {}
        self.trail = []
        self.pos = 0
        self.log = []

    # ---- free boolean handling (path enumeration)
    def decide(self, key):
        if key in self.assign:
            return self.assign[key]
        if self.pos < len(self.trail):
            v = self.trail[self.pos][1]
        else:
            v = False
            self.trail.append([key, v])
        self.pos += 1
        self.assign[key] = v
        return v

    def enumerate(self, fn, this=None, args=None, fields=None):
        """yield (assignment, outcome, log) for every abstract path; outcome is
        ('ret', value) or ('throw', type)"""
        self.trail = []
        results = []
        n = 0
        while True:
            n += 1
            if n > 60000:
                raise Unsupported('abstract path explosion in %s' % fn.q)
            self.assign = {}
            self.pos = 0
            self.log = []
            self.fields = dict(fields or {})
            try:
                v = self.call(fn, this, list(args or []))
                out = ('ret', v)
            except Throw as t:
                out = ('throw', t.extype)
            results.append((dict(self.assign), out, list(self.log), dict(self.fields)))
            # next path: flip the last False decision
            while self.trail and self.trail[-1][1] is True:
                self.trail.pop()
            if not self.trail:
                break
            self.trail[-1][1] = True
        return results

    # ---- calls
    def call(self, fn, this, args):
        env = {'this': this}
        for i, p in enumerate(fn.params):
            if i < len(args):
                env[p['lid']] = args[i]
            elif isinstance(p.get('default'), object) and p.get('default') is not None:
                env[p['lid']] = self.ev(p['default'], env)
        try:
            for init in fn.inits:
                if init.get('what') == 'member' and init.get('written'):
                    self.fields[init.get('field')] = self.ev(init.c[0], env) if init.c and init.c[0] is not None else None
                elif init.get('written') and init.c and init.c[0] is not None:
                    self.ev(init.c[0], env)
            self.ex(fn.body, env)
        except _Return as r:
            return r.v
        return None

    # ---- statements
    def ex(self, s, env):
        if s is None:
            return
        k = s.k
        if k == 'compound':
            for c in s.c:
                self.ex(c, env)
            return
        if k == 'declstmt':
            for v in s.c:
                if v is None:
                    continue
                if v.c and v.c[0] is not None:
                    env[v.get('lid')] = self.ev(v.c[0], env)
                else:
                    env[v.get('lid')] = ('uninit', v.get('name'))
            return
        if k == 'if':
            if s.c[0] is not None:
                self.ex(s.c[0], env)
            if s.c[1] is not None:
                self.ex(s.c[1], env)
            c = self.truth(self.ev(s.c[2], env), s.c[2])
            if c:
                self.ex(s.c[3], env)
            elif s.c[4] is not None:
                self.ex(s.c[4], env)
            return
        if k == 'return':
            raise _Return(self.ev(s.c[0], env) if s.c and s.c[0] is not None else None)
        if k == 'break':
            raise _Break()
        if k == 'continue':
            raise _Continue()
        if k == 'null':
            return
        if k == 'for':
            if s.c[0] is not None:
                self.ex(s.c[0], env)
            it = 0
            while True:
                it += 1
                if it > self.max_loop:
                    raise Unsupported('loop bound exceeded at %s' % s.loc())
                if s.c[1] is not None and not self.truth(self.ev(s.c[1], env), s.c[1]):
                    break
                try:
                    self.ex(s.c[3], env)
                except _Break:
                    break
                except _Continue:
                    pass
                if s.c[2] is not None:
                    self.ev(s.c[2], env)
            return
        if k == 'while':
            it = 0
            while self.truth(self.ev(s.c[0], env), s.c[0]):
                it += 1
                if it > self.max_loop:
                    raise Unsupported('loop bound exceeded at %s' % s.loc())
                try:
                    self.ex(s.c[1], env)
                except _Break:
                    break
                except _Continue:
                    pass
            return
        if k == 'switch':
            v = self.ev(s.c[0], env)
            groups = switch_groups(s)
            chosen = None
            for labels, stmts in groups:
                for lb in labels:
                    if lb != 'default' and self.label_eq(lb, v):
                        chosen = stmts
                        break
                if chosen is not None:
                    break
            if chosen is None:
                for labels, stmts in groups:
                    if 'default' in labels:
                        chosen = stmts
            if chosen is None:
                return
            try:
                for st in chosen:
                    self.ex(st, env)
            except _Break:
                pass
            return
        if k == 'try':
            try:
                self.ex(s.c[0], env)
            except Throw as t:
                # catch-all / first handler
                h = s.c[1] if len(s.c) > 1 else None
                if h is None:
                    raise
                self.ex(h.c[0], env)
            return
        # expression statement
        self.ev(s, env)

    def label_eq(self, lb, v):
        if lb[0] == 'e':
            return v == lb
        if lb[0] == 'k':
            return v == lb[1]
        return False

    def truth(self, v, node):
        if isinstance(v, bool):
            return v
        if isinstance(v, int):
            return v != 0
        if isinstance(v, Free):
            return self.decide(v.key)
        raise Unsupported('cannot branch on abstract value %r at %s (%s)' % (v, node.loc(), node.src()))

    # ---- expressions
    def ev(self, n, env):
        n = unwrap(n)
        if n is None:
            return None
        r = self.oracle(self, n, env)
        if r is SKIP:
            return None
        if r is not NotImplemented:
            if isinstance(r, Free):
                return self.decide(r.key)
            return r
        k = n.k
        a = n.a
        if k in ('int', 'bool', 'float', 'char', 'str'):
            return a.get('v')
        if k == 'nullptr':
            return None
        if k == 'ref':
            d = a['decl']
            if d.get('kind') in LOCAL_KINDS:
                if d.get('lid') in env:
                    return env[d.get('lid')]
                raise Unsupported('unbound variable %s at %s' % (d.get('name'), n.loc()))
            if d.get('kind') == 'enumconst':
                return ('e', d.get('q'))
            return ('g', d.get('q'))
        if k == 'this':
            return env.get('this')
        if k == 'member':
            base = self.ev(n.c[0], env) if n.c and n.c[0] is not None else env.get('this')
            return self.member(base, a['decl'].get('name'), n, env)
        if k == 'unop':
            op = a.get('op')
            if op == '!':
                return not self.truth(self.ev(n.c[0], env), n.c[0])
            if op == '*':
                return self.ev(n.c[0], env)
            if op in ('++', '--'):
                tgt = unwrap(n.c[0])
                if tgt.k == 'ref' and tgt.decl.get('lid') in env and isinstance(env[tgt.decl['lid']], int):
                    old = env[tgt.decl['lid']]
                    env[tgt.decl['lid']] = old + (1 if op == '++' else -1)
                    return old if a.get('postfix') else env[tgt.decl['lid']]
            if op == '-':
                v = self.ev(n.c[0], env)
                if isinstance(v, (int, float)):
                    return -v
            raise Unsupported('unary %s at %s' % (op, n.loc()))
        if k == 'binop':
            op = a.get('op')
            if op == '&&':
                return self.truth(self.ev(n.c[0], env), n.c[0]) and self.truth(self.ev(n.c[1], env), n.c[1])
            if op == '||':
                return self.truth(self.ev(n.c[0], env), n.c[0]) or self.truth(self.ev(n.c[1], env), n.c[1])
            l = self.ev(n.c[0], env)
            r = self.ev(n.c[1], env)
            return self.binop(op, l, r, n)
        if k == 'assign':
            tgt = unwrap(n.c[0])
            v = self.ev(n.c[1], env)
            if a.get('op') != '=':
                raise Unsupported('compound assignment at %s' % n.loc())
            if tgt.k == 'ref' and tgt.decl.get('kind') in LOCAL_KINDS:
                env[tgt.decl['lid']] = v
                return v
            if tgt.k == 'member' and (not tgt.c or tgt.c[0] is None or unwrap(tgt.c[0]).k == 'this'):
                self.fields[tgt.decl.get('name')] = v
                return v
            raise Unsupported('assignment target at %s (%s)' % (n.loc(), n.src()))
        if k == 'cond':
            if self.truth(self.ev(n.c[0], env), n.c[0]):
                return self.ev(n.c[1], env)
            return self.ev(n.c[2], env)
        if k == 'cast':
            return self.ev(n.c[0], env)
        if k == 'throw':
            raise Throw(a.get('extype'), n)
        if k == 'call':
            return self.evcall(n, env)
        if k == 'construct':
            args = [x for x in n.c if x is not None and x.k != 'defarg']
            if len(args) == 1:
                return self.ev(args[0], env)
            return ('new', (a.get('callee') or {}).get('cls')) + tuple(self.ev(x, env) for x in args)
        if k == 'defarg':
            return self.ev(n.c[0], env)
        if k in ('initlist', 'stdinitlist'):
            return ('list',) + tuple(self.ev(x, env) for x in n.c)
        raise Unsupported('expression kind %s at %s (%s)' % (k, n.loc(), n.src()))

    def member(self, base, name, n, env):
        if base == env.get('this') and name in self.fields:
            return self.fields[name]
        raise Unsupported('member %s of %r at %s' % (name, base, n.loc()))

    def binop(self, op, l, r, n):
        conc = (int, float, bool, str)
        if isinstance(l, conc) and isinstance(r, conc):
            if op == '==':
                return l == r
            if op == '!=':
                return l != r
            if op == '<':
                return l < r
            if op == '<=':
                return l <= r
            if op == '>':
                return l > r
            if op == '>=':
                return l >= r
            if op == '+':
                return l + r
            if op == '-':
                return l - r
            if op == '|':
                return l | r
            if op == '&':
                return l & r
        if op in ('==', '!=') and isinstance(l, tuple) and isinstance(r, tuple) and l[0] == 'e' and r[0] == 'e':
            return (l == r) if op == '==' else (l != r)
        if op in ('<', '<=', '>', '>=') and isinstance(l, tuple) and isinstance(r, tuple) and len(l) == 2 and len(r) == 2 and l[0] == 'e' and r[0] == 'e' \
                and isinstance(l[1], str) and isinstance(r[1], str) and l[1].rsplit('::', 1)[0] == r[1].rsplit('::', 1)[0]:
            # ordered comparison of two enumerators of one (scoped) enum: by their declared values
            tab = {x['name']: x['value'] for x in (self.prog.enums.get(l[1].rsplit('::', 1)[0]) or {}).get('enumerators', [])}
            a, b = tab.get(l[1].rsplit('::', 1)[1]), tab.get(r[1].rsplit('::', 1)[1])
            if a is not None and b is not None:
                return {'<': a < b, '<=': a <= b, '>': a > b, '>=': a >= b}[op]
        raise Unsupported('binary %s on %r, %r at %s' % (op, l, r, n.loc()))

    def evcall(self, n, env):
        cal = n.callee
        if cal is None:
            raise Unsupported('indirect call at %s' % n.loc())
        tgt = self.prog.funcs.get(cal.get('usr'))
        if tgt is not None and self.inline(tgt):
            if n.get('member'):
                this = self.ev(n.c[0], env)
                args = [self.ev(x, env) for x in n.c[1:]]
            elif n.get('op') and n.get('memberop'):
                this = self.ev(n.c[0], env)
                args = [self.ev(x, env) for x in n.c[1:]]
            else:
                this = None
                args = [self.ev(x, env) for x in n.c]
            return self.call(tgt, this, args)
        raise Unsupported('call to %s at %s is neither inlined nor answered by the oracle' % (cal.get('q'), n.loc()))


class Opaque(tuple):
    """abstract value of an expression the interpreter does not look into"""
    pass


def _canon_cmp(op, l, r):
    """canonical key and negation flag for a comparison between abstract values"""
    if op == '>':
        return ('<', r, l), False
    if op == '<':
        return ('<', l, r), False
    if op == '<=':
        return ('<', r, l), True
    if op == '>=':
        return ('<', l, r), True
    a, b = sorted([l, r], key=repr)
    if op == '==':
        return ('==', a, b), False
    if op == '!=':
        return ('==', a, b), True
    return None, False


class GenericInterp(Interp):
    """Boolean abstraction with a generic oracle: every call that is not inlined is opaque;
    opaque booleans and comparisons between opaque values are free booleans keyed by their
    (argument-resolved) shape, so that equal queries get equal answers on a path."""

    def __init__(self, prog, inline=None, concrete=None, watch=None):
        Interp.__init__(self, prog, oracle=GenericInterp.gorc, inline=inline)
        self.concrete = concrete or (lambda interp, n, env: NotImplemented)
        self.watch = watch or (lambda n: False)

    loop_once = False
    loop_fork = True   # False: every loop body is executed exactly once (no zero-iteration paths)

    def _target(self, tgt, env):
        """describe an assignment target: ('var', lid) | ('field', name) | ('elem', base name, index value) | None"""
        tgt = unwrap(tgt)
        if tgt is None:
            return None
        if tgt.k == 'ref' and tgt.decl.get('lid') is not None:
            return ('var', tgt.decl['lid'], tgt.decl.get('name'))
        if tgt.k == 'member' and (not tgt.c or tgt.c[0] is None or unwrap(tgt.c[0]).k == 'this'):
            return ('field', tgt.decl.get('name'))
        if (tgt.k == 'call' and tgt.get('op') == '[]' and len(tgt.c) == 2) or tgt.k == 'subscript':
            base = self._target(tgt.c[0], env)
            idx = _freeze(self.ev(tgt.c[1], env))
            if base is not None:
                return ('elem', base, idx)
            return ('elem', ('expr', _freeze(self.ev(tgt.c[0], env))), idx)
        if tgt.k == 'member' and tgt.c and tgt.c[0] is not None:
            base = self._target(tgt.c[0], env)
            if base is not None:
                return ('elem', base, ('member', tgt.decl.get('name')))
        if tgt.k == 'unop' and tgt.get('op') == '*':
            return ('deref', _freeze(self.ev(tgt.c[0], env)))
        return None

    def _assign(self, n, env, op, tgtn, rhsn):
        val = _freeze(self.ev(rhsn, env))
        t = self._target(tgtn, env)
        if t is None:
            return NotImplemented
        if t[0] == 'var':
            if op == '=':
                env[t[1]] = val
            else:
                env[t[1]] = Opaque(('bin', op[:-1], _freeze(env.get(t[1])), val))
            if self.watch_params and t[1] in self.watch_params:
                self.log.append(('assign', t[2], op, val, term(rhsn)))
            return env[t[1]]
        if t[0] == 'field':
            if op == '=':
                self.fields[t[1]] = val
            else:
                self.fields[t[1]] = Opaque(('bin', op[:-1], _freeze(self.fields.get(t[1])), val))
            return self.fields[t[1]]
        self.log.append(('store', t, op, val))
        return val

    def ex(self, s, env):
        if s is not None and self.loop_once and s.k in ('for', 'while', 'rangefor', 'do'):
            return self._loop_once(s, env)
        return Interp.ex(self, s, env)

    def _loop_once(self, s, env):
        """abstract a loop by 'zero iterations' or 'one arbitrary iteration' (induction variables havocked)"""
        k = s.k
        key = ('loop', s.id)
        if k == 'while':
            # a padding loop (only container growth/shrink on opaque locals, nothing watched, no exit):
            # its effect is invisible in the abstraction -> do not fork on it
            body = s.c[1]
            plain = True
            for x in body.walk():
                if x.k in ('throw', 'return', 'break', 'assign', 'if'):
                    plain = False
                    break
                if x.k == 'call':
                    if self.watch(x) or x.get('op') in ('=', '+=', '-='):
                        plain = False
                        break
            if plain:
                return
        if k == 'for':
            if s.c[0] is not None:
                self.ex(s.c[0], env)
                for v in s.c[0].walk():
                    if v.k == 'var':
                        env[v.get('lid')] = Opaque(('iter', v.get('name')))
            if self.loop_fork and not self.decide(key):
                return
            if s.c[1] is not None:
                # the iteration satisfies the loop condition
                self.assume(s.c[1], env)
            body = s.c[3]
        elif k == 'while':
            if self.loop_fork and not self.decide(key):
                return
            self.assume(s.c[0], env)
            body = s.c[1]
        elif k == 'do':
            body = s.c[0]
        else:
            if s.c[1] is not None:
                self.ex(s.c[1], env)
            rng = None
            if s.c[1] is not None:
                for v in s.c[1].walk():
                    if v.k == 'var' and v.c and v.c[0] is not None:
                        rng = env.get(v.get('lid'))
            if self.loop_fork and not self.decide(key):
                return
            if s.c[6] is not None:
                for v in s.c[6].walk():
                    if v.k == 'var':
                        env[v.get('lid')] = Opaque(('elem', _freeze(rng)))
            body = s.c[7]
        if self.loop_carried and body is not None:
            # an arbitrary iteration: a variable declared before the loop and assigned in it may hold the value of any earlier iteration
            for x in body.walk():
                tgt = None
                if x.k == 'assign' or (x.k == 'call' and x.get('op') in ('=', '+=', '-=', '*=', '/=')):
                    tgt = unwrap(x.c[0]) if x.c and x.c[0] is not None else None
                elif x.k == 'unop' and x.get('op') in ('++', '--'):
                    tgt = unwrap(x.c[0]) if x.c and x.c[0] is not None else None
                if tgt is not None and tgt.k == 'ref' and tgt.decl.get('lid') in env and not isinstance(env.get(tgt.decl.get('lid')), Opaque):
                    declared_inside = any(v.k == 'var' and v.get('lid') == tgt.decl.get('lid') for v in s.walk())
                    if not declared_inside:
                        env[tgt.decl.get('lid')] = Opaque(('carried', tgt.decl.get('name')))
        try:
            self.ex(body, env)
        except _Break:
            pass
        except _Continue:
            pass

    loop_carried = False

    def assume(self, cond, env):
        """evaluate a condition known to hold: its free atoms are fixed to the satisfying side where the
        condition is a conjunction; otherwise it is only evaluated (keys get decided, the path may be infeasible)"""
        try:
            v = self.ev(cond, env)
            if isinstance(v, bool) and not v:
                self.infeasible = True
        except Unsupported:
            pass

    watch_params = None
    log_terms = False

    def decide_neg(self, key, neg):
        v = self.decide(key)
        return (not v) if neg else v

    def truth(self, v, node):
        if isinstance(v, (bool, int)) and not isinstance(v, Opaque):
            return bool(v)
        if isinstance(v, Free):
            return self.decide(v.key)
        return self.decide(('truthy', v))

    def binop(self, op, l, r, n):
        try:
            return Interp.binop(self, op, l, r, n)
        except Unsupported:
            pass
        key, neg = _canon_cmp(op, _freeze(l), _freeze(r))
        if key is not None:
            return self.decide_neg(('cmp',) + key, neg)
        return Opaque(('bin', op, _freeze(l), _freeze(r)))

    def member(self, base, name, n, env):
        if base == env.get('this') and name in self.fields:
            return self.fields[name]
        return Opaque(('mem', name, _freeze(base)))

    def gorc(self, n, env):
        r = self.concrete(self, n, env)
        if r is not NotImplemented:
            return r
        k = n.k
        if k == 'cast' and n.c and n.c[0] is not None:
            v = self.ev(n.c[0], env)
            if isinstance(v, tuple) and len(v) == 2 and v[0] == 'e' and (n.get('toc') or '') in ('int', 'unsigned int', 'long', 'unsigned long', 'size_t', 'unsigned long long'):
                en, nm = v[1].rsplit('::', 1)
                for x in (self.prog.enums.get(en) or {}).get('enumerators', []):
                    if x['name'] == nm:
                        return x['value']
            return v
        if k == 'assign':
            r2 = self._assign(n, env, n.get('op'), n.c[0], n.c[1])
            if r2 is not NotImplemented:
                return r2
            raise Unsupported('assignment target at %s (%s)' % (n.loc(), n.src()))
        if k == 'unop' and n.get('op') in ('++', '--'):
            t = self._target(n.c[0], env)
            if t is not None and t[0] == 'var' and not isinstance(env.get(t[1]), (int,)) :
                env[t[1]] = Opaque(('bin', n.get('op')[0], _freeze(env.get(t[1])), 1))
                return env[t[1]]
        if k == 'call':
            cal = n.callee
            if cal is None:
                return Opaque(('icall', n.id))
            tgt = self.prog.funcs.get(cal.get('usr'))
            if tgt is not None and self.inline(tgt):
                return NotImplemented
            op = n.get('op')
            if op in ('=', '+=', '-=', '*=', '/=') and len(n.c) == 2:
                r2 = self._assign(n, env, op, n.c[0], n.c[1])
                if r2 is not NotImplemented:
                    return r2
            if op in ('++', '--') and n.c:
                t = self._target(n.c[0], env)
                if t is not None and t[0] == 'var':
                    env[t[1]] = Opaque(('bin', op[0], _freeze(env.get(t[1])), 1))
                    return env[t[1]]
            vals = tuple(_freeze(self.ev(x, env)) for x in n.c if x is not None)
            if op in ('<', '>', '<=', '>=', '==', '!=') and len(vals) == 2:
                if isinstance(vals[0], str) and isinstance(vals[1], str):
                    a, b = vals
                    return {'<': a < b, '>': a > b, '<=': a <= b, '>=': a >= b, '==': a == b, '!=': a != b}[op]
                if 'NDSizeBase' in ((n.callee or {}).get('sig') or '') and op in ('<', '>', '<=', '>='):
                    # NDSize comparisons are component-wise: a < b / a <= b hold when ALL components do; a > b is !(a <= b), a >= b is !(a < b)
                    # (so a > b is not b < a): keep the operand order and use separate keys
                    key, neg = {'<': (('nd<', vals[0], vals[1]), False), '<=': (('nd<=', vals[0], vals[1]), False),
                                '>': (('nd<=', vals[0], vals[1]), True), '>=': (('nd<', vals[0], vals[1]), True)}[op]
                    return self.decide_neg(('cmp',) + key, neg)
                key, neg = _canon_cmp(op, vals[0], vals[1])
                return self.decide_neg(('cmp',) + key, neg)
            if op == '!' and len(vals) == 1:
                return not self.truth(vals[0], n)
            if op == '[]' and len(vals) == 2 and isinstance(vals[0], tuple) and vals[0][:1] == ('vec',) and isinstance(vals[1], int) and not isinstance(vals[1], bool):
                if 0 <= vals[1] < len(vals[0]) - 1:
                    return vals[0][1 + vals[1]]
                return Opaque(('out-of-range', vals[1]))
            if op in ('*', '->') and len(vals) == 1:
                return Opaque(('deref', vals[0]))
            if op in ('+', '-') and len(vals) == 2:
                return Opaque(('bin', op, vals[0], vals[1]))
            if op in ('=', '+=', '-=', '*=', '/=') and len(n.c) == 2:
                r2 = self._assign(n, env, op, n.c[0], n.c[1])
                if r2 is not NotImplemented:
                    return r2
            name = cal.get('q') if not n.get('member') else cal.get('name')
            # out-parameters: a local passed by non-const reference is (re)defined by the call
            from .sem import split_sig
            ptypes = split_sig(cal.get('sig', '()'))
            argn = real_args(n)
            off = len(n.c) - len(argn)
            for i, a in enumerate(argn):
                if a is None or i >= len(ptypes):
                    continue
                pt = ptypes[i]
                if pt.endswith('&') and not pt.endswith('&&') and not pt.startswith('const '):
                    an = unwrap(a)
                    if an.k == 'ref' and an.decl.get('kind') in LOCAL_KINDS:
                        ins = tuple(v for j, v in enumerate(vals[off:]) if j != i and j < len(ptypes) and
                                    (ptypes[j].startswith('const ') or not ptypes[j].endswith('&')))
                        env[an.decl['lid']] = Opaque(('out', name, i) + ins)
            if self.watch(n):
                self.log.append((cal.get('name'),) + vals)
                if self.log_terms:
                    self.log.append(('terms', cal.get('name')) + tuple(term(x) for x in n.c if x is not None))
            if cal.get('kind') == 'conv' and cal.get('ret') == 'bool':
                return self.decide(('truthy', vals[0]))
            v = Opaque(('call', name) + vals)
            if cal.get('ret') == 'bool':
                return self.decide(('bool', name) + vals)
            return v
        if k == 'construct':
            cal = n.callee or {}
            args = [x for x in n.c if x is not None and x.k != 'defarg']
            vals = tuple(_freeze(self.ev(x, env)) for x in args)
            if len(vals) == 1 and (cal.get('cls') or '').startswith('std::vector') and isinstance(vals[0], tuple) and vals[0][:1] == ('list',):
                items = vals[0][1:]
                while len(items) == 1 and isinstance(items[0], tuple) and items[0][:1] == ('list',):
                    items = items[0][1:]
                if all(isinstance(x, (str, int, float)) for x in items):
                    return Opaque(('vec',) + tuple(items))
            if self.watch(n):
                self.log.append(('new ' + (cal.get('cls') or '?'),) + vals)
                if self.log_terms:
                    self.log.append(('terms', 'new ' + (cal.get('cls') or '?')) + tuple(term(x) for x in args))
            cls = cal.get('cls') or ''
            if len(vals) == 1 and (cls.startswith(('std::basic_string', 'std::shared_ptr', 'std::function', 'std::unique_ptr', 'boost::optional')) or is_copy_construct(n)):
                return vals[0]
            return Opaque(('new', cal.get('cls')) + vals)
        if k == 'ref' and n.decl.get('kind') not in LOCAL_KINDS and n.decl.get('kind') != 'enumconst':
            return Opaque(('g', n.decl.get('q')))
        if k == 'lambda':
            return Opaque(('lambda', n.id))
        if k == 'subscript':
            return Opaque(('idx', _freeze(self.ev(n.c[0], env)), _freeze(self.ev(n.c[1], env))))
        if k == 'this':
            return env.get('this') if env.get('this') is not None else Opaque(('this',))
        if k == 'unop' and n.get('op') in ('*', '&', '-', '+'):
            v = self.ev(n.c[0], env)
            if n.get('op') == '-' and isinstance(v, (int, float)) and not isinstance(v, bool):
                return -v
            if n.get('op') == '*':
                return Opaque(('deref', _freeze(v)))
            return Opaque(('u' + n.get('op'), _freeze(v)))
        if k in ('new', 'delete', 'sizeof', 'valueinit', 'typeid'):
            return Opaque((k, n.id))
        if k == 'other' and n.get('cls') in ('PredefinedExpr',):
            return Opaque(('predefined', n.id))
        return NotImplemented


def _freeze(v):
    if isinstance(v, list):
        return tuple(_freeze(x) for x in v)
    if isinstance(v, tuple):
        return tuple(_freeze(x) for x in v)
    if isinstance(v, Free):
        return ('free', v.key)
    return v
