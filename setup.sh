#!/bin/sh
# Builds the only compiled piece (the libTooling fact extractor), offline.
set -e
cd "$(dirname "$0")"
clang++ $(llvm-config-14 --cxxflags) -fno-rtti -O1 tools/nixfacts.cc -o tools/nixfacts.tmp \
    /usr/lib/llvm-14/lib/libclang-cpp.so.14 /usr/lib/llvm-14/lib/libLLVM-14.so
mv tools/nixfacts.tmp tools/nixfacts
mkdir -p evidence .cache
echo "nixfacts built"
