#!/usr/bin/env python3
"""Cross-property false-alarm test: every neutral (behaviour-preserving) variant of every mutants/<id>.json is applied to a
scratch copy and ALL checks are run on it; each must stay silent (exit 0).  usage: tools/neutral_matrix.py [prop ...]"""
import json, os, shutil, subprocess, sys, tempfile, hashlib
sys.path.insert(0, '/verif')
from nixsa import mutants
from concurrent.futures import ThreadPoolExecutor
allp = ['C%02d' % i for i in range(1, 21)]
src = sys.argv[1:] or allp
# NIX_MATRIX_CHECKS=C01,C05 limits the checks that are run on every variant (after a change to the rules of those properties only)
if os.environ.get('NIX_MATRIX_CHECKS'):
    runp = [x for x in os.environ['NIX_MATRIX_CHECKS'].split(',') if x]
else:
    runp = allp
jobs = []
for p in src:
    for m in mutants.load_table(p)['neutral']:
        jobs.append((p, m))


def work(j):
    p, m = j
    d = tempfile.mkdtemp(prefix='nixneu-')
    out = []
    try:
        mutants.make_copy('/repo', d)
        if not mutants.apply_edit(d, [(e['file'], e['old'], e['new']) for e in m.get('edits', [])]):
            return p, m['id'], ['skipped']
        env = dict(os.environ, NIX_REPO=d, NIX_NO_EVIDENCE='1')
        for q in runp:
            r = subprocess.run(['/verif/check', q, '--repo', d], stdout=subprocess.PIPE, stderr=subprocess.STDOUT, env=env, cwd='/verif')
            if r.returncode != 0:
                lines = [l.strip()[:260] for l in r.stdout.decode().splitlines() if 'violation' in l or 'BROKEN' in l]
                out.append('%s rc=%d %s' % (q, r.returncode, ' | '.join(lines[:2])))
    finally:
        shutil.rmtree(d, ignore_errors=True)
        pre = 'x' + hashlib.sha256(d.encode()).hexdigest()[:6]
        for e in os.listdir('/verif/.cache'):
            if e.startswith(pre):
                shutil.rmtree(os.path.join('/verif/.cache', e), ignore_errors=True)
    return p, m['id'], out


bad = 0
with ThreadPoolExecutor(max_workers=3) as ex:
    for p, mid, out in ex.map(work, jobs):
        print('%s %-45s %s' % (p, mid, ('silent in all %d checks' % len(runp)) if not out else 'ALARM'), flush=True)
        for o in out:
            print('      ' + o, flush=True)
            bad += 1
print('neutral variants: %d, alarms: %d' % (len(jobs), bad))
sys.exit(1 if bad else 0)
