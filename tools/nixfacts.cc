// nixfacts: libTooling fact extractor for the static checks in /verif.
//
// For every function definition located under the given root prefixes (including
// implicit template instantiations) it emits: identity (USR, qualified name,
// signature), the body as a compact typed tree whose call / construct / member /
// decl-ref nodes carry the *resolved* declaration, and clang's CFG for the body
// (blocks, elements as tree-node ids, terminators, successors).  Also: records,
// enums and namespace-scope variables with their initialisers.
//
// usage: nixfacts <out.json> <root-prefix>[:<root-prefix>...] <src>... -- <flags>
//
// build: clang++ $(llvm-config-14 --cxxflags) -fno-rtti nixfacts.cc -o nixfacts \
//        /usr/lib/llvm-14/lib/libclang-cpp.so.14 /usr/lib/llvm-14/lib/libLLVM-14.so

#include "clang/AST/ASTConsumer.h"
#include "clang/AST/ASTContext.h"
#include "clang/AST/DeclCXX.h"
#include "clang/AST/DeclTemplate.h"
#include "clang/AST/ExprCXX.h"
#include "clang/AST/RecursiveASTVisitor.h"
#include "clang/AST/StmtCXX.h"
#include "clang/Analysis/CFG.h"
#include "clang/Frontend/CompilerInstance.h"
#include "clang/Frontend/FrontendAction.h"
#include "clang/Index/USRGeneration.h"
#include "clang/Lex/Lexer.h"
#include "clang/Tooling/CompilationDatabase.h"
#include "clang/Tooling/Tooling.h"
#include "llvm/Support/FormatVariadic.h"
#include "llvm/Support/JSON.h"
#include "llvm/Support/raw_ostream.h"

#include <map>
#include <set>
#include <string>
#include <unordered_map>
#include <vector>

using namespace clang;
namespace json = llvm::json;

static std::vector<std::string> gRoots;
static std::set<std::string> gSeenFuncs, gSeenRecords, gSeenEnums, gSeenVars;

struct Out {
    // accumulated over all TUs of this process
    std::vector<std::string> funcs;   // serialized JSON objects
    std::vector<std::string> records;
    std::vector<std::string> enums;
    std::vector<std::string> vars;
    std::vector<std::string> tus;
};
static Out gOut;
static std::vector<std::string> gDeclTab, gTypeTab;
static std::unordered_map<std::string, int> gDeclIdx, gTypeIdx;
static int internDecl(const std::string &s) {
    auto it = gDeclIdx.find(s);
    if (it != gDeclIdx.end()) return it->second;
    int i = (int)gDeclTab.size();
    gDeclTab.push_back(s);
    gDeclIdx.emplace(s, i);
    return i;
}
static int internType(const std::string &s) {
    auto it = gTypeIdx.find(s);
    if (it != gTypeIdx.end()) return it->second;
    int i = (int)gTypeTab.size();
    gTypeTab.push_back(s);
    gTypeIdx.emplace(s, i);
    return i;
}

static bool underRoots(const std::string &f) {
    for (auto &r : gRoots)
        if (f.compare(0, r.size(), r) == 0) return true;
    return false;
}

class Dumper {
    ASTContext &Ctx;
    SourceManager &SM;
    PrintingPolicy PP;
    // per function
    std::unordered_map<const Stmt *, int> ids;
    std::unordered_map<const VarDecl *, int> varDeclStmtIds;
    int nextId = 0;

public:
    Dumper(ASTContext &C) : Ctx(C), SM(C.getSourceManager()), PP(C.getLangOpts()) {
        PP.SuppressTagKeyword = true;
        PP.Bool = true;
        PP.SuppressDefaultTemplateArgs = true;
        PP.FullyQualifiedName = true;
        PP.SuppressUnwrittenScope = true;
    }

    std::string fileOf(SourceLocation L) {
        if (L.isInvalid()) return "";
        SourceLocation S = SM.getFileLoc(L);
        PresumedLoc P = SM.getPresumedLoc(S);
        if (P.isInvalid()) return "";
        std::string f = P.getFilename();
        // normalise /repo/src/../include → realpath-ish
        llvm::SmallString<256> buf(f);
        llvm::sys::path::remove_dots(buf, true);
        return std::string(buf.str());
    }
    unsigned lineOf(SourceLocation L) {
        if (L.isInvalid()) return 0;
        return SM.getPresumedLineNumber(SM.getFileLoc(L));
    }
    std::string typeStr(QualType T) {
        if (T.isNull()) return "";
        return T.getAsString(PP);
    }
    std::string canonStr(QualType T) {
        if (T.isNull()) return "";
        return T.getCanonicalType().getAsString(PP);
    }
    std::string usrOf(const Decl *D) {
        llvm::SmallString<128> buf;
        if (index::generateUSRForDecl(D, buf)) return "";
        return std::string(buf.str());
    }
    std::string qnameOf(const NamedDecl *D) {
        std::string s;
        llvm::raw_string_ostream os(s);
        D->printQualifiedName(os, PP);
        return os.str();
    }
    std::string macroName(SourceLocation L) {
        if (!L.isMacroID()) return "";
        SourceLocation E = SM.getExpansionLoc(L);
        SmallString<32> buf;
        Token tok;
        if (Lexer::getRawToken(E, tok, SM, Ctx.getLangOpts(), true)) return "";
        if (!tok.is(tok::raw_identifier)) return "";
        return tok.getRawIdentifier().str();
    }

    std::string funcSig(const FunctionDecl *FD) {
        std::string s = "(";
        bool first = true;
        for (auto *P : FD->parameters()) {
            if (!first) s += ", ";
            first = false;
            s += typeStr(P->getType());
        }
        if (FD->isVariadic()) s += first ? "..." : ", ...";
        s += ")";
        if (auto *M = dyn_cast<CXXMethodDecl>(FD))
            if (M->isConst()) s += " const";
        return s;
    }

    void declRef(json::OStream &J, const char *key, const NamedDecl *D) {
        std::string s;
        {
            llvm::raw_string_ostream os(s);
            json::OStream JJ(os);
            declObj(JJ, D);
        }
        J.attribute(key, (int64_t)internDecl(s));
    }

    void declObj(json::OStream &J, const NamedDecl *D) {
        J.objectBegin();
        if (!D) { J.objectEnd(); return; }
        const char *kind = "decl";
        if (isa<ParmVarDecl>(D)) kind = "param";
        else if (auto *V = dyn_cast<VarDecl>(D)) kind = V->isLocalVarDecl() ? (V->isStaticLocal() ? "staticlocal" : "local") : "global";
        else if (isa<FieldDecl>(D)) kind = "field";
        else if (isa<EnumConstantDecl>(D)) kind = "enumconst";
        else if (isa<CXXConstructorDecl>(D)) kind = "ctor";
        else if (isa<CXXDestructorDecl>(D)) kind = "dtor";
        else if (isa<CXXConversionDecl>(D)) kind = "conv";
        else if (isa<CXXMethodDecl>(D)) kind = "method";
        else if (isa<FunctionDecl>(D)) kind = "func";
        else if (isa<BindingDecl>(D)) kind = "binding";
        J.attribute("kind", kind);
        if (D->getDeclName().isIdentifier()) J.attribute("name", D->getName());
        else J.attribute("name", D->getDeclName().getAsString());
        if (isa<ParmVarDecl>(D) || (isa<VarDecl>(D) && cast<VarDecl>(D)->isLocalVarDecl())) {
            // local identity: pointer-stable within the TU; made unique by line+name
            J.attribute("lid", (int64_t)(((uintptr_t)D->getCanonicalDecl()) & 0x7fffffffffff));
            J.attribute("type", typeStr(cast<ValueDecl>(D)->getType()));
            if (auto *P = dyn_cast<ParmVarDecl>(D)) J.attribute("pidx", (int64_t)P->getFunctionScopeIndex());
        } else {
            J.attribute("q", qnameOf(D));
            if (auto *FD = dyn_cast<FunctionDecl>(D)) {
                J.attribute("usr", usrOf(FD->getCanonicalDecl()));
                J.attribute("sig", funcSig(FD));
                J.attribute("ret", typeStr(FD->getReturnType()));
                if (auto *M = dyn_cast<CXXMethodDecl>(FD)) {
                    if (M->isVirtual()) J.attribute("virtual", true);
                    if (M->isPure()) J.attribute("pure", true);
                    if (M->isStatic()) J.attribute("static", true);
                    J.attribute("cls", qnameOf(M->getParent()));
                }
                if (FD->isNoReturn()) J.attribute("noreturn", true);
                std::string f = fileOf(FD->getLocation());
                J.attribute("file", f);
                if (auto *TA = FD->getTemplateSpecializationArgs()) {
                    J.attributeBegin("targs");
                    J.arrayBegin();
                    for (auto &A : TA->asArray()) {
                        std::string s;
                        llvm::raw_string_ostream os(s);
                        A.print(PP, os, true);
                        J.value(os.str());
                    }
                    J.arrayEnd();
                    J.attributeEnd();
                }
            } else if (auto *VD = dyn_cast<ValueDecl>(D)) {
                J.attribute("type", typeStr(VD->getType()));
                if (auto *F = dyn_cast<FieldDecl>(D)) J.attribute("cls", qnameOf(F->getParent()));
                if (auto *EC = dyn_cast<EnumConstantDecl>(D)) {
                    J.attribute("value", EC->getInitVal().getExtValue());
                    if (auto *ED = dyn_cast<EnumDecl>(EC->getDeclContext())) J.attribute("enum", qnameOf(ED));
                }
            }
        }
        J.objectEnd();
    }

    int idFor(const Stmt *S) {
        auto it = ids.find(S);
        if (it != ids.end()) return it->second;
        int id = nextId++;
        ids[S] = id;
        return id;
    }

    static const Expr *strip(const Expr *E) {
        // look through wrappers that carry no meaning for the rules
        while (E) {
            if (auto *X = dyn_cast<ImplicitCastExpr>(E)) { E = X->getSubExpr(); continue; }
            if (auto *X = dyn_cast<ExprWithCleanups>(E)) { E = X->getSubExpr(); continue; }
            if (auto *X = dyn_cast<MaterializeTemporaryExpr>(E)) { E = X->getSubExpr(); continue; }
            if (auto *X = dyn_cast<CXXBindTemporaryExpr>(E)) { E = X->getSubExpr(); continue; }
            if (auto *X = dyn_cast<ParenExpr>(E)) { E = X->getSubExpr(); continue; }
            if (auto *X = dyn_cast<ConstantExpr>(E)) { E = X->getSubExpr(); continue; }
            if (auto *X = dyn_cast<SubstNonTypeTemplateParmExpr>(E)) { E = X->getReplacement(); continue; }
            break;
        }
        return E;
    }

    void registerWrappers(const Expr *E, int id) {
        while (E) {
            ids[E] = id;
            if (auto *X = dyn_cast<ImplicitCastExpr>(E)) { E = X->getSubExpr(); continue; }
            if (auto *X = dyn_cast<ExprWithCleanups>(E)) { E = X->getSubExpr(); continue; }
            if (auto *X = dyn_cast<MaterializeTemporaryExpr>(E)) { E = X->getSubExpr(); continue; }
            if (auto *X = dyn_cast<CXXBindTemporaryExpr>(E)) { E = X->getSubExpr(); continue; }
            if (auto *X = dyn_cast<ParenExpr>(E)) { E = X->getSubExpr(); continue; }
            if (auto *X = dyn_cast<ConstantExpr>(E)) { E = X->getSubExpr(); continue; }
            if (auto *X = dyn_cast<SubstNonTypeTemplateParmExpr>(E)) { E = X->getReplacement(); continue; }
            break;
        }
    }

    void head(json::OStream &J, const Stmt *S, const char *k) {
        J.attribute("k", k);
        J.attribute("id", (int64_t)idFor(S));
        J.attribute("l", (int64_t)lineOf(S->getBeginLoc()));
        if (S->getBeginLoc().isMacroID() && S->getEndLoc().isMacroID() &&
            SM.getExpansionLoc(S->getBeginLoc()) == SM.getExpansionLoc(S->getEndLoc())) {
            std::string m = macroName(S->getBeginLoc());
            if (!m.empty()) J.attribute("macro", m);
        }
        if (auto *E = dyn_cast<Expr>(S)) J.attribute("t", (int64_t)internType(typeStr(E->getType())));
    }

    void kids(json::OStream &J, std::initializer_list<const Stmt *> L) {
        J.attributeBegin("c");
        J.arrayBegin();
        for (auto *S : L) dumpStmt(J, S);
        J.arrayEnd();
        J.attributeEnd();
    }
    template <class R> void kidsRange(json::OStream &J, R &&range) {
        J.attributeBegin("c");
        J.arrayBegin();
        for (auto *S : range) dumpStmt(J, S);
        J.arrayEnd();
        J.attributeEnd();
    }

    void dumpVar(json::OStream &J, const VarDecl *V, const Stmt *owner) {
        J.objectBegin();
        J.attribute("k", "var");
        int id = nextId++;
        varDeclStmtIds[V] = id;
        J.attribute("id", (int64_t)id);
        J.attribute("l", (int64_t)lineOf(V->getLocation()));
        J.attribute("name", V->getName());
        J.attribute("lid", (int64_t)(((uintptr_t)V->getCanonicalDecl()) & 0x7fffffffffff));
        J.attribute("type", typeStr(V->getType()));
        J.attribute("ctype", canonStr(V->getType()));
        if (V->isStaticLocal()) J.attribute("static", true);
        if (V->hasInit()) {
            J.attribute("initstyle", V->getInitStyle() == VarDecl::CInit ? "c" : (V->getInitStyle() == VarDecl::CallInit ? "call" : "list"));
            kids(J, {V->getInit()});
        }
        J.objectEnd();
    }

    void dumpStmt(json::OStream &J, const Stmt *S0) {
        if (!S0) { J.value(nullptr); return; }
        const Stmt *S = S0;
        if (auto *E0 = dyn_cast<Expr>(S0)) {
            const Expr *E = strip(E0);
            if (E != E0) {
                int id = idFor(E);
                registerWrappers(E0, id);
            }
            S = E;
        }
        J.objectBegin();
        dumpInner(J, S);
        J.objectEnd();
    }

    void dumpInner(json::OStream &J, const Stmt *S) {
        if (auto *X = dyn_cast<CompoundStmt>(S)) { head(J, S, "compound"); kidsRange(J, X->body()); return; }
        if (auto *X = dyn_cast<DeclStmt>(S)) {
            head(J, S, "declstmt");
            J.attributeBegin("c");
            J.arrayBegin();
            for (auto *D : X->decls()) {
                if (auto *V = dyn_cast<VarDecl>(D)) dumpVar(J, V, S);
            }
            J.arrayEnd();
            J.attributeEnd();
            return;
        }
        if (auto *X = dyn_cast<IfStmt>(S)) {
            head(J, S, "if");
            if (X->getConditionVariable()) J.attribute("condvar", true);
            kids(J, {X->getInit(), X->getConditionVariable() ? (const Stmt *)X->getConditionVariableDeclStmt() : nullptr, X->getCond(), X->getThen(), X->getElse()});
            return;
        }
        if (auto *X = dyn_cast<ForStmt>(S)) { head(J, S, "for"); kids(J, {X->getInit(), X->getCond(), X->getInc(), X->getBody()}); return; }
        if (auto *X = dyn_cast<WhileStmt>(S)) { head(J, S, "while"); kids(J, {X->getCond(), X->getBody()}); return; }
        if (auto *X = dyn_cast<DoStmt>(S)) { head(J, S, "do"); kids(J, {X->getBody(), X->getCond()}); return; }
        if (auto *X = dyn_cast<CXXForRangeStmt>(S)) {
            head(J, S, "rangefor");
            kids(J, {X->getInit(), X->getRangeStmt(), X->getBeginStmt(), X->getEndStmt(), X->getCond(), X->getInc(), X->getLoopVarStmt(), X->getBody()});
            return;
        }
        if (auto *X = dyn_cast<SwitchStmt>(S)) { head(J, S, "switch"); kids(J, {X->getCond(), X->getBody()}); return; }
        if (auto *X = dyn_cast<CaseStmt>(S)) { head(J, S, "case"); kids(J, {X->getLHS(), X->getSubStmt()}); return; }
        if (auto *X = dyn_cast<DefaultStmt>(S)) { head(J, S, "default"); kids(J, {X->getSubStmt()}); return; }
        if (auto *X = dyn_cast<ReturnStmt>(S)) { head(J, S, "return"); kids(J, {X->getRetValue()}); return; }
        if (isa<BreakStmt>(S)) { head(J, S, "break"); return; }
        if (isa<ContinueStmt>(S)) { head(J, S, "continue"); return; }
        if (isa<NullStmt>(S)) { head(J, S, "null"); return; }
        if (auto *X = dyn_cast<CXXTryStmt>(S)) {
            head(J, S, "try");
            J.attributeBegin("c");
            J.arrayBegin();
            dumpStmt(J, X->getTryBlock());
            for (unsigned i = 0; i < X->getNumHandlers(); i++) dumpStmt(J, X->getHandler(i));
            J.arrayEnd();
            J.attributeEnd();
            return;
        }
        if (auto *X = dyn_cast<CXXCatchStmt>(S)) {
            head(J, S, "catch");
            J.attribute("ctype", X->getCaughtType().isNull() ? std::string("...") : typeStr(X->getCaughtType()));
            kids(J, {X->getHandlerBlock()});
            return;
        }
        if (auto *X = dyn_cast<LabelStmt>(S)) { head(J, S, "label"); kids(J, {X->getSubStmt()}); return; }
        if (auto *X = dyn_cast<AttributedStmt>(S)) { head(J, S, "attributed"); kids(J, {X->getSubStmt()}); return; }

        // ---- expressions
        if (auto *X = dyn_cast<CXXOperatorCallExpr>(S)) {
            head(J, S, "call");
            J.attribute("op", getOperatorSpelling(X->getOperator()));
            if (auto *FD = X->getDirectCallee()) {
                declRef(J, "callee", FD);
                if (isa<CXXMethodDecl>(FD)) J.attribute("memberop", true);
            }
            J.attributeBegin("c");
            J.arrayBegin();
            for (auto *A : X->arguments()) dumpStmt(J, A);
            J.arrayEnd();
            J.attributeEnd();
            return;
        }
        if (auto *X = dyn_cast<CXXMemberCallExpr>(S)) {
            head(J, S, "call");
            J.attribute("member", true);
            const Expr *calleeE = strip(X->getCallee());
            if (auto *MD = X->getMethodDecl()) declRef(J, "callee", MD);
            if (auto *ME = dyn_cast_or_null<MemberExpr>(calleeE)) {
                J.attribute("arrow", ME->isArrow());
                if (ME->hasQualifier()) J.attribute("qualified", true);
                ids[ME] = idFor(S);
            }
            J.attributeBegin("c");
            J.arrayBegin();
            dumpStmt(J, X->getImplicitObjectArgument());
            for (auto *A : X->arguments()) dumpStmt(J, A);
            J.arrayEnd();
            J.attributeEnd();
            return;
        }
        if (auto *X = dyn_cast<CallExpr>(S)) {
            head(J, S, "call");
            if (auto *FD = X->getDirectCallee()) {
                declRef(J, "callee", FD);
                const Expr *calleeE = strip(X->getCallee());
                if (calleeE) ids[calleeE] = idFor(S);
                J.attributeBegin("c");
                J.arrayBegin();
                for (auto *A : X->arguments()) dumpStmt(J, A);
                J.arrayEnd();
                J.attributeEnd();
            } else {
                // indirect / unresolved: callee expression is child 0
                J.attribute("indirect", true);
                J.attributeBegin("c");
                J.arrayBegin();
                dumpStmt(J, X->getCallee());
                for (auto *A : X->arguments()) dumpStmt(J, A);
                J.arrayEnd();
                J.attributeEnd();
            }
            return;
        }
        if (auto *X = dyn_cast<CXXTemporaryObjectExpr>(S)) {
            head(J, S, "construct");
            J.attribute("temp", true);
            declRef(J, "callee", X->getConstructor());
            kidsRange(J, X->arguments());
            return;
        }
        if (auto *X = dyn_cast<CXXConstructExpr>(S)) {
            head(J, S, "construct");
            declRef(J, "callee", X->getConstructor());
            if (X->isElidable()) J.attribute("elidable", true);
            if (X->isListInitialization()) J.attribute("list", true);
            kidsRange(J, X->arguments());
            return;
        }
        if (auto *X = dyn_cast<MemberExpr>(S)) {
            head(J, S, "member");
            declRef(J, "decl", X->getMemberDecl());
            J.attribute("arrow", X->isArrow());
            kids(J, {X->getBase()});
            return;
        }
        if (auto *X = dyn_cast<DeclRefExpr>(S)) {
            head(J, S, "ref");
            declRef(J, "decl", X->getDecl());
            return;
        }
        if (isa<CXXThisExpr>(S)) { head(J, S, "this"); if (cast<CXXThisExpr>(S)->isImplicit()) J.attribute("implicit", true); return; }
        if (auto *X = dyn_cast<IntegerLiteral>(S)) {
            head(J, S, "int");
            J.attribute("v", X->getValue().getLimitedValue());
            return;
        }
        if (auto *X = dyn_cast<FloatingLiteral>(S)) { head(J, S, "float"); J.attribute("v", X->getValueAsApproximateDouble()); return; }
        if (auto *X = dyn_cast<StringLiteral>(S)) {
            head(J, S, "str");
            if (X->isAscii() || X->isUTF8()) J.attribute("v", X->getString());
            return;
        }
        if (auto *X = dyn_cast<CharacterLiteral>(S)) { head(J, S, "char"); J.attribute("v", (int64_t)X->getValue()); return; }
        if (auto *X = dyn_cast<CXXBoolLiteralExpr>(S)) { head(J, S, "bool"); J.attribute("v", X->getValue()); return; }
        if (isa<CXXNullPtrLiteralExpr>(S) || isa<GNUNullExpr>(S)) { head(J, S, "nullptr"); return; }
        if (auto *X = dyn_cast<BinaryOperator>(S)) {
            head(J, S, X->isAssignmentOp() ? "assign" : "binop");
            J.attribute("op", X->getOpcodeStr());
            kids(J, {X->getLHS(), X->getRHS()});
            return;
        }
        if (auto *X = dyn_cast<UnaryOperator>(S)) {
            head(J, S, "unop");
            J.attribute("op", UnaryOperator::getOpcodeStr(X->getOpcode()));
            if (X->isPostfix()) J.attribute("postfix", true);
            kids(J, {X->getSubExpr()});
            return;
        }
        if (auto *X = dyn_cast<ConditionalOperator>(S)) { head(J, S, "cond"); kids(J, {X->getCond(), X->getTrueExpr(), X->getFalseExpr()}); return; }
        if (auto *X = dyn_cast<ExplicitCastExpr>(S)) {
            head(J, S, "cast");
            J.attribute("to", typeStr(X->getTypeAsWritten()));
            J.attribute("toc", canonStr(X->getTypeAsWritten()));
            J.attribute("ck", X->getCastKindName());
            if (isa<CXXStaticCastExpr>(X)) J.attribute("style", "static");
            else if (isa<CXXReinterpretCastExpr>(X)) J.attribute("style", "reinterpret");
            else if (isa<CXXConstCastExpr>(X)) J.attribute("style", "const");
            else if (isa<CXXDynamicCastExpr>(X)) J.attribute("style", "dynamic");
            else if (isa<CXXFunctionalCastExpr>(X)) J.attribute("style", "functional");
            else J.attribute("style", "c");
            kids(J, {X->getSubExpr()});
            return;
        }
        if (auto *X = dyn_cast<CXXThrowExpr>(S)) {
            head(J, S, "throw");
            if (X->getSubExpr()) J.attribute("extype", typeStr(X->getSubExpr()->getType()));
            kids(J, {X->getSubExpr()});
            return;
        }
        if (auto *X = dyn_cast<LambdaExpr>(S)) {
            head(J, S, "lambda");
            J.attributeBegin("params");
            J.arrayBegin();
            if (auto *CO = X->getCallOperator())
                for (auto *P : CO->parameters()) declObj(J, P);
            J.arrayEnd();
            J.attributeEnd();
            kids(J, {X->getBody()});
            return;
        }
        if (auto *X = dyn_cast<ArraySubscriptExpr>(S)) { head(J, S, "subscript"); kids(J, {X->getBase(), X->getIdx()}); return; }
        if (auto *X = dyn_cast<InitListExpr>(S)) {
            head(J, S, "initlist");
            const InitListExpr *Sem = X->isSemanticForm() ? X : (X->getSemanticForm() ? X->getSemanticForm() : X);
            J.attributeBegin("c");
            J.arrayBegin();
            for (auto *I : Sem->inits()) dumpStmt(J, I);
            J.arrayEnd();
            J.attributeEnd();
            return;
        }
        if (auto *X = dyn_cast<CXXStdInitializerListExpr>(S)) { head(J, S, "stdinitlist"); kids(J, {X->getSubExpr()}); return; }
        if (auto *X = dyn_cast<CXXNewExpr>(S)) {
            head(J, S, "new");
            J.attribute("alloc", typeStr(X->getAllocatedType()));
            if (X->isArray()) J.attribute("array", true);
            J.attributeBegin("c");
            J.arrayBegin();
            if (X->isArray() && X->getArraySize()) dumpStmt(J, *X->getArraySize()); else J.value(nullptr);
            if (X->getInitializer()) dumpStmt(J, X->getInitializer()); else J.value(nullptr);
            J.arrayEnd();
            J.attributeEnd();
            return;
        }
        if (auto *X = dyn_cast<CXXDeleteExpr>(S)) { head(J, S, "delete"); if (X->isArrayForm()) J.attribute("array", true); kids(J, {X->getArgument()}); return; }
        if (auto *X = dyn_cast<CXXDefaultArgExpr>(S)) {
            head(J, S, "defarg");
            // the default expression belongs to the callee; dump it without
            // registering ids (it is shared between call sites)
            auto saved = ids;
            kids(J, {X->getExpr()});
            ids = saved;
            return;
        }
        if (auto *X = dyn_cast<CXXDefaultInitExpr>(S)) { head(J, S, "definit"); auto saved = ids; kids(J, {X->getExpr()}); ids = saved; return; }
        if (auto *X = dyn_cast<UnaryExprOrTypeTraitExpr>(S)) {
            head(J, S, "sizeof");
            J.attribute("trait", X->getKind() == UETT_SizeOf ? "sizeof" : "other");
            if (X->isArgumentType()) J.attribute("arg", typeStr(X->getArgumentType()));
            else kids(J, {X->getArgumentExpr()});
            if (!X->isValueDependent()) {
                Expr::EvalResult R;
                if (X->EvaluateAsInt(R, Ctx)) J.attribute("v", R.Val.getInt().getExtValue());
            }
            return;
        }
        if (auto *X = dyn_cast<CXXScalarValueInitExpr>(S)) { head(J, S, "valueinit"); return; }
        if (auto *X = dyn_cast<ImplicitValueInitExpr>(S)) { head(J, S, "valueinit"); return; }
        if (auto *X = dyn_cast<CXXTypeidExpr>(S)) { head(J, S, "typeid"); return; }
        if (auto *X = dyn_cast<CXXPseudoDestructorExpr>(S)) { head(J, S, "pseudodtor"); return; }
        if (auto *X = dyn_cast<OpaqueValueExpr>(S)) { head(J, S, "opaque"); if (X->getSourceExpr()) kids(J, {X->getSourceExpr()}); return; }
        // ---- dependent (uninstantiated template patterns)
        if (auto *X = dyn_cast<UnresolvedLookupExpr>(S)) { head(J, S, "unresolved"); J.attribute("name", X->getName().getAsString()); return; }
        if (auto *X = dyn_cast<UnresolvedMemberExpr>(S)) {
            head(J, S, "unresolvedmember");
            J.attribute("name", X->getMemberName().getAsString());
            if (!X->isImplicitAccess()) kids(J, {X->getBase()});
            return;
        }
        if (auto *X = dyn_cast<CXXDependentScopeMemberExpr>(S)) {
            head(J, S, "depmember");
            J.attribute("name", X->getMember().getAsString());
            if (!X->isImplicitAccess()) kids(J, {X->getBase()});
            return;
        }
        if (auto *X = dyn_cast<DependentScopeDeclRefExpr>(S)) { head(J, S, "depref"); J.attribute("name", X->getDeclName().getAsString()); return; }
        if (auto *X = dyn_cast<CXXUnresolvedConstructExpr>(S)) {
            head(J, S, "unresolvedconstruct");
            J.attribute("to", typeStr(X->getTypeAsWritten()));
            J.attributeBegin("c");
            J.arrayBegin();
            for (auto *A : X->arguments()) dumpStmt(J, A);
            J.arrayEnd();
            J.attributeEnd();
            return;
        }
        if (auto *X = dyn_cast<ParenListExpr>(S)) { head(J, S, "parenlist"); kidsRange(J, const_cast<ParenListExpr *>(X)->exprs()); return; }
        // generic fallback: class name + children
        head(J, S, "other");
        J.attribute("cls", S->getStmtClassName());
        J.attributeBegin("c");
        J.arrayBegin();
        for (auto *C : S->children()) dumpStmt(J, C);
        J.arrayEnd();
        J.attributeEnd();
    }

    int cfgElemId(const Stmt *S) {
        if (!S) return -1;
        auto it = ids.find(S);
        if (it != ids.end()) return it->second;
        if (auto *DS = dyn_cast<DeclStmt>(S)) {
            // CFG synthesises single-decl DeclStmts
            if (DS->isSingleDecl())
                if (auto *V = dyn_cast<VarDecl>(DS->getSingleDecl())) {
                    auto vt = varDeclStmtIds.find(V);
                    if (vt != varDeclStmtIds.end()) return vt->second;
                }
        }
        if (auto *E = dyn_cast<Expr>(S)) {
            const Expr *X = strip(E);
            auto it2 = ids.find(X);
            if (it2 != ids.end()) return it2->second;
        }
        return -1;
    }

    void dumpCFG(json::OStream &J, const FunctionDecl *FD) {
        CFG::BuildOptions BO;
        BO.setAllAlwaysAdd();
        BO.AddInitializers = true;
        BO.AddEHEdges = false;
        BO.AddImplicitDtors = false;
        BO.AddTemporaryDtors = false;
        BO.PruneTriviallyFalseEdges = false;
        std::unique_ptr<CFG> G = CFG::buildCFG(FD, FD->getBody(), &Ctx, BO);
        if (!G) { J.attribute("cfg", nullptr); return; }
        J.attributeBegin("cfg");
        J.objectBegin();
        J.attribute("entry", (int64_t)G->getEntry().getBlockID());
        J.attribute("exit", (int64_t)G->getExit().getBlockID());
        J.attributeBegin("blocks");
        J.arrayBegin();
        for (const CFGBlock *B : *G) {
            J.objectBegin();
            J.attribute("id", (int64_t)B->getBlockID());
            J.attributeBegin("e");
            J.arrayBegin();
            int last = -2;
            for (const CFGElement &E : *B) {
                int id = -1;
                if (auto SE = E.getAs<CFGStmt>()) id = cfgElemId(SE->getStmt());
                else if (auto IE = E.getAs<CFGInitializer>()) {
                    const CXXCtorInitializer *I = IE->getInitializer();
                    auto it = initIds.find(I);
                    if (it != initIds.end()) id = it->second;
                }
                if (id >= 0 && id != last) J.value((int64_t)id);
                if (id >= 0) last = id;
            }
            J.arrayEnd();
            J.attributeEnd();
            if (const Stmt *T = B->getTerminatorStmt()) {
                J.attribute("term", (int64_t)cfgElemId(T));
                J.attribute("termk", T->getStmtClassName());
            }
            if (const Stmt *C = B->getTerminatorCondition()) J.attribute("cond", (int64_t)cfgElemId(C));
            if (B->hasNoReturnElement()) J.attribute("noreturn", true);
            J.attributeBegin("s");
            J.arrayBegin();
            for (auto I = B->succ_begin(); I != B->succ_end(); ++I) {
                const CFGBlock *SB = I->getReachableBlock();
                if (!SB) SB = I->getPossiblyUnreachableBlock();
                if (SB) J.value((int64_t)SB->getBlockID()); else J.value(nullptr);
            }
            J.arrayEnd();
            J.attributeEnd();
            if (const Stmt *L = B->getLabel()) J.attribute("label", (int64_t)cfgElemId(L));
            J.objectEnd();
        }
        J.arrayEnd();
        J.attributeEnd();
        J.objectEnd();
        J.attributeEnd();
    }

    std::unordered_map<const CXXCtorInitializer *, int> initIds;

    std::string dumpFunction(const FunctionDecl *FD) {
        ids.clear();
        varDeclStmtIds.clear();
        initIds.clear();
        nextId = 0;
        std::string s;
        llvm::raw_string_ostream os(s);
        json::OStream J(os);
        J.objectBegin();
        J.attribute("usr", usrOf(FD->getCanonicalDecl()));
        J.attribute("q", qnameOf(FD));
        if (FD->getDeclName().isIdentifier()) J.attribute("name", FD->getName());
        else J.attribute("name", FD->getDeclName().getAsString());
        J.attribute("sig", funcSig(FD));
        J.attribute("ret", typeStr(FD->getReturnType()));
        J.attribute("file", fileOf(FD->getLocation()));
        J.attribute("line", (int64_t)lineOf(FD->getLocation()));
        J.attribute("endline", (int64_t)lineOf(FD->getEndLoc()));
        const char *kind = "func";
        if (isa<CXXConstructorDecl>(FD)) kind = "ctor";
        else if (isa<CXXDestructorDecl>(FD)) kind = "dtor";
        else if (isa<CXXConversionDecl>(FD)) kind = "conv";
        else if (isa<CXXMethodDecl>(FD)) kind = "method";
        J.attribute("kind", kind);
        if (auto *M = dyn_cast<CXXMethodDecl>(FD)) {
            J.attribute("cls", qnameOf(M->getParent()));
            if (M->isConst()) J.attribute("const", true);
            if (M->isVirtual()) J.attribute("virtual", true);
            if (M->isStatic()) J.attribute("static", true);
            J.attribute("access", M->getAccess() == AS_public ? "public" : (M->getAccess() == AS_protected ? "protected" : "private"));
            J.attributeBegin("overrides");
            J.arrayBegin();
            for (auto *O : M->overridden_methods()) J.value(usrOf(O->getCanonicalDecl()));
            J.arrayEnd();
            J.attributeEnd();
            if (M->getParent()->isLambda()) J.attribute("lambda", true);
        }
        if (FD->isDependentContext()) J.attribute("dependent", true);
        if (FD->isTemplateInstantiation()) {
            J.attribute("instantiation", true);
            if (auto *P = FD->getTemplateInstantiationPattern()) J.attribute("pattern", usrOf(P->getCanonicalDecl()));
        }
        if (auto *TA = FD->getTemplateSpecializationArgs()) {
            J.attributeBegin("targs");
            J.arrayBegin();
            for (auto &A : TA->asArray()) {
                std::string t;
                llvm::raw_string_ostream tos(t);
                A.print(PP, tos, true);
                J.value(tos.str());
            }
            J.arrayEnd();
            J.attributeEnd();
        }
        if (auto *M = dyn_cast<CXXMethodDecl>(FD)) {
            if (auto *CTS = dyn_cast<ClassTemplateSpecializationDecl>(M->getParent())) {
                J.attributeBegin("clstargs");
                J.arrayBegin();
                for (auto &A : CTS->getTemplateArgs().asArray()) {
                    std::string t;
                    llvm::raw_string_ostream tos(t);
                    A.print(PP, tos, true);
                    J.value(tos.str());
                }
                J.arrayEnd();
                J.attributeEnd();
            }
        }
        J.attributeBegin("params");
        J.arrayBegin();
        for (auto *P : FD->parameters()) {
            J.objectBegin();
            J.attribute("name", P->getName());
            J.attribute("lid", (int64_t)(((uintptr_t)P->getCanonicalDecl()) & 0x7fffffffffff));
            J.attribute("type", typeStr(P->getType()));
            J.attribute("ctype", canonStr(P->getType()));
            if (P->hasDefaultArg()) J.attribute("hasdefault", true);
            if (P->hasDefaultArg() && !P->hasUninstantiatedDefaultArg() && !P->hasUnparsedDefaultArg()) {
                J.attributeBegin("default");
                auto saved = ids;
                int savedNext = nextId;
                dumpStmt(J, P->getDefaultArg());
                ids = saved;
                nextId = savedNext;
                J.attributeEnd();
            }
            J.objectEnd();
        }
        J.arrayEnd();
        J.attributeEnd();
        // constructor initialisers
        if (auto *CD = dyn_cast<CXXConstructorDecl>(FD)) {
            J.attributeBegin("inits");
            J.arrayBegin();
            for (auto *I : CD->inits()) {
                J.objectBegin();
                int id = nextId++;
                initIds[I] = id;
                J.attribute("k", "ctorinit");
                J.attribute("id", (int64_t)id);
                J.attribute("l", (int64_t)lineOf(I->getSourceLocation()));
                if (I->isBaseInitializer()) {
                    J.attribute("what", "base");
                    J.attribute("base", typeStr(QualType(I->getBaseClass(), 0)));
                } else if (I->isDelegatingInitializer()) {
                    J.attribute("what", "delegating");
                } else if (I->isAnyMemberInitializer()) {
                    J.attribute("what", "member");
                    if (auto *F = I->getAnyMember()) J.attribute("field", F->getName());
                }
                if (I->isWritten()) J.attribute("written", true);
                kids(J, {I->getInit()});
                J.objectEnd();
            }
            J.arrayEnd();
            J.attributeEnd();
        }
        J.attributeBegin("body");
        dumpStmt(J, FD->getBody());
        J.attributeEnd();
        if (!FD->isDependentContext()) dumpCFG(J, FD);
        J.objectEnd();
        os.flush();
        return s;
    }

    std::string dumpRecord(const CXXRecordDecl *RD) {
        std::string s;
        llvm::raw_string_ostream os(s);
        json::OStream J(os);
        J.objectBegin();
        J.attribute("q", qnameOf(RD));
        J.attribute("file", fileOf(RD->getLocation()));
        J.attribute("line", (int64_t)lineOf(RD->getLocation()));
        J.attribute("abstract", RD->isAbstract());
        if (RD->isUnion()) J.attribute("union", true);
        J.attributeBegin("bases");
        J.arrayBegin();
        for (auto &B : RD->bases()) {
            J.objectBegin();
            J.attribute("type", typeStr(B.getType()));
            if (auto *BR = B.getType()->getAsCXXRecordDecl()) J.attribute("q", qnameOf(BR));
            if (B.isVirtual()) J.attribute("virtual", true);
            J.objectEnd();
        }
        J.arrayEnd();
        J.attributeEnd();
        J.attributeBegin("fields");
        J.arrayBegin();
        for (auto *F : RD->fields()) {
            J.objectBegin();
            J.attribute("name", F->getName());
            J.attribute("type", typeStr(F->getType()));
            J.attribute("ctype", canonStr(F->getType()));
            if (F->isMutable()) J.attribute("mutable", true);
            J.attribute("access", F->getAccess() == AS_public ? "public" : (F->getAccess() == AS_protected ? "protected" : "private"));
            J.objectEnd();
        }
        J.arrayEnd();
        J.attributeEnd();
        J.attributeBegin("methods");
        J.arrayBegin();
        for (auto *M : RD->methods()) {
            if (M->isImplicit()) continue;
            J.objectBegin();
            if (M->getDeclName().isIdentifier()) J.attribute("name", M->getName());
            else J.attribute("name", M->getDeclName().getAsString());
            J.attribute("usr", usrOf(M->getCanonicalDecl()));
            J.attribute("sig", funcSig(M));
            J.attribute("ret", typeStr(M->getReturnType()));
            if (M->isVirtual()) J.attribute("virtual", true);
            if (M->isPure()) J.attribute("pure", true);
            if (M->isConst()) J.attribute("const", true);
            if (M->isStatic()) J.attribute("static", true);
            J.attribute("access", M->getAccess() == AS_public ? "public" : (M->getAccess() == AS_protected ? "protected" : "private"));
            if (M->isDeleted()) J.attribute("deleted", true);
            if (M->hasAttr<DeprecatedAttr>()) J.attribute("deprecated", true);
            J.attributeBegin("overrides");
            J.arrayBegin();
            for (auto *O : M->overridden_methods()) J.value(usrOf(O->getCanonicalDecl()));
            J.arrayEnd();
            J.attributeEnd();
            J.attributeBegin("params");
            J.arrayBegin();
            for (auto *P : M->parameters()) {
                J.objectBegin();
                J.attribute("name", P->getName());
                J.attribute("type", typeStr(P->getType()));
                if (P->hasDefaultArg()) J.attribute("hasdefault", true);
                J.objectEnd();
            }
            J.arrayEnd();
            J.attributeEnd();
            J.objectEnd();
        }
        J.arrayEnd();
        J.attributeEnd();
        J.objectEnd();
        os.flush();
        return s;
    }

    std::string dumpEnum(const EnumDecl *ED) {
        std::string s;
        llvm::raw_string_ostream os(s);
        json::OStream J(os);
        J.objectBegin();
        J.attribute("q", qnameOf(ED));
        J.attribute("file", fileOf(ED->getLocation()));
        J.attribute("line", (int64_t)lineOf(ED->getLocation()));
        J.attribute("scoped", ED->isScoped());
        J.attribute("underlying", typeStr(ED->getIntegerType()));
        J.attributeBegin("enumerators");
        J.arrayBegin();
        for (auto *EC : ED->enumerators()) {
            J.objectBegin();
            J.attribute("name", EC->getName());
            J.attribute("value", EC->getInitVal().getExtValue());
            J.objectEnd();
        }
        J.arrayEnd();
        J.attributeEnd();
        J.objectEnd();
        os.flush();
        return s;
    }

    std::string dumpGlobalVar(const VarDecl *V) {
        ids.clear();
        varDeclStmtIds.clear();
        nextId = 0;
        std::string s;
        llvm::raw_string_ostream os(s);
        json::OStream J(os);
        J.objectBegin();
        J.attribute("q", qnameOf(V));
        J.attribute("name", V->getName());
        J.attribute("file", fileOf(V->getLocation()));
        J.attribute("line", (int64_t)lineOf(V->getLocation()));
        J.attribute("type", typeStr(V->getType()));
        J.attribute("ctype", canonStr(V->getType()));
        if (V->isStaticDataMember()) J.attribute("staticmember", true);
        if (V->isConstexpr()) J.attribute("constexpr", true);
        if (const Expr *I = V->getAnyInitializer()) {
            J.attributeBegin("init");
            dumpStmt(J, I);
            J.attributeEnd();
            if (!I->isValueDependent() && V->getType()->isIntegralOrEnumerationType()) {
                Expr::EvalResult R;
                if (I->EvaluateAsInt(R, Ctx)) J.attribute("v", R.Val.getInt().getExtValue());
            }
        }
        J.objectEnd();
        os.flush();
        return s;
    }
};

class Visitor : public RecursiveASTVisitor<Visitor> {
    ASTContext &Ctx;
    Dumper D;

public:
    explicit Visitor(ASTContext &C) : Ctx(C), D(C) {}
    bool shouldVisitTemplateInstantiations() const { return true; }
    bool shouldVisitImplicitCode() const { return false; }

    bool VisitFunctionDecl(FunctionDecl *FD) {
        if (!FD->doesThisDeclarationHaveABody()) return true;
        if (FD->isImplicit() && !isa<CXXMethodDecl>(FD)) return true;
        std::string f = D.fileOf(FD->getLocation());
        if (!underRoots(f)) return true;
        std::string usr = D.usrOf(FD->getCanonicalDecl());
        if (FD->isDependentContext()) usr += "#pattern";
        // lambdas: USR not unique → add location
        if (auto *M = dyn_cast<CXXMethodDecl>(FD))
            if (M->getParent()->isLambda()) return true;  // lambda bodies are dumped inline
        if (usr.empty() || !gSeenFuncs.insert(usr).second) return true;
        gOut.funcs.push_back(D.dumpFunction(FD));
        return true;
    }
    bool VisitCXXRecordDecl(CXXRecordDecl *RD) {
        if (!RD->isThisDeclarationADefinition() || RD->isLambda()) return true;
        if (RD->isDependentContext()) return true;
        std::string f = D.fileOf(RD->getLocation());
        if (!underRoots(f)) return true;
        std::string q = D.qnameOf(RD);
        if (!gSeenRecords.insert(q).second) return true;
        gOut.records.push_back(D.dumpRecord(RD));
        return true;
    }
    bool VisitEnumDecl(EnumDecl *ED) {
        if (!ED->isThisDeclarationADefinition()) return true;
        std::string f = D.fileOf(ED->getLocation());
        // enums of HDF5 are not needed
        if (!underRoots(f)) return true;
        std::string q = D.qnameOf(ED);
        if (!gSeenEnums.insert(q).second) return true;
        gOut.enums.push_back(D.dumpEnum(ED));
        return true;
    }
    bool VisitVarDecl(VarDecl *V) {
        if (isa<ParmVarDecl>(V) || V->isLocalVarDecl()) return true;
        if (!V->isThisDeclarationADefinition() && !V->hasInit()) return true;
        if (V->getDeclContext()->isDependentContext()) return true;
        std::string f = D.fileOf(V->getLocation());
        if (!underRoots(f)) return true;
        std::string q = D.qnameOf(V) + "@" + f;
        if (!gSeenVars.insert(q).second) return true;
        gOut.vars.push_back(D.dumpGlobalVar(V));
        return true;
    }
};

class Consumer : public ASTConsumer {
public:
    void HandleTranslationUnit(ASTContext &Ctx) override {
        if (Ctx.getDiagnostics().hasErrorOccurred()) {
            llvm::errs() << "nixfacts: parse errors, unit skipped\n";
            gParseErrors++;
            return;
        }
        Visitor V(Ctx);
        V.TraverseDecl(Ctx.getTranslationUnitDecl());
    }
    static int gParseErrors;
};
int Consumer::gParseErrors = 0;

class Action : public ASTFrontendAction {
public:
    std::unique_ptr<ASTConsumer> CreateASTConsumer(CompilerInstance &CI, StringRef File) override {
        gOut.tus.push_back(File.str());
        return std::make_unique<Consumer>();
    }
};

int main(int argc, const char **argv) {
    if (argc < 5) {
        llvm::errs() << "usage: nixfacts <out.json> <roots> <src>... -- <flags>\n";
        return 2;
    }
    std::string out = argv[1];
    {
        std::string r = argv[2];
        size_t p = 0;
        while (p <= r.size()) {
            size_t q = r.find(':', p);
            if (q == std::string::npos) q = r.size();
            if (q > p) gRoots.push_back(r.substr(p, q - p));
            p = q + 1;
        }
    }
    std::vector<std::string> srcs;
    int i = 3;
    for (; i < argc && std::string(argv[i]) != "--"; i++) srcs.push_back(argv[i]);
    std::vector<std::string> flags;
    for (i++; i < argc; i++) flags.push_back(argv[i]);
    tooling::FixedCompilationDatabase DB(".", flags);
    tooling::ClangTool Tool(DB, srcs);
    int rc = Tool.run(tooling::newFrontendActionFactory<Action>().get());
    if (rc != 0 || Consumer::gParseErrors) {
        llvm::errs() << "nixfacts: failed (rc=" << rc << ", parse errors in " << Consumer::gParseErrors << " units)\n";
        return 2;
    }
    std::error_code EC;
    llvm::raw_fd_ostream os(out + ".tmp", EC);
    if (EC) { llvm::errs() << "cannot write " << out << "\n"; return 2; }
    auto emit = [&](const char *key, std::vector<std::string> &v, bool last) {
        os << "\"" << key << "\":[";
        for (size_t k = 0; k < v.size(); k++) { if (k) os << ",\n"; os << v[k]; }
        os << "]" << (last ? "" : ",") << "\n";
    };
    os << "{";
    os << "\"tus\":[";
    for (size_t k = 0; k < gOut.tus.size(); k++) { if (k) os << ","; os << "\"" << gOut.tus[k] << "\""; }
    os << "],\n";
    emit("decltab", gDeclTab, false);
    os << "\"typetab\":[";
    for (size_t k = 0; k < gTypeTab.size(); k++) { if (k) os << ","; os << llvm::formatv("{0}", json::Value(gTypeTab[k])); }
    os << "],\n";
    emit("functions", gOut.funcs, false);
    emit("records", gOut.records, false);
    emit("enums", gOut.enums, false);
    emit("vars", gOut.vars, true);
    os << "}\n";
    os.close();
    if (std::rename((out + ".tmp").c_str(), out.c_str()) != 0) return 2;
    return 0;
}
