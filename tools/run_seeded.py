#!/usr/bin/env python3
"""Run checks against a seeded change on a scratch copy: tools/run_seeded.py <seed-dir-name> [prop ...]
(default: every property with a check). Prints which checks report the change."""
import json, os, shutil, subprocess, sys, tempfile, hashlib
sys.path.insert(0, '/verif')
from nixsa import mutants
seed = sys.argv[1]
sd = os.path.join('/verif/seeded', seed)
props = sys.argv[2:] or sorted(f[:-3] for f in os.listdir('/verif/nixsa/props') if f.startswith('C') and f.endswith('.py'))
d = tempfile.mkdtemp(prefix='nixseed-')
try:
    mutants.make_copy('/repo', d)
    r = subprocess.run(['git', 'apply', '--unsafe-paths', '--directory=' + d, os.path.join(sd, 'patch.diff')], cwd='/', stdout=subprocess.PIPE, stderr=subprocess.STDOUT)
    if r.returncode != 0:
        r = subprocess.run(['patch', '-p1', '-d', d, '-i', os.path.join(sd, 'patch.diff')], stdout=subprocess.PIPE, stderr=subprocess.STDOUT)
        if r.returncode != 0:
            print('patch does not apply:', r.stdout.decode()[-500:]); sys.exit(2)
    env = dict(os.environ, NIX_REPO=d, NIX_NO_EVIDENCE='1')
    res = {}
    for p in props:
        r = subprocess.run(['/verif/check', p, '--repo', d], stdout=subprocess.PIPE, stderr=subprocess.STDOUT, env=env, cwd='/verif')
        res[p] = r.returncode
        if r.returncode != 0:
            lines = [l for l in r.stdout.decode().splitlines() if 'violation' in l or 'BROKEN' in l]
            print('%s rc=%d' % (p, r.returncode))
            for l in lines[:4]:
                print('    ' + l.strip()[:300])
    print('SUMMARY %s: caught by %s; silent: %s' % (seed, [p for p, rc in res.items() if rc == 1], [p for p, rc in res.items() if rc == 0]))
finally:
    shutil.rmtree(d, ignore_errors=True)
    pre = 'x' + hashlib.sha256(d.encode()).hexdigest()[:6]
    for e in os.listdir('/verif/.cache'):
        if e.startswith(pre):
            shutil.rmtree(os.path.join('/verif/.cache', e), ignore_errors=True)
