#!/usr/bin/env python3
"""Writes the sub-agent prompts for a round of seeded changes: tools/mkprompts.py <suffix> <outdir>
Each prompt contains only the property text, the scratch-worktree instructions and the list of change ideas already stored
under seeded/ for that property (the sub-agents' own earlier ideas; nothing about the checks)."""
import json, os, sys
suffix, out = sys.argv[1], sys.argv[2]
os.makedirs(out, exist_ok=True)
used = {}
for s in sorted(os.listdir('/verif/seeded')):
    m = json.load(open('/verif/seeded/%s/meta.json' % s))
    used.setdefault(m['property'], []).append(m.get('change', '?'))
for l in open('/verif/properties.jsonl'):
    d = json.loads(l)
    pid = d['id']; w = pid + suffix
    s = ("You are helping to evaluate verification tooling for the C++ library G-Node/nix (NIX neuroscience data model on HDF5). Your job: craft ONE realistic source change to the library that BREAKS the behavioural property below, while the library still compiles and its existing test suite still passes, plus a small demonstration program that exposes the breakage.\n\n"
         "PROPERTY (%s: %s)\n%s\nQuantifier: %s\n\n" % (pid, d['title'], d['statement'], d['quantifier']['text']))
    s += ("YOUR WORKSPACE (use ONLY this; never touch /repo itself or anything under /verif, and do not read /verif):\n"
          "  git -C /repo worktree add --detach /tmp/wt-{w} HEAD\n"
          "  cmake -G Ninja -S /tmp/wt-{w} -B /tmp/wt-{w}/_build -DCMAKE_BUILD_TYPE=RelWithDebInfo -DCMAKE_CXX_FLAGS=-Wno-error\n"
          "  cmake --build /tmp/wt-{w}/_build -j8\n"
          "  ctest --test-dir /tmp/wt-{w}/_build -j1 --timeout 900    # must be -j1 (tests share files); all 31 must pass\n"
          "Sources are under /tmp/wt-{w}/{{src,include,backend/hdf5}} (only backend/hdf5 is built). There is no network.\n"
          "IMPORTANT: never use `git stash` (shared between all worktrees). To test without your change: `git -C /tmp/wt-{w} diff > p.diff; git -C /tmp/wt-{w} apply -R p.diff; rebuild; ...; git -C /tmp/wt-{w} apply p.diff; rebuild`.\n\n").format(w=w)
    s += ("REQUIREMENTS FOR THE CHANGE\n"
          "- Ideas that were ALREADY USED by others and must NOT be repeated (pick a different mechanism and a different function): %s\n"
          "- It must violate the property for at least some inputs/histories, but NOT in a way that ordinary use exposes at once: it should need something specific to manifest (a multi-step sequence, an unusual but legal input, a particular configuration, a crash/fault at a particular point, or two cooperating edits that each look harmless alone). Think of the regression a plausible refactoring, optimisation or cleanup could introduce. Choose the place yourself; prefer one a reviewer would at first sight consider unrelated to the property (a shared helper, a default argument, an overload, an error path, an operator, a conversion, bookkeeping in another class).\n"
          "- The library must still compile and the complete existing test suite (ctest -j1, 31 groups) must still pass. Do not edit tests.\n"
          "- Keep it small (typically 1-15 changed lines, possibly in two places).\n\n" % (' | '.join(used.get(pid, [])) or 'none'))
    s += ("DELIVERABLES (write them to /tmp/seed-{w}/): patch.diff (`git -C /tmp/wt-{w} diff`), demo.cpp (standalone, #include <nix.hpp>, exits 0 when the property holds for its scenario and non-zero with a message when violated; must FAIL with your change and PASS without it; .nix files under /tmp/seed-{w}/), "
          "build_demo.sh (usage `build_demo.sh <worktree>`, e.g. g++ -std=c++11 -w -I$1/include -I$1/_build/include -I/usr/include/hdf5/serial demo.cpp -o demo -L$1/_build -lnixio -Wl,-rpath,$1/_build -lhdf5_serial), "
          "notes.md (what is broken, what triggers it, evidence: ctest with the change, demo with, demo without).\n"
          "Leave the worktree /tmp/wt-{w} in place WITH your change applied and built. Report a short summary.\n").format(w=w)
    open(os.path.join(out, pid + '.txt'), 'w').write(s)
print('prompts written to', out)
