// Instantiation witness (see DESIGN.md 1.1): explicit instantiations of the
// header templates of /repo that the library's own translation units never
// instantiate, so that their bodies are analysed with resolved callees.  This file
// contributes no code of its own: nixfacts only emits declarations located under
// /repo.
#include <nix.hpp>
#include <nix/NDArray.hpp>
#include <nix/hydra/multiArray.hpp>
#include <nix/util/filter.hpp>
#include <nix/valid/checks.hpp>
#include <valarray>
#include <boost/multi_array.hpp>

// front-end entity bases, for every interface they are used with
template class nix::base::Entity<nix::base::IFeature>;
template class nix::base::Entity<nix::base::IProperty>;
template class nix::base::NamedEntity<nix::base::ISection>;
template class nix::base::EntityWithMetadata<nix::base::IBlock>;
template class nix::base::EntityWithMetadata<nix::base::ISource>;
template class nix::base::EntityWithSources<nix::base::IDataArray>;
template class nix::base::EntityWithSources<nix::base::IDataFrame>;
template class nix::base::EntityWithSources<nix::base::IGroup>;
template class nix::base::EntityWithSources<nix::base::ITag>;
template class nix::base::EntityWithSources<nix::base::IMultiTag>;

template class nix::NDSizeBase<nix::ndsize_t>;
template class nix::NDSizeBase<nix::ndssize_t>;

namespace nix {
namespace verif_witness {

typedef boost::multi_array<double, 2> marr_d2;
typedef boost::multi_array<int8_t, 1> marr_i8;
typedef boost::multi_array<uint8_t, 1> marr_u8;
typedef boost::multi_array<int16_t, 2> marr_i16;

template<typename T>
void dataset_io(DataSet &ds, T &v, const NDSize &count, const NDSize &offset) {
    ds.getData(v);
    ds.setData(v);
    ds.getData(v, offset);
    ds.setData(v, offset);
    ds.getData(v, count, offset);
}

void io(DataArray &da, DataView &dv, const NDSize &count, const NDSize &offset) {
    double d = 0; int8_t i8 = 0; std::string s; bool b = false; int32_t i32 = 0; uint64_t u64 = 0;
    std::vector<double> vd; std::vector<int8_t> vi8; std::vector<std::string> vs; std::vector<int32_t> vi32;
    std::valarray<double> vad; std::valarray<int16_t> vai16;
    marr_d2 md; marr_i8 mi8; marr_u8 mu8; marr_i16 mi16;
    double carr[4]; int32_t carr2[2][3];
    dataset_io(da, d, count, offset); dataset_io(da, i8, count, offset); dataset_io(da, s, count, offset);
    dataset_io(da, b, count, offset); dataset_io(da, i32, count, offset); dataset_io(da, u64, count, offset);
    dataset_io(da, vd, count, offset); dataset_io(da, vi8, count, offset); dataset_io(da, vs, count, offset);
    dataset_io(da, vi32, count, offset);
    dataset_io(da, vad, count, offset); dataset_io(da, vai16, count, offset);
    dataset_io(da, md, count, offset); dataset_io(da, mi8, count, offset); dataset_io(da, mu8, count, offset);
    dataset_io(da, mi16, count, offset);
    dataset_io(da, carr, count, offset); dataset_io(da, carr2, count, offset);
    dataset_io(dv, vd, count, offset); dataset_io(dv, md, count, offset);
}

void create(Block &blk) {
    std::vector<double> vd; marr_d2 md; marr_i8 mi8; std::vector<std::string> vs;
    blk.createDataArray("n", "t", vd);
    blk.createDataArray("n", "t", md);
    blk.createDataArray("n", "t", mi8);
    blk.createDataArray("n", "t", vs);
}

void frames(DataFrame &df, DataFrameDimension &dim) {
    std::vector<double> vd; std::vector<std::string> vs; std::vector<int64_t> vi; std::vector<bool> vb;
    df.writeColumn("c", vd, 0, 0); df.writeColumn(0u, vd, 0, 0);
    df.readColumn("c", vd, true, 0); df.readColumn(0u, vd, true, 0);
    df.readColumn("c", vd, (size_t)1, true, 0); df.readColumn(0u, vd, (size_t)1, true, 0);
    df.writeColumn("c", vs, 0, 0); df.writeColumn(0u, vs, 0, 0);
    df.readColumn("c", vs, true, 0); df.readColumn(0u, vs, true, 0);
    df.readColumn("c", vs, (size_t)1, true, 0); df.readColumn(0u, vs, (size_t)1, true, 0);
    df.writeColumn("c", vi, 0, 0); df.readColumn(0u, vi, true, 0);
    dim.ticks(vd, boost::optional<unsigned>(), true, 0);
    dim.ticks(vs, boost::optional<unsigned>(), true, 0);
}

void ndarray(NDArray &a, const NDSize &pos) {
    a.set<double>((size_t)0, a.get<double>((size_t)0));
    a.set<double>(pos, a.get<double>(pos));
    a.set<int8_t>((size_t)0, a.get<int8_t>((size_t)0));
    a.set<int32_t>(pos, a.get<int32_t>(pos));
}

void ndsize(NDSize a, NDSize b, NDSSize c) {
    std::vector<int> v;
    NDSize d(v);
    bool r = (a != b) || (a < b) || (a >= b) || (a <= b) || (a > b) || (a == b);
    (void) r;
    d = a - b; d = a + b; d = a * b; d = a / b;
    d = a + (ndsize_t)1; d = (ndsize_t)1 + a; d = a + 1; d = 1 + a;
    // (scalar * and / overloads of NDSizeBase do not compile when instantiated: left out)
    ndsize_t out;
    nix_safe_add<ndsize_t>(1, 2, &out);
    (void) c;
}

void misc(File &f, Block &b, Section &s, Source &src, DataArray &da, Tag &t, MultiTag &mt, Group &g, Feature &ft, Property &p, DataFrame &df) {
    Identity i1(b); Identity i2(da); Identity i3(s);
    util::toId(b); util::toName(b); util::toId(da); util::toName(da);
    util::convertToSeconds<double>("ms", 1.0); util::convertToKelvin<double>("C", 1.0);
    util::strToNum<int>("1"); util::strToNum<double>("1");
    util::IdsFilter<DataArray> idf(std::vector<std::string>{}); idf(da);
    util::TypeFilter<DataArray> tf("t"); tf(da);
    util::TypeFilter<Section> tf2("t"); tf2(s);
    check::fits_in_size_t((ndsize_t)1, "x");
    check::fits_in_size_t((unsigned long long)1, "x");
    Variant v("lit"); Value vv("lit");
    Cell c1("a", 1.0); Cell c2(0, std::string("x"));
    (void) f; (void) src; (void) t; (void) mt; (void) g; (void) ft; (void) p; (void) df;
}

} // namespace verif_witness
} // namespace nix

// element-type codec: make the compile-time rows of to_data_type<T> visible for every arithmetic type
namespace nix { namespace verif_witness {
static const DataType dt_rows[] = {
    to_data_type<bool>::value, to_data_type<float>::value, to_data_type<double>::value,
    to_data_type<int8_t>::value, to_data_type<int16_t>::value, to_data_type<int32_t>::value, to_data_type<int64_t>::value,
    to_data_type<uint8_t>::value, to_data_type<uint16_t>::value, to_data_type<uint32_t>::value, to_data_type<uint64_t>::value,
    to_data_type<long long>::value, to_data_type<unsigned long long>::value, to_data_type<std::string>::value
};
} }
