#!/bin/bash
# usage: process_seed.sh <prop> <suffix>  -- confirm a sub-agent seed, store it, remove its worktree, run the property's check on it
P=$1; S=${2:-}
/verif/tools/confirm_seed.sh $P $S 2>&1 | tail -6
git -C /repo worktree remove --force /tmp/wt-$P$S 2>/dev/null; rm -rf /tmp/seed-$P$S; git -C /repo worktree prune
python3 /verif/tools/run_seeded.py $P$S $P 2>&1 | tail -4 | cut -c1-900
