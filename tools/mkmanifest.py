#!/usr/bin/env python3
"""Regenerates /verif/MANIFEST.json from the table below (kept valid at all times)."""
import json
import os
import sys

HERE = os.path.dirname(os.path.dirname(os.path.abspath(__file__)))
sys.path.insert(0, HERE)
from nixsa.manifest_table import CHECKS, NOT_APPLICABLE  # noqa

TB = ('Trusted base: clang 14 front end (AST + CFG), tools/nixfacts.cc, the python rules in nixsa/, the build flags '
      '(-std=c++11 -DNDEBUG -DH5_USE_110_API=1; only backend/hdf5 is built). Assumes libhdf5 honours its documented '
      'contract. Decides the named structural clauses on every path of the current source; does NOT decide runtime '
      'values (see DESIGN.md section 3 "Not decided").')

m = {
    'version': 1,
    'setup_cmd': './setup.sh',
    'hooks': {
        'guard': 'NIX_VERIF',
        'enable': 'none: the checks are static and need no instrumentation; no hook commits exist',
        'baseline_off_cmd': 'cmake --build /repo/_build -j16 && ctest --test-dir /repo/_build -j1 --timeout 900',
        'source_commits': [],
        'add_only': True,
    },
    'engines': [
        {'name': 'nixfacts', 'path': 'tools/nixfacts.cc',
         'serves_properties': sorted(CHECKS.keys()),
         'kind_free_text': 'clang-14 libTooling extractor: type-resolved syntax trees, clang::CFG, records/enums/globals for '
                           'every library translation unit (+ an instantiation witness TU for header templates)'},
        {'name': 'nixsa', 'path': 'nixsa/',
         'serves_properties': sorted(CHECKS.keys()),
         'kind_free_text': 'repository-specific static rules over the extracted facts: dominance/guard facts, validator '
                           'summaries, who-may-call, must-pass-through, decision-table extraction, def-use, typestate'},
    ],
    'checks': [],
    'not_applicable': [],
    'notes': 'Static analysis only. exit 0 pass / 1 VIOLATION / 2 analysis broken. known_findings.json lists genuine '
             'defects (fixed by fix: commits in /repo, or recorded as known).',
}
for pid in sorted(CHECKS):
    c = CHECKS[pid]
    m['checks'].append({
        'property_id': pid,
        'quick_cmd': './check %s --tier quick' % pid,
        'thorough_cmd': './check %s --tier thorough' % pid,
        'evidence_file': '/verif/evidence/%s.json' % pid,
        'replay_cmd_template': './check %s --replay {path}' % pid,
        'engine': 'nixsa',
        'level_claimed': {'category': c.get('level', 'other'), 'text': c['text'], 'design_ref': c.get('ref', 'DESIGN.md section 3 ' + pid)},
        'level_note': c.get('note', TB),
        'technique': c['technique'],
    })
for pid in sorted(NOT_APPLICABLE):
    m['not_applicable'].append({'property_id': pid, 'reason': NOT_APPLICABLE[pid]})
with open(os.path.join(HERE, 'MANIFEST.json'), 'w') as f:
    json.dump(m, f, indent=1)
print('MANIFEST.json: %d checks, %d not applicable' % (len(m['checks']), len(m['not_applicable'])))
