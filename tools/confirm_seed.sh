#!/bin/bash
# usage: confirm_seed.sh <prop> [suffix]   -- re-confirms a sub-agent's seeded change in its scratch worktree
# (suite passes with the change; demo fails with it and passes without it), then stores it under /verif/seeded/.
set -u
P=$1; S=${2:-}
WT=/tmp/wt-$P$S; SD=/tmp/seed-$P$S; OUT=/verif/seeded/$P$S
[ -d $WT ] || { echo "no worktree $WT"; exit 2; }
cd $SD || exit 2
echo "== patch"; git -C $WT diff --stat | tail -3
git -C $WT diff > $SD/patch.confirmed.diff
echo "== build with change"; cmake --build $WT/_build -j16 2>&1 | tail -1
echo "== ctest with change"; ctest --test-dir $WT/_build -j1 --timeout 900 2>&1 | grep "tests passed"
bash $SD/build_demo.sh $WT >/dev/null 2>&1; (cd $SD && ./demo > $SD/confirm_with.txt 2>&1; echo "demo with change rc=$?")
git -C $WT apply -R $SD/patch.confirmed.diff   # (not git stash: the stash ref is shared by all worktrees)
cmake --build $WT/_build -j16 2>&1 | tail -1
bash $SD/build_demo.sh $WT >/dev/null 2>&1; (cd $SD && ./demo > $SD/confirm_without.txt 2>&1; echo "demo without change rc=$?")
git -C $WT apply $SD/patch.confirmed.diff
mkdir -p $OUT
cp $SD/patch.confirmed.diff $OUT/patch.diff
cp $SD/demo.cpp $SD/build_demo.sh $SD/notes.md $OUT/ 2>/dev/null
cp $SD/confirm_with.txt $SD/confirm_without.txt $OUT/
echo "stored in $OUT"
