#!/bin/bash
# order-independence experiment: every check must give the same verdict on the unchanged tree whatever the string hash seed is
for s in 1 2 3 4 5 6; do
  for i in $(seq -w 1 20); do
    r=$(NIX_HASHSEED=$s NIX_NO_EVIDENCE=1 /verif/check C$i 2>&1 | tail -1)
    case "$r" in *PASS*) ;; *) echo "seed $s C$i: $r";; esac
  done
  echo "seed $s done"
done
