#include <nix.hpp>
#include <iostream>
using namespace nix;
int main() {
    File f = File::open("/tmp/replay4/t2.nix", FileMode::Overwrite);
    Section s = f.createSection("s", "t");
    int bad = 0;
    try { s.link(s); std::cout << "self link accepted\n"; } catch (const std::exception &e) { std::cout << "self link refused: " << e.what() << "\n"; }
    Section h = f.getSection("s");
    bool d = f.deleteSection("s");
    std::cout << "deleted=" << d << " count=" << f.sectionCount() << " handle valid=" << h.isValidEntity() << "\n";
    if (h.isValidEntity()) bad++;
    f.close();
    return bad;
}
