#include <nix.hpp>
#include <nix/NDArray.hpp>
#include <nix/hydra/multiArray.hpp>
#include <nix/util/dataAccess.hpp>
#include <iostream>
using namespace nix;
#define TRY(label, stmt) try { stmt; std::cout << label << ": no exception\n"; } catch (const std::exception &e) { std::cout << label << ": threw " << e.what() << "\n"; }
int main(int argc, char **argv) {
    std::string which = argv[1];
    if (which == "D16") {
        { File f = File::open("/tmp/replay/ro.nix", FileMode::Overwrite);
          Block b = f.createBlock("b", "t");
          DataArray a = b.createDataArray("a", "t", DataType::Double, NDSize({3}));
          a.appendSetDimension();
          Source s = b.createSource("s", "t"); a.addSource(s);
          Tag t = b.createTag("tg", "t", {0.0}); t.addReference(a); t.createFeature(a, LinkType::Tagged);
          f.close(); }
        File f = File::open("/tmp/replay/ro.nix", FileMode::ReadOnly);
        Block b = f.getBlock("b"); Tag t = b.getTag("tg"); DataArray a = b.getDataArray("a");
        TRY("D16 RO removeReference", std::cout << t.removeReference(a) << " ");
        std::cout << "D16 refcount still=" << t.referenceCount() << "\n";
        TRY("D16 RO removeSource", std::cout << a.removeSource(b.getSource("s")) << " ");
        TRY("D16 RO deleteDimensions", std::cout << a.deleteDimensions() << " ");
        std::cout << "D16 dims still=" << a.dimensionCount() << "\n";
        TRY("D16 RO deleteFeature", std::cout << t.deleteFeature(t.getFeature(0)) << " ");
        TRY("D16 RO label (control)", a.label("x"));
        f.close();
        return 0;
    }
    File f = File::open("/tmp/replay/t2.nix", FileMode::Overwrite);
    Block b = f.createBlock("b", "t");
    if (which == "D10") {
        DataArray a = b.createDataArray("s", "t", DataType::String, NDSize({2}));
        a.setData(std::vector<std::string>{"x", "y"});
        a.dataExtent(NDSize({4}));
        std::vector<std::string> out;
        std::cout << "D10 reading grown string array..." << std::endl;
        a.getData(out);
        std::cout << "D10 survived n=" << out.size() << std::endl;
    }
    if (which == "D11") {
        DataArray a = b.createDataArray("a", "t", DataType::Double, NDSize({3}));
        Tag t = b.createTag("tg", "t", {0.0});
        Feature ft = t.createFeature(a, LinkType::Tagged);
        b.deleteDataArray(a);
        std::cout << "D11 getFeature by other name..." << std::endl;
        Feature g = t.getFeature("nonexistent");
        std::cout << "D11 survived none=" << (g == nix::none) << std::endl;
    }
    if (which == "D12") {
        DataArray a = b.createDataArray("a", "t", DataType::Double, NDSize({10}));
        a.appendSampledDimension(1.0);
        DataArray p = b.createDataArray("p", "t", DataType::Double, NDSize({0}));
        MultiTag mt = b.createMultiTag("mt", "t", p);
        mt.addReference(a);
        std::vector<ndsize_t> idx;
        std::cout << "D12 taggedData with zero positions..." << std::endl;
        TRY("D12", std::cout << mt.taggedData(idx, 0).size() << " ");
    }
    if (which == "D21") {
        DataArray p = b.createDataArray("p", "t", DataType::Double, NDSize({3}));
        MultiTag mt = b.createMultiTag("mt", "t", p);
        std::cout << "D21 getFeature(0) on featureless multitag..." << std::endl;
        TRY("D21", mt.getFeature(size_t(0)));
    }
    if (which == "D22") {
        NDArray arr(DataType::Double, NDSize({2}));
        std::cout << "D22 get<double>(1000000)..." << std::endl;
        TRY("D22", std::cout << arr.get<double>(100000000) << " ");
    }
    if (which == "D23") {
        std::vector<Column> cols = {{"c", "V", DataType::Double}};
        DataFrame df = b.createDataFrame("f", "t", cols);
        std::cout << "D23 colName(99)..." << std::endl;
        TRY("D23", std::cout << df.colName(99) << " ");
    }
    if (which == "D17") {
        boost::multi_array<int8_t, 1> m(boost::extents[200]);
        Hydra<const boost::multi_array<int8_t,1>> h(m);
        std::cout << "D17 shape=" << h.shape()[0] << "\n";
        boost::multi_array<uint8_t, 1> m2(boost::extents[300]);
        Hydra<const boost::multi_array<uint8_t,1>> h2(m2);
        std::cout << "D17 shape u8 300=" << h2.shape()[0] << "\n";
    }
    if (which == "D9") {
        DataArray a = b.createDataArray("a", "t", DataType::Double, NDSize({5,5}));
        a.appendSampledDimension(1.0); a.appendSampledDimension(1.0);
        std::vector<double> st, en;
        st.reserve(1); en.reserve(1); st.push_back(1.0); en.push_back(3.0); st.shrink_to_fit(); en.shrink_to_fit();
        TRY("D9 dataSlice fewer entries", { DataView v = util::dataSlice(a, st, en); std::cout << v.dataExtent(); });
    }
    f.close();
    return 0;
}
