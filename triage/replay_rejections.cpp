#include <nix.hpp>
#include <nix/util/dataAccess.hpp>
#include <nix/valid/validate.hpp>
#include <iostream>
#include <cstdlib>
using namespace nix;
#define TRY(label, stmt) try { stmt; std::cout << label << ": no exception\n"; } catch (const std::exception &e) { std::cout << label << ": threw " << e.what() << "\n"; }
int main(int argc, char **argv) {
    std::string which = argc > 1 ? argv[1] : "all";
    File f = File::open("/tmp/replay/t.nix", FileMode::Overwrite);
    Block b = f.createBlock("b", "t");
    Block b2 = f.createBlock("b2", "t");
    if (which == "D1") {
        std::vector<Column> cols = {{"c", "V", DataType::Double}};
        DataFrame df = b.createDataFrame("f", "typeA", cols);
        std::string id0 = df.id();
        TRY("D1 dup createDataFrame", b.createDataFrame("f", "typeB", cols));
        DataFrame d2 = b.getDataFrame("f");
        std::cout << "D1 id changed=" << (d2.id() != id0) << " type=" << d2.type() << "\n";
        TRY("D1 name with slash", b.createDataFrame("a/b", "t", cols));
        TRY("D1 empty type", b.createDataFrame("z", "", cols));
        std::cout << "D1 frames=" << b.dataFrameCount() << "\n";
    }
    if (which == "D2") {
        DataArray other = b2.createDataArray("pos", "t", DataType::Double, NDSize({3}));
        TRY("D2 createMultiTag foreign positions", b.createMultiTag("mt", "t", other));
        std::cout << "D2 multiTagCount=" << b.multiTagCount() << " hasMultiTag=" << b.hasMultiTag("mt") << "\n";
    }
    if (which == "D3") {
        Section s1 = f.createSection("s1", "t");
        DataArray a = b.createDataArray("a", "t", DataType::Double, NDSize({3}));
        a.metadata(s1);
        TRY("D3 metadata(bad id)", a.metadata(std::string("00000000-0000-0000-0000-000000000000")));
        std::cout << "D3 metadata still set=" << (a.metadata() != nix::none) << "\n";
        Section s2 = f.createSection("s2", "t");
        s2.link(s1);
        TRY("D3 link(bad id)", s2.link(std::string("00000000-0000-0000-0000-000000000000")));
        std::cout << "D3 link still set=" << (s2.link() != nix::none) << "\n";
        DataArray p = b.createDataArray("p", "t", DataType::Double, NDSize({3,2}));
        DataArray e = b.createDataArray("e", "t", DataType::Double, NDSize({3,2}));
        DataArray e2 = b.createDataArray("e2", "t", DataType::Double, NDSize({4,2}));
        MultiTag mt = b.createMultiTag("mt", "t", p);
        mt.extents(e);
        TRY("D3 extents(mismatch)", mt.extents(e2));
        bool has = false; try { has = (mt.extents() != nix::none); } catch (...) {}
        std::cout << "D3 extents still set=" << has << "\n";
    }
    if (which == "D4") {
        Section s = f.createSection("s", "t");
        Property p = s.createProperty("p", std::vector<Variant>{Variant(int32_t(1)), Variant(int32_t(2)), Variant(int32_t(3))});
        TRY("D4 values mixed", p.values({Variant(int32_t(7)), Variant("a")}));
        std::cout << "D4 valueCount after reject=" << p.valueCount() << "\n";
        TRY("D4 createProperty mixed", s.createProperty("q", std::vector<Variant>{Variant(int32_t(1)), Variant("x")}));
        std::cout << "D4 hasProperty(q)=" << s.hasProperty("q") << "\n";
    }
    if (which == "D5") {
        std::vector<Column> cols = {{"c", "V", DataType::Double}};
        DataFrame df2 = b2.createDataFrame("f", "t", cols);
        DataArray a = b.createDataArray("a", "t", DataType::Double, NDSize({3}));
        TRY("D5 appendDataFrameDimension foreign", a.appendDataFrameDimension(df2));
        std::cout << "D5 dimensionCount=" << a.dimensionCount() << "\n";
    }
    if (which == "D6") {
        DataArray a = b.createDataArray("a", "t", DataType::Double, NDSize({3,3}));
        TRY("D6 unsorted ticks", a.appendRangeDimension({3.0, 1.0, 2.0}));
        TRY("D6 negative interval", a.appendSampledDimension(-1.0));
        std::cout << "D6 dims=" << a.dimensionCount() << "\n";
        DataArray a2 = b.createDataArray("a2", "t", DataType::Double, NDSize({3}));
        SampledDimension sd = a2.appendSampledDimension(1.0, "l", "s", -2.5);
        std::cout << "D7 offset stored=" << (sd.offset() ? *sd.offset() : 99999.0) << "\n";
        DataArray a3 = b.createDataArray("a3", "t", DataType::Double, NDSize({3}));
        TRY("D19 non-SI unit", a3.appendRangeDimension({1.0,2.0,3.0}, "lab", "furlong"));
        std::cout << "D19 dims after reject=" << a3.dimensionCount() << "\n";
    }
    if (which == "D8") {
        std::vector<double> data(100); for (int i=0;i<100;i++) data[i]=i;
        DataArray a = b.createDataArray("a", "t", data);
        a.appendSampledDimension(1.0);
        std::vector<double> pos = {10.0, 20.0, 30.0};
        DataArray p = b.createDataArray("p", "t", pos);
        MultiTag mt = b.createMultiTag("mt", "t", p);
        mt.addReference(a);
        for (size_t i = 0; i < 3; i++) {
            try { DataView v = mt.taggedData(i, 0); std::vector<double> out; v.getData(out);
                  std::cout << "D8 pos " << i << " -> n=" << out.size() << " first=" << (out.size()?out[0]:-1) << "\n"; }
            catch (const std::exception &e) { std::cout << "D8 pos " << i << " threw " << e.what() << "\n"; }
        }
    }
    if (which == "D14") {
        TRY("D14 mmol^2->mol^2", std::cout << util::getSIScaling("mmol^2", "mol^2") << " ");
        TRY("D14 mSv^2->Sv^2", std::cout << util::getSIScaling("mSv^2", "Sv^2") << " ");
        TRY("D14 ms^2->s^2", std::cout << util::getSIScaling("ms^2", "s^2") << " ");
        std::string p,u,pw; util::splitUnit("mmol^2", p,u,pw); std::cout << "D14 split: [" << p << "][" << u << "][" << pw << "]\n";
    }
    if (which == "D15") {
        std::vector<double> data(9);
        DataArray a = b.createDataArray("a", "t", DataType::Double, NDSize({3,3}));
        SampledDimension d1 = a.appendSampledDimension(1.0); d1.unit("s");
        SampledDimension d2 = a.appendSampledDimension(1.0); d2.unit("s");
        Tag t = b.createTag("tg", "t", {0.0, 0.0});
        t.units({"V", "s"});
        t.addReference(a);
        valid::Result r = valid::validate(t);
        std::cout << "D15 errors(V,s)=" << r.getErrors().size() << "\n";
        t.units({"s", "V"});
        r = valid::validate(t);
        std::cout << "D15 errors(s,V)=" << r.getErrors().size() << "\n";
    }
    if (which == "D18") {
        TRY("D18 Char", b.createDataArray("c", "t", DataType::Char, NDSize({3})));
        std::cout << "D18 hasDataArray(c)=" << b.hasDataArray("c") << " count=" << b.dataArrayCount() << "\n";
        TRY("D18 rank0", b.createDataArray("r0", "t", DataType::Double, NDSize{}));
        std::cout << "D18 hasDataArray(r0)=" << b.hasDataArray("r0") << "\n";
    }
    if (which == "D20") {
        DataArray a = b.createDataArray("a", "t", DataType::Double, NDSize({3}));
        DataArray o = b2.createDataArray("o", "t", DataType::Double, NDSize({3}));
        Tag t = b.createTag("tg", "t", {0.0});
        t.addReference(a);
        TRY("D20 references(vector with foreign)", t.references(std::vector<DataArray>{a, o}));
        std::cout << "D20 referenceCount after=" << t.referenceCount() << "\n";
        TRY("D20 references(vector foreign first)", t.references(std::vector<DataArray>{o}));
        std::cout << "D20 referenceCount after2=" << t.referenceCount() << "\n";
    }
    f.close();
    return 0;
}
