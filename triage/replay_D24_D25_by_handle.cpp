#include <nix.hpp>
#include <iostream>
using namespace nix;
int main() {
    File f = File::open("/tmp/replay2/t.nix", FileMode::Overwrite);
    Block a = f.createBlock("A", "t"), b = f.createBlock("B", "t");
    Source sa = a.createSource("s", "t"), sb = b.createSource("s", "t");
    DataArray da = a.createDataArray("x", "t", DataType::Double, NDSize({2}));
    DataArray db = b.createDataArray("x", "t", DataType::Double, NDSize({2}));
    Tag ta = a.createTag("tag", "t", {0.0});
    ta.addReference(da);
    bool r1 = a.deleteSource(sb);      // handle of a source of ANOTHER block
    std::cout << "A.deleteSource(handle of B/s) -> " << r1 << "; A has s: " << a.hasSource("s") << "; B has s: " << b.hasSource("s") << std::endl;
    bool r2 = ta.removeReference(db);  // array of another block with the same name
    std::cout << "tag.removeReference(handle of B/x) -> " << r2 << "; references left: " << ta.referenceCount() << std::endl;
    int bad = 0;
    if (!a.hasSource("s")) { std::cout << "DEFECT: the source of block A was deleted through a handle of block B's source" << std::endl; bad++; }
    if (ta.referenceCount() != 1) { std::cout << "DEFECT: the tag lost its reference through a handle of another block's array" << std::endl; bad++; }
    return bad;
}
