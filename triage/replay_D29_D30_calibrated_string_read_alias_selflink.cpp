#include <nix.hpp>
#include <iostream>
#include <sys/wait.h>
#include <unistd.h>
using namespace nix;
int main() {
    int bad = 0;
    File f = File::open("/tmp/replay4/t.nix", FileMode::Overwrite);
    Block b = f.createBlock("b", "t");
    // (b) alias range dimension: self link
    DataArray a = b.createDataArray("a", "t", DataType::Double, NDSize({3}));
    a.setData(std::vector<double>{1, 2, 3});
    a.appendAliasRangeDimension();
    DataArray h = b.getDataArray("a");
    bool del = b.deleteDataArray("a");
    std::cout << "deleted=" << del << " count=" << b.dataArrayCount() << " handle valid=" << h.isValidEntity() << "\n";
    if (h.isValidEntity()) bad++;
    // (a) calibrated read into strings, in a child
    DataArray c = b.createDataArray("c", "t", DataType::Double, NDSize({3}));
    c.setData(std::vector<double>{1, 2, 3});
    c.polynomCoefficients({1.0, 2.0});
    f.flush();
    pid_t p = fork();
    if (p == 0) {
        try { std::vector<std::string> s; c.getData(s); _exit(0); } catch (const std::exception &e) { _exit(3); }
    }
    int st = 0; waitpid(p, &st, 0);
    if (WIFSIGNALED(st)) { std::cout << "string read of calibrated array: killed by signal " << WTERMSIG(st) << "\n"; bad++; }
    else std::cout << "string read of calibrated array: exit " << WEXITSTATUS(st) << "\n";
    f.close();
    return bad ? 1 : 0;
}
