#include <nix.hpp>
#include <iostream>
using namespace nix;
int main() {
    File f = File::open("/tmp/replay5/t.nix", FileMode::Overwrite);
    Block b = f.createBlock("b", "t");
    DataArray x = b.createDataArray("x", "t", DataType::Double, NDSize({3}));
    DataArray a = b.createDataArray("a", "t", DataType::Double, NDSize({3}));
    Tag t = b.createTag("t", "t", {1.0});
    t.addReference(x);
    int bad = 0;
    ndsize_t before = t.referenceCount();
    try { t.references(std::vector<DataArray>{a, a}); std::cout << "accepted, count=" << t.referenceCount() << "\n"; }
    catch (const std::exception &e) { std::cout << "rejected: " << e.what() << " count before " << before << " after " << t.referenceCount() << " has x " << t.hasReference(x) << "\n"; if (t.referenceCount() != before || !t.hasReference(x)) bad++; }
    f.close();
    return bad;
}
