#include <nix.hpp>
#include <iostream>
using namespace nix;
int main() {
    int bad = 0;
    File f = File::open("/tmp/replay3/t.nix", FileMode::Overwrite);
    Block b = f.createBlock("b", "t");
    DataArray da = b.createDataArray("a", "t", DataType::Double, NDSize({3}));
    da.setData(std::vector<double>{1, 2, 3});
    NDSize before = da.dataExtent();
    try { { std::vector<std::string> sv{"x","y"}; da.appendData(DataType::String, sv.data(), NDSize({2}), 0); } std::cout << "append strings: accepted\n"; }
    catch (const std::exception &e) { std::cout << "append strings: rejected (" << e.what() << ")\n"; }
    std::cout << "extent before " << before << " after " << da.dataExtent() << "\n";
    if (da.dataExtent() != before) bad++;
    // setData with strings and a larger count
    DataArray d2 = b.createDataArray("a2", "t", DataType::Double, NDSize({3}));
    NDSize b2 = d2.dataExtent();
    try { d2.setData(std::vector<std::string>{"x", "y", "z", "w", "v"}); std::cout << "setData strings: accepted\n"; }
    catch (const std::exception &e) { std::cout << "setData strings: rejected (" << e.what() << ")\n"; }
    std::cout << "extent before " << b2 << " after " << d2.dataExtent() << "\n";
    if (d2.dataExtent() != b2) bad++;
    // data frame with a Nothing column
    ndsize_t nf = b.dataFrameCount();
    try { b.createDataFrame("df", "t", {{"c1", "", DataType::Nothing}}); std::cout << "df Nothing col: accepted\n"; }
    catch (const std::exception &e) { std::cout << "df Nothing col: rejected (" << e.what() << ")\n"; }
    std::cout << "frames before " << nf << " after " << b.dataFrameCount() << " has " << b.hasDataFrame("df") << "\n";
    if (b.dataFrameCount() != nf) bad++;
    try { b.createDataFrame("df0", "t", {}); std::cout << "df no cols: accepted\n"; }
    catch (const std::exception &e) { std::cout << "df no cols: rejected (" << e.what() << ")\n"; }
    std::cout << "frames after " << b.dataFrameCount() << "\n";
    ndsize_t na = b.dataArrayCount();
    try { b.createDataArray("big", "t", DataType::Double, NDSize(40, 1)); std::cout << "rank 40: accepted\n"; }
    catch (const std::exception &e) { std::cout << "rank 40: rejected (" << e.what() << ")\n"; }
    std::cout << "arrays before " << na << " after " << b.dataArrayCount() << "\n";
    if (b.dataArrayCount() != na) bad++;
    // Bool array, numeric data
    DataArray db = b.createDataArray("ab", "t", DataType::Bool, NDSize({3}));
    NDSize bb = db.dataExtent();
    try { db.setData(std::vector<double>{1, 0, 1, 1, 0}); std::cout << "setData double->Bool: accepted\n"; }
    catch (const std::exception &e) { std::cout << "setData double->Bool: rejected (" << e.what() << ")\n"; }
    std::cout << "extent before " << bb << " after " << db.dataExtent() << "\n";
    if (db.dataExtent() != bb) bad++;
    DataArray dc = b.createDataArray("ac", "t", DataType::Double, NDSize({3}));
    NDSize bc = dc.dataExtent();
    char cc[2] = {'a','b'};
    try { dc.appendData(DataType::Char, cc, NDSize({2}), 0); std::cout << "append Char: accepted\n"; }
    catch (const std::exception &e) { std::cout << "append Char: rejected (" << e.what() << ")\n"; }
    std::cout << "extent before " << bc << " after " << dc.dataExtent() << "\n";
    if (dc.dataExtent() != bc) bad++;
    f.close();
    return bad ? 1 : 0;
}
